(* Proofs/UTokenizerProofs.v - lemmas about Model/UTokenizer.v (C12), texts of Unicode code points *)
From Coq Require Import String.
From Coq Require Import NArith List Bool Arith Permutation Lia.
From Verif Require Import Base.UStr Model.UTokenizer.
Import ListNotations.
Open Scope N_scope.

Notation string := ustring (only parsing).
Notation String := cons (only parsing).
Notation EmptyString := nil (only parsing).
Notation ascii := N (only parsing).

(* ------------------------------------------------------------------ strings *)
Lemma sapp_assoc (a b c : string) : (a ++ b) ++ c = a ++ b ++ c.
Proof. symmetry. apply app_assoc. Qed.

Lemma sapp_nil_r (a : string) : a ++ [] = a.
Proof. apply app_nil_r. Qed.

Lemma allws_app a b : allws (a ++ b) = allws a && allws b.
Proof. induction a; cbn; [reflexivity|]. rewrite IHa. now rewrite andb_assoc. Qed.

Lemma nochar_app x a b : nochar x (a ++ b) = nochar x a && nochar x b.
Proof. induction a; cbn; [reflexivity|]. rewrite IHa. now rewrite andb_assoc. Qed.

Lemma is_empty_app_cons a c b : is_empty (a ++ String c b) = false.
Proof. destruct a; reflexivity. Qed.

(* lstrip *)
Lemma lstrip_app_ws p s : allws p = true -> lstrip (p ++ s) = lstrip s.
Proof. induction p; cbn; [reflexivity|]. intros H. apply andb_prop in H as [H1 H2]. rewrite H1. auto. Qed.

Lemma lstrip_allws p : allws p = true -> lstrip p = [].
Proof. intros H. rewrite <- (sapp_nil_r p). now rewrite lstrip_app_ws. Qed.

Lemma lstrip_nonws c r : is_ws c = false -> lstrip (String c r) = String c r.
Proof. cbn. now intros ->. Qed.

Lemma lstrip_app_nonws a c b : is_ws c = false -> lstrip (a ++ String c b) = lstrip a ++ String c b.
Proof. intros H. induction a as [|x a IH]; cbn; [now rewrite H|]. destruct (is_ws x); [exact IH | reflexivity]. Qed.

Lemma lstrip_idem s : lstrip (lstrip s) = lstrip s.
Proof. induction s as [|c r IH]; cbn; [reflexivity|]. destruct (is_ws c) eqn:E; [exact IH|]. cbn. now rewrite E. Qed.

Lemma lstrip_cases s : lstrip s = [] \/ exists c r, lstrip s = String c r /\ is_ws c = false.
Proof. induction s as [|c r IH]; cbn; [now left|]. destruct (is_ws c) eqn:E; [exact IH|]. right. now exists c, r. Qed.

Lemma nochar_lstrip x s : nochar x s = true -> nochar x (lstrip s) = true.
Proof. induction s as [|c r IH]; cbn; [reflexivity|]. intros H. destruct (is_ws c); [|exact H].
  apply andb_prop in H as [_ H]. auto. Qed.

(* rstrip *)
Lemma rstrip_allws p : allws p = true -> rstrip p = [].
Proof. induction p; cbn; [reflexivity|]. intros H. apply andb_prop in H as [H1 H2]. rewrite (IHp H2), H1. reflexivity. Qed.

Lemma rstrip_app_ws s p : allws p = true -> rstrip (s ++ p) = rstrip s.
Proof. intros H. induction s as [|c r IH]; cbn; [now apply rstrip_allws|]. now rewrite IH. Qed.

Lemma rstrip_nonws c r : is_ws c = false -> rstrip (String c r) = String c (rstrip r).
Proof. cbn. now intros ->. Qed.

Lemma rstrip_app_nonws a c b : is_ws c = false -> rstrip (a ++ String c b) = a ++ String c (rstrip b).
Proof. intros H. induction a as [|x a IH]; cbn [app]; [now apply rstrip_nonws|].
  cbn [rstrip]. rewrite IH, is_empty_app_cons, andb_false_r. reflexivity. Qed.

Lemma rstrip_empty_allws s : rstrip s = [] -> allws s = true.
Proof. induction s as [|c r IH]; cbn; [reflexivity|]. destruct (is_ws c); cbn; [|discriminate].
  destruct (rstrip r) eqn:E; cbn; [intros _; now apply IH | discriminate]. Qed.

Lemma nochar_rstrip x s : nochar x s = true -> nochar x (rstrip s) = true.
Proof. induction s as [|c r IH]; cbn; [reflexivity|]. intros H. apply andb_prop in H as [H1 H2].
  destruct (is_ws c && is_empty (rstrip r)); cbn; [reflexivity|]. rewrite H1. cbn. auto. Qed.

Lemma lstrip_rstrip_comm s : lstrip (rstrip s) = rstrip (lstrip s).
Proof.
  induction s as [|c r IH]; [reflexivity|]. cbn [lstrip rstrip]. destruct (is_ws c) eqn:E; cbn [andb].
  - destruct (is_empty (rstrip r)) eqn:Er.
    + destruct (rstrip r) eqn:E2; [|discriminate]. rewrite <- IH. reflexivity.
    + cbn [lstrip]. rewrite E. exact IH.
  - cbn [lstrip rstrip]. rewrite E. reflexivity.
Qed.

Lemma rstrip_idem s : rstrip (rstrip s) = rstrip s.
Proof.
  induction s as [|c r IH]; [reflexivity|]. cbn [rstrip]. destruct (is_ws c && is_empty (rstrip r)) eqn:E; [reflexivity|].
  cbn [rstrip]. rewrite IH, E. reflexivity.
Qed.

(* strip *)
Lemma strip_alt s : strip s = lstrip (rstrip s).
Proof. unfold strip. now rewrite lstrip_rstrip_comm. Qed.

Lemma strip_pad p s q : allws p = true -> allws q = true -> strip (p ++ s ++ q) = strip s.
Proof. intros Hp Hq. unfold strip. rewrite lstrip_app_ws by assumption.
  rewrite <- !lstrip_rstrip_comm, rstrip_app_ws by assumption. reflexivity. Qed.

Lemma strip_app_ws s q : allws q = true -> strip (s ++ q) = strip s.
Proof. intros Hq. apply (strip_pad [] s q); auto. Qed.

Lemma strip_lstrip s : strip (lstrip s) = strip s.
Proof. unfold strip. now rewrite lstrip_idem. Qed.

Lemma strip_rstrip s : strip (rstrip s) = strip s.
Proof. rewrite !strip_alt. now rewrite rstrip_idem. Qed.

Lemma strip_allws s : allws s = true -> strip s = [].
Proof. intros H. unfold strip. now rewrite lstrip_allws. Qed.

(* the stripped form of  a , b  *)
Lemma is_ws_comma : is_ws COMMA = false. Proof. reflexivity. Qed.

Lemma strip_comma a b : strip (a ++ String COMMA b) = lstrip a ++ String COMMA (rstrip b).
Proof. unfold strip. rewrite lstrip_app_nonws by apply is_ws_comma. apply rstrip_app_nonws, is_ws_comma. Qed.

(* split *)
Lemma split_on_nochar x s : nochar x s = true -> split_on x s = [s].
Proof. induction s as [|c r IH]; cbn; [reflexivity|]. intros H. apply andb_prop in H as [H1 H2].
  apply negb_true_iff in H1. rewrite H1, (IH H2). reflexivity. Qed.

Lemma split_on_app x a b : nochar x a = true -> split_on x (a ++ String x b) = a :: split_on x b.
Proof. induction a as [|c r IH]; cbn [app].
  - intros _. cbn. now rewrite UA.eqb_refl.
  - cbn [nochar split_on]. intros H. apply andb_prop in H as [H1 H2]. apply negb_true_iff in H1.
    rewrite H1, (IH H2). reflexivity. Qed.

(* comment detection depends only on what precedes the first comma *)
Lemma is_comment_comma_indep s X Y : is_comment (s ++ String COMMA X) = is_comment (s ++ String COMMA Y).
Proof. destruct s as [|a [|b r]]; reflexivity. Qed.

Lemma is_comment_pad c r q X Y : is_ws c = false -> allws q = true ->
  is_comment (String c r ++ q ++ String COMMA X) = is_comment (String c r ++ String COMMA Y).
Proof.
  intros Hc Hq. destruct r as [|b r]; [|reflexivity]. cbn [app].
  destruct q as [|w q]; [reflexivity|]. cbn in Hq. apply andb_prop in Hq as [Hw _]. cbn [app is_comment].
  destruct (UA.eqb_spec w DASH) as [->|N0]; [vm_compute in Hw; discriminate Hw|]. reflexivity.
Qed.

(* ------------------------------------------------------------------ fields of one line *)
Lemma fields_two a b : nocomma a = true -> nocomma b = true ->
  core (fields (strip (a ++ String COMMA b))) = Some (strip a, (strip b, [])).
Proof.
  intros Ha Hb. rewrite strip_comma. unfold fields.
  rewrite split_on_app by now apply nochar_lstrip.
  rewrite split_on_nochar by now apply nochar_rstrip.
  cbn. now rewrite strip_lstrip, strip_rstrip.
Qed.

Lemma fields_three a b c : nocomma a = true -> nocomma b = true ->
  name_val (fields (strip (a ++ String COMMA (b ++ String COMMA c)))) = Some (strip a, strip b).
Proof.
  intros Ha Hb. rewrite strip_comma. unfold fields.
  rewrite split_on_app by now apply nochar_lstrip.
  rewrite rstrip_app_nonws by apply is_ws_comma.
  rewrite split_on_app by assumption.
  destruct (split_on COMMA (rstrip c)); cbn; now rewrite strip_lstrip.
Qed.

(* comment status of the line  (p1 d p2) , X  is that of  d , Y *)
Lemma is_comment_decorated p1 d p2 X Y : allws p1 = true -> allws p2 = true ->
  is_comment (strip ((p1 ++ d ++ p2) ++ String COMMA X)) = is_comment (strip (d ++ String COMMA Y)).
Proof.
  intros H1 H2. rewrite !strip_comma, lstrip_app_ws by assumption.
  destruct (lstrip_cases d) as [E | (c & r & E & Hc)].
  - (* d is blank: both lines start with the comma *)
    assert (Hd : allws d = true).
    { clear -E. induction d as [|x d IH]; cbn in *; [reflexivity|]. destruct (is_ws x); [cbn; auto | discriminate]. }
    rewrite E. rewrite lstrip_allws by (rewrite allws_app, Hd, H2; reflexivity). reflexivity.
  - assert (E2 : lstrip (d ++ p2) = lstrip d ++ p2).
    { clear -E Hc. induction d as [|x d IH]; cbn in *; [discriminate|].
      destruct (is_ws x) eqn:Ex; [auto | reflexivity]. }
    rewrite E2, E, sapp_assoc. apply is_comment_pad; assumption.
Qed.

Lemma allws_nocomma x : allws x = true -> nocomma x = true.
Proof. unfold nocomma. induction x as [|a x IH]; cbn [allws nochar]; [reflexivity|]. intros H. apply andb_prop in H as [Hc Hx].
  rewrite (IH Hx), andb_true_r. destruct (UA.eqb_spec a COMMA) as [->|]; [discriminate Hc | reflexivity]. Qed.

Lemma nocomma_pad p s q : allws p = true -> allws q = true -> nocomma s = true -> nocomma (p ++ s ++ q) = true.
Proof. intros Hp Hq Hs. apply allws_nocomma in Hp, Hq. unfold nocomma in *. now rewrite !nochar_app, Hp, Hs, Hq. Qed.

Lemma parse_line_unfold raw : parse_line raw = if is_comment (strip raw) then None else fields (strip raw).
Proof. reflexivity. Qed.

Lemma whitespace_irrelevant p1 p2 p3 p4 d v :
  allws p1 = true -> allws p2 = true -> allws p3 = true -> allws p4 = true ->
  nocomma d = true -> nocomma v = true ->
  core (parse_line (p1 ++ d ++ p2 ++ String COMMA (p3 ++ v ++ p4))) = core (parse_line (d ++ String COMMA v)).
Proof.
  intros H1 H2 H3 H4 Hd Hv.
  replace (p1 ++ d ++ p2 ++ String COMMA (p3 ++ v ++ p4)) with ((p1 ++ d ++ p2) ++ String COMMA (p3 ++ v ++ p4))
    by now rewrite !sapp_assoc.
  rewrite !parse_line_unfold, (is_comment_decorated p1 d p2 _ v H1 H2).
  destruct (is_comment (strip (d ++ String COMMA v))); [reflexivity|].
  rewrite !fields_two; try assumption.
  - now rewrite !strip_pad.
  - now apply nocomma_pad.
  - now apply nocomma_pad.
Qed.

Lemma trailing_comment_irrelevant d v c : nocomma d = true -> nocomma v = true ->
  name_val (parse_line (d ++ String COMMA (v ++ String COMMA c))) = name_val (parse_line (d ++ String COMMA v)).
Proof.
  intros Hd Hv. rewrite !parse_line_unfold, !strip_comma, (is_comment_comma_indep _ _ (rstrip v)), <- !strip_comma.
  destruct (is_comment (strip (d ++ String COMMA v))); [reflexivity|].
  rewrite fields_three by assumption.
  pose proof (fields_two d v Hd Hv) as F. unfold core, name_val in *.
  destruct (fields (strip (d ++ String COMMA v))); cbn in *; [|discriminate]. now inversion F.
Qed.

Lemma decorated_line p1 p2 p3 p4 d v c :
  allws p1 = true -> allws p2 = true -> allws p3 = true -> allws p4 = true ->
  nocomma d = true -> nocomma v = true ->
  name_val (parse_line (p1 ++ d ++ p2 ++ String COMMA (p3 ++ v ++ p4 ++ String COMMA c)))
  = name_val (parse_line (d ++ String COMMA v)).
Proof.
  intros H1 H2 H3 H4 Hd Hv.
  replace (p1 ++ d ++ p2 ++ String COMMA (p3 ++ v ++ p4 ++ String COMMA c))
    with ((p1 ++ d ++ p2) ++ String COMMA ((p3 ++ v ++ p4) ++ String COMMA c)) by now rewrite !sapp_assoc.
  rewrite trailing_comment_irrelevant.
  - replace ((p1 ++ d ++ p2) ++ String COMMA (p3 ++ v ++ p4)) with (p1 ++ d ++ p2 ++ String COMMA (p3 ++ v ++ p4))
      by now rewrite !sapp_assoc.
    pose proof (whitespace_irrelevant p1 p2 p3 p4 d v H1 H2 H3 H4 Hd Hv) as W. unfold core, name_val in *.
    destruct (parse_line (p1 ++ d ++ p2 ++ String COMMA (p3 ++ v ++ p4))), (parse_line (d ++ String COMMA v));
      cbn in *; congruence.
  - now apply nocomma_pad.
  - now apply nocomma_pad.
Qed.

(* a well-formed line reads as written *)
Lemma clean_line d v : nocomma d = true -> nocomma v = true -> is_comment (lstrip d) = false -> lstrip d <> [] ->
  name_val (parse_line (d ++ String COMMA v)) = Some (strip d, strip v).
Proof.
  intros Hd Hv Hc Hne. rewrite parse_line_unfold.
  assert (is_comment (strip (d ++ String COMMA v)) = false) as ->.
  { rewrite strip_comma. destruct (lstrip d) as [|a [|b r]] eqn:E; [congruence| |exact Hc].
    cbn in *. now rewrite andb_false_r in *. }
  pose proof (fields_two d v Hd Hv) as F. unfold core, name_val in *.
  destruct (fields (strip (d ++ String COMMA v))); cbn in *; [|discriminate]. now inversion F.
Qed.

(* comment and blank lines *)
Definition is_prefix_mark (m : string) : Prop := m = [HASH] \/ m = [DASH; DASH] \/ m = [STAR].

Lemma comment_line p m x : allws p = true -> is_prefix_mark m -> parse_line (p ++ m ++ x) = None.
Proof.
  intros Hp Hm. rewrite parse_line_unfold. unfold strip. rewrite lstrip_app_ws by assumption.
  destruct Hm as [-> | [-> | ->]]; cbn [app]; rewrite lstrip_nonws by reflexivity;
    repeat rewrite rstrip_nonws by reflexivity; reflexivity.
Qed.

Lemma blank_line p : allws p = true -> parse_line p = None.
Proof. intros H. rewrite parse_line_unfold, strip_allws by assumption. reflexivity. Qed.

Lemma commaless_line s : nocomma s = true -> parse_line s = None.
Proof.
  intros H. rewrite parse_line_unfold. destruct (is_comment (strip s)); [reflexivity|].
  unfold fields. rewrite split_on_nochar; [reflexivity|]. unfold strip. now apply nochar_rstrip, nochar_lstrip.
Qed.

Lemma parse_lines_app a b : parse_lines (a ++ b)%list = (parse_lines a ++ parse_lines b)%list.
Proof. unfold parse_lines. apply flat_map_app. Qed.

Lemma ignored_line l1 l2 c : parse_line c = None -> read_lines (l1 ++ c :: l2)%list = read_lines (l1 ++ l2)%list.
Proof. intros H. unfold read_lines. rewrite !parse_lines_app. cbn. rewrite H. reflexivity. Qed.

(* ------------------------------------------------------------------ the dictionary *)
Lemma dict_get_set_same k e d : dict_get k (dict_set k e d) = Some e.
Proof. induction d as [|[k' e'] r IH]; cbn; [now rewrite US.eqb_refl|].
  destruct (US.eqb k k') eqn:E; cbn; rewrite E; [reflexivity | exact IH]. Qed.

Lemma dict_get_set_other k k' e d : US.eqb k k' = false -> dict_get k (dict_set k' e d) = dict_get k d.
Proof. intros N. induction d as [|[k2 e2] r IH]; cbn; [now rewrite N|].
  destruct (US.eqb k' k2) eqn:E; cbn.
  - apply US.eqb_eq in E. subst. now rewrite N.
  - destruct (US.eqb k k2); [reflexivity | exact IH]. Qed.

Lemma build_from_get k es : forall d,
  dict_get k (build_from d es) = match find_last k es with Some x => Some x | None => dict_get k d end.
Proof.
  induction es as [|e r IH]; intros d; [reflexivity|]. unfold build_from in *. cbn [fold_left find_last]. rewrite IH.
  destruct (find_last k r); [reflexivity|]. destruct (US.eqb k (e_name e)) eqn:E.
  - apply US.eqb_eq in E. subst. apply dict_get_set_same.
  - now apply dict_get_set_other.
Qed.

Lemma lookup_last_occurrence k es : dict_get k (build_from [] es) = find_last k es.
Proof. rewrite build_from_get. now destruct (find_last k es). Qed.

Lemma find_last_app k a b : find_last k (a ++ b)%list = match find_last k b with Some x => Some x | None => find_last k a end.
Proof. induction a as [|e r IH]; cbn; [now destruct (find_last k b)|]. rewrite IH. now destruct (find_last k b). Qed.

Lemma find_last_notin k es : ~ In k (map e_name es) -> find_last k es = None.
Proof. induction es as [|e r IH]; cbn; [reflexivity|]. intros H. rewrite IH by tauto.
  destruct (US.eqb_spec k (e_name e)); [subst; tauto | reflexivity]. Qed.

Lemma find_last_perm k es es' : NoDup (map e_name es) -> Permutation es es' -> find_last k es = find_last k es'.
Proof.
  intros ND P. induction P as [| e l l' P IH | e1 e2 l | l l' l'' P1 IH1 P2 IH2].
  - reflexivity.
  - cbn. inversion ND; subst. now rewrite IH.
  - cbn. cbn in ND. inversion ND as [|? ? N1 ND1]; subst. inversion ND1; subst.
    destruct (find_last k l); [reflexivity|].
    destruct (US.eqb_spec k (e_name e1)), (US.eqb_spec k (e_name e2)); subst; try reflexivity.
    exfalso. apply N1. left. congruence.
  - rewrite IH1 by assumption. apply IH2. eapply Permutation_NoDup; [apply Permutation_map; eassumption | assumption].
Qed.

Lemma find_last_filter k es : find_last k es = find_last k (filter (fun e => US.eqb k (e_name e)) es).
Proof. induction es as [|e r IH]; cbn; [reflexivity|]. destruct (US.eqb k (e_name e)) eqn:E; cbn; rewrite <- IH, ?E; [reflexivity|]. now destruct (find_last k r). Qed.

Lemma parse_lines_perm ls ls' : Permutation ls ls' -> Permutation (parse_lines ls) (parse_lines ls').
Proof. intros P. unfold parse_lines. induction P; cbn.
  - constructor.
  - now apply Permutation_app_head.
  - rewrite !app_assoc. apply Permutation_app_tail, Permutation_app_comm.
  - etransitivity; eassumption.
Qed.

Lemma read_lines_get k ls : dict_get k (read_lines ls) = find_last k (parse_lines ls).
Proof. apply lookup_last_occurrence. Qed.

Lemma permutation_invariance ls ls' : Permutation ls ls' -> NoDup (map e_name (parse_lines ls)) ->
  forall k, dict_get k (read_lines ls) = dict_get k (read_lines ls').
Proof. intros P ND k. rewrite !read_lines_get. apply find_last_perm; [assumption | now apply parse_lines_perm]. Qed.

Lemma reorder_with_duplicates ls ls' k :
  filter (fun e => US.eqb k (e_name e)) (parse_lines ls) = filter (fun e => US.eqb k (e_name e)) (parse_lines ls') ->
  dict_get k (read_lines ls) = dict_get k (read_lines ls').
Proof. intros H. rewrite !read_lines_get, (find_last_filter k (parse_lines ls)), (find_last_filter k (parse_lines ls')). now rewrite H. Qed.

Lemma last_wins ls1 ls2 k :
  dict_get k (read_lines (ls1 ++ ls2)%list) =
  match dict_get k (read_lines ls2) with Some e => Some e | None => dict_get k (read_lines ls1) end.
Proof. rewrite !read_lines_get, parse_lines_app. apply find_last_app. Qed.

(* iteration order of the keys = order of first occurrence *)
Definition mem (k : string) (l : list string) : bool := existsb (US.eqb k) l.
Definition add_keys (acc l : list string) : list string :=
  fold_left (fun acc k => if mem k acc then acc else (acc ++ [k])%list) l acc.

Lemma keys_dict_set k e d : keys (dict_set k e d) = if mem k (keys d) then keys d else (keys d ++ [k])%list.
Proof. unfold keys, mem. induction d as [|[k' e'] r IH]; cbn [dict_set map fst existsb app]; [reflexivity|].
  destruct (US.eqb k k') eqn:E; cbn [map fst orb]; [reflexivity|]. rewrite IH.
  now destruct (existsb (US.eqb k) (map fst r)). Qed.

Lemma keys_build_from es : forall d, keys (build_from d es) = add_keys (keys d) (map e_name es).
Proof. induction es as [|e r IH]; intros d; [reflexivity|]. unfold build_from, add_keys in *. cbn [fold_left map].
  rewrite IH, keys_dict_set. reflexivity. Qed.

Lemma mem_filter p k acc : p k = true -> mem k (filter p acc) = mem k acc.
Proof. intros H. unfold mem. induction acc as [|a r IH]; cbn [filter existsb]; [reflexivity|]. destruct (p a) eqn:E; cbn [existsb].
  - now rewrite IH.
  - rewrite IH. destruct (US.eqb_spec k a); [subst; congruence | reflexivity]. Qed.

Lemma filter_add_keys p l : forall acc, filter p (add_keys acc l) = add_keys (filter p acc) (filter p l).
Proof.
  induction l as [|k r IH]; intros acc; [reflexivity|]. unfold add_keys in *. cbn [fold_left filter].
  rewrite IH. destruct (p k) eqn:E; cbn [fold_left].
  - rewrite (mem_filter p k acc E). destruct (mem k acc); [reflexivity|]. rewrite filter_app. cbn. now rewrite E, app_nil_r || rewrite E.
  - destruct (mem k acc); [reflexivity|]. rewrite filter_app. cbn. rewrite E, app_nil_r. reflexivity.
Qed.

Lemma block_order_preserved p es es' :
  filter p (map e_name es) = filter p (map e_name es') ->
  filter p (keys (build_from [] es)) = filter p (keys (build_from [] es')).
Proof. intros H. rewrite !keys_build_from, !filter_add_keys. now rewrite H. Qed.

(* ------------------------------------------------------------------ line endings *)
Lemma univ_noeol l : forall f rest, noeol l = true -> l <> [] -> univ f (l ++ rest) = l ++ univ false rest.
Proof.
  induction l as [|c r IH]; intros f rest H Hne; [congruence|]. cbn [app univ].
  unfold noeol in H. cbn in H. apply andb_prop in H as [H1 H2].
  apply andb_prop in H1 as [A1 A2]. apply andb_prop in H2 as [B1 B2].
  apply negb_true_iff in A1, B1. rewrite A1, B1. f_equal.
  destruct r as [|c2 r2]; [reflexivity|]. apply IH; [|discriminate]. unfold noeol. now rewrite A2, B2.
Qed.

Lemma univ_noeol' l rest : noeol l = true -> univ false (l ++ rest) = l ++ univ false rest.
Proof. destruct l; [reflexivity|]. intros H. now apply univ_noeol. Qed.

Definition starts_lf (s : string) : bool := match s with String c _ => UA.eqb c LF | EmptyString => false end.

Lemma univ_eol (e : eol) rest : (e = EolCR -> starts_lf rest = false) ->
  univ false (eol_str e ++ rest) = String LF (univ false rest).
Proof.
  destruct e; intros H; cbn; [reflexivity | reflexivity |].
  f_equal. specialize (H eq_refl). destruct rest as [|c r]; [reflexivity|]. cbn in *. now rewrite H.
Qed.

Lemma starts_lf_noeol l : noeol l = true -> starts_lf l = false.
Proof. destruct l as [|c r]; [reflexivity|]. unfold noeol. cbn. intros H.
  apply andb_prop in H as [H _]. apply andb_prop in H as [H _]. now apply negb_true_iff in H. Qed.

Lemma universal_join e ls last : Forall (fun l => noeol l = true) ls -> noeol last = true ->
  universal (join_lines e ls ++ last) = join_lines EolLF ls ++ last.
Proof.
  intros F Hl. unfold universal. induction F as [|l ls H F IH].
  - cbn. rewrite <- (sapp_nil_r last) at 1. rewrite univ_noeol' by assumption. cbn. now rewrite sapp_nil_r.
  - unfold join_lines in *. cbn [map cat].
    assert (C : forall (x : string) xs, cat (x :: xs) = x ++ cat xs) by reflexivity.
    rewrite !sapp_assoc, univ_noeol' by assumption. f_equal.
    rewrite univ_eol.
    + cbn. f_equal. exact IH.
    + intros ->. destruct ls as [|l2 ls2].
      * cbn. now apply starts_lf_noeol.
      * inversion F; subst. cbn [map cat]. rewrite !sapp_assoc. destruct l2 as [|c r]; [reflexivity|]. cbn.
        match goal with H : noeol (String c r) = true |- _ => unfold noeol in H; cbn in H;
          apply andb_prop in H as [H _]; apply andb_prop in H as [H _]; now apply negb_true_iff in H end.
Qed.

Lemma readlines_line l rest : nochar LF l = true ->
  readlines (l ++ String LF rest) = (l ++ [LF]) :: readlines rest.
Proof. induction l as [|c r IH]; cbn [app]; intros H.
  - cbn. reflexivity.
  - cbn in H. apply andb_prop in H as [H1 H2]. apply negb_true_iff in H1. cbn [readlines]. rewrite H1, (IH H2). reflexivity. Qed.

Lemma readlines_last l : nochar LF l = true -> readlines l = if is_empty l then [] else [l].
Proof. induction l as [|c r IH]; [reflexivity|]. cbn. intros H. apply andb_prop in H as [H1 H2]. apply negb_true_iff in H1.
  rewrite H1, (IH H2). now destruct r. Qed.

Lemma readlines_join ls last : Forall (fun l => noeol l = true) ls -> noeol last = true ->
  readlines (join_lines EolLF ls ++ last) = (map (fun l => (l ++ [LF])) ls ++ (if is_empty last then [] else [last]))%list.
Proof.
  intros F Hl.
  induction F as [|l ls H F IH]; unfold join_lines in *.
  - cbn. apply readlines_last. unfold noeol in Hl. now apply andb_prop in Hl as [Hl _].
  - cbn [map cat]. rewrite !sapp_assoc. cbn [eol_str app]. rewrite readlines_line.
    + cbn [app]. f_equal. exact IH.
    + unfold noeol in H. now apply andb_prop in H as [H _].
Qed.

Lemma parse_line_eol l : parse_line (l ++ [LF]) = parse_line l.
Proof. rewrite !parse_line_unfold, strip_app_ws by reflexivity. reflexivity. Qed.

Lemma parse_lines_map_eol ls : parse_lines (map (fun l => l ++ [LF]) ls) = parse_lines ls.
Proof. unfold parse_lines. induction ls as [|l r IH]; cbn; [reflexivity|]. now rewrite parse_line_eol, IH. Qed.

Lemma line_endings_irrelevant e ls last : Forall (fun l => noeol l = true) ls -> noeol last = true ->
  read_text (join_lines e ls ++ last) = read_lines (ls ++ [last])%list.
Proof.
  intros F Hl. unfold read_text. rewrite universal_join, readlines_join by assumption.
  unfold read_lines. rewrite !parse_lines_app, parse_lines_map_eol. f_equal. f_equal.
  destruct last; cbn; [|reflexivity]. reflexivity.
Qed.

(* ------------------------------------------------------------------ the client's app *)
Lemma univ_app_lf b x : forall f, univ f (b ++ String LF x) = univ f (b ++ [LF]) ++ univ false x.
Proof.
  induction b as [|c r IH]; intros f; cbn [app univ].
  - rewrite UA.eqb_refl. destruct f; reflexivity.
  - destruct (UA.eqb c LF); [destruct f; [apply IH | cbn; f_equal; apply IH]|].
    destruct (UA.eqb c CR); cbn; f_equal; apply IH.
Qed.

Lemma readlines_app u v : complete u = true -> readlines (u ++ v) = (readlines u ++ readlines v)%list.
Proof.
  induction u as [|c r IH]; [reflexivity|]. cbn [complete app readlines]. intros H.
  destruct r as [|c2 r2].
  - cbn in H. rewrite H. reflexivity.
  - cbn [is_empty] in H. rewrite (IH H). destruct (UA.eqb c LF); [reflexivity|].
    cbn [app readlines]. destruct (UA.eqb c2 LF); [reflexivity|].
    destruct (readlines r2) eqn:E; cbn; reflexivity || (destruct r2; cbn in *; try discriminate; reflexivity).
Qed.

Lemma univ_false_nonempty s : s <> [] -> univ false s <> [].
Proof. destruct s as [|a s]; [congruence|]. intros _. cbn. destruct (UA.eqb a LF); [discriminate|].
  destruct (UA.eqb a CR); discriminate. Qed.

Lemma complete_univ_lf b : forall f, complete (univ f (b ++ [LF])) = true.
Proof.
  induction b as [|c r IH]; intros f; cbn [app univ].
  - rewrite UA.eqb_refl. destruct f; reflexivity.
  - assert (G : forall a s, complete s = true -> s <> [] -> complete (String a s) = true).
    { intros a s H N. cbn. destruct s; [congruence | exact H]. }
    assert (NE : forall f, univ f (r ++ [LF]) <> [] \/ univ f (r ++ [LF]) = []).
    { intros g. destruct (univ g (r ++ [LF])); [now right | left; discriminate]. }
    destruct (UA.eqb c LF) eqn:E1.
    + destruct f; [apply IH|]. destruct (NE false) as [N|Z]; [apply G; [apply IH | exact N] | rewrite Z; reflexivity].
    + destruct (UA.eqb c CR).
      * destruct (NE true) as [N|Z]; [apply G; [apply IH | exact N] | rewrite Z; reflexivity].
      * destruct (NE false) as [N|Z]; [apply G; [apply IH | exact N]|].
        exfalso. revert Z. apply univ_false_nonempty. destruct r; discriminate.
Qed.

Lemma read_text_append b x k :
  dict_get k (read_text (b ++ String LF x)) =
  match dict_get k (read_text x) with Some e => Some e | None => dict_get k (read_text (b ++ [LF])) end.
Proof.
  unfold read_text, universal. rewrite univ_app_lf, readlines_app by apply complete_univ_lf. apply last_wins.
Qed.

Lemma univ_nocr s : forall f, nochar CR (univ f s) = true.
Proof. induction s as [|c r IH]; intros f; cbn; [reflexivity|].
  destruct (UA.eqb c LF) eqn:E1; [destruct f; cbn; auto|].
  destruct (UA.eqb c CR) eqn:E2; cbn; [auto|]. now rewrite E2, IH. Qed.

Lemma univ_nocr_app u x : nochar CR u = true -> univ false (u ++ x) = u ++ univ false x.
Proof.
  induction u as [|c r IH]; intros H; [reflexivity|]. cbn in H. apply andb_prop in H as [H1 H2]. apply negb_true_iff in H1.
  cbn [app univ]. rewrite H1. destruct (UA.eqb_spec c LF) as [->|N]; cbn [app]; now rewrite (IH H2).
Qed.

Lemma client_override_pinned_partial base params k : terminated base = true ->
  dict_get k (read_text (client_text_pinned base params)) =
  match dict_get k (read_text (cat (map param_line params))) with
  | Some e => Some e
  | None => dict_get k (read_text base)
  end.
Proof.
  intros T. unfold client_text_pinned, read_text, universal at 1. rewrite univ_nocr_app by apply univ_nocr.
  rewrite readlines_app by exact T. apply last_wins.
Qed.

Definition body (p : string * string) : string := fst p ++ [COMMA; SPACE] ++ snd p.

Lemma clean_param_parse p : clean_param p = true ->
  exists e, parse_line (body p) = Some e /\ e_name e = fst p /\ e_sval e = strip (snd p).
Proof.
  unfold clean_param. intros H.
  apply andb_prop in H as [H H7]. apply andb_prop in H as [H H6]. apply andb_prop in H as [H H5].
  apply andb_prop in H as [H H4]. apply andb_prop in H as [H H3]. apply andb_prop in H as [H1 H2].
  apply US.eqb_eq in H5. apply negb_true_iff in H6, H7.
  assert (N : lstrip (fst p) <> []) by (destruct (lstrip (fst p)); [discriminate | discriminate]).
  pose proof (clean_line (fst p) (SPACE :: snd p)) as C.
  unfold body. cbn [app]. 
  assert (V : nocomma (SPACE :: snd p) = true) by (unfold nocomma in *; cbn; assumption).
  specialize (C H3 V H6 N). unfold name_val in C.
  destruct (parse_line (fst p ++ String COMMA (SPACE :: snd p))) as [e|]; cbn [option_map] in C; [|discriminate].
  exists e. inversion C as [[Hn Hs]]. split; [reflexivity|]. split; [congruence|].
  rewrite Hs. transitivity (strip ([SPACE] ++ snd p ++ [])); [now rewrite sapp_nil_r | now apply strip_pad].
Qed.

Lemma clean_params_names ps : Forall (fun p => clean_param p = true) ps ->
  map e_name (parse_lines (map body ps)) = map fst ps.
Proof.
  induction 1 as [|p r H F IH]; [reflexivity|]. unfold parse_lines in *. cbn [map flat_map].
  destruct (clean_param_parse p H) as (e & -> & N & _). cbn. now rewrite IH, N.
Qed.

Lemma clean_params_find ps k v : Forall (fun p => clean_param p = true) ps -> NoDup (map fst ps) -> In (k, v) ps ->
  option_map e_sval (find_last k (parse_lines (map body ps))) = Some (strip v).
Proof.
  induction 1 as [|p r H F IH]; intros ND I; [destruct I|]. cbn in ND. inversion ND as [|? ? NI ND']; subst.
  unfold parse_lines in *. cbn [map flat_map]. destruct (clean_param_parse p H) as (e & -> & N & S).
  cbn [app find_last]. destruct I as [-> | I].
  - cbn in *. rewrite find_last_notin.
    + rewrite N, US.eqb_refl. cbn. now rewrite S.
    + fold (parse_lines (map body r)). now rewrite clean_params_names.
  - specialize (IH ND' I). destruct (find_last k (flat_map _ (map body r))); [exact IH | discriminate IH].
Qed.

Lemma cat_param_lines ps : cat (map param_line ps) = join_lines EolLF (map body ps) ++ [].
Proof. rewrite sapp_nil_r. unfold join_lines. induction ps as [|p r IH]; [reflexivity|]. cbn [map cat]. rewrite <- IH.
  unfold param_line, body. cbn [eol_str]. now rewrite !sapp_assoc. Qed.

Lemma clean_params_noeol ps : Forall (fun p => clean_param p = true) ps -> Forall (fun l => noeol l = true) (map body ps).
Proof.
  induction 1 as [|p r H F IH]; constructor; [|exact IH]. unfold clean_param in H.
  apply andb_prop in H as [H _]. apply andb_prop in H as [H _]. apply andb_prop in H as [H _].
  apply andb_prop in H as [H _]. apply andb_prop in H as [H _]. apply andb_prop in H as [H1 H2].
  unfold body, noeol in *. rewrite !nochar_app.
  apply andb_prop in H1 as [A1 A2]. apply andb_prop in H2 as [B1 B2]. now rewrite A1, A2, B1, B2.
Qed.

Lemma client_param_value params k v :
  Forall (fun p => clean_param p = true) params -> NoDup (map fst params) -> In (k, v) params ->
  option_map e_sval (dict_get k (read_text (cat (map param_line params)))) = Some (strip v).
Proof.
  intros F ND I. rewrite cat_param_lines, line_endings_irrelevant by (try apply clean_params_noeol; auto).
  rewrite read_lines_get, parse_lines_app. cbn [parse_lines flat_map]. rewrite (blank_line [] eq_refl), app_nil_r.
  now apply clean_params_find.
Qed.

Lemma client_override_counterexample : exists (base : string) (params : list (string * string)) (k v : string),
  In (k, v) params /\ clean_param (k, v) = true /\ dict_get k (read_text (client_text_pinned base params)) = None
  /\ option_map e_sval (dict_get (us "A"%string) (read_text (client_text_pinned base params))) = Some (us "1B"%string).
Proof. exists (us "A, 1"%string), [(us "B"%string, us "2"%string)], (us "B"%string), (us "2"%string). repeat split; vm_compute; auto. Qed.

(* argument orders of the statements in Props/C12.v *)
Lemma lookup_is_last ls k : dict_get k (read_lines ls) = find_last k (parse_lines ls).
Proof. apply read_lines_get. Qed.

Lemma block_order (p : string -> bool) ls ls' :
  filter p (map e_name (parse_lines ls)) = filter p (map e_name (parse_lines ls')) ->
  filter p (keys (read_lines ls)) = filter p (keys (read_lines ls')).
Proof. apply block_order_preserved. Qed.

Lemma ignored_kinds l1 l2 c :
  (allws c = true \/ nocomma c = true \/
   exists p m x, allws p = true /\ (m = [HASH] \/ m = [DASH; DASH] \/ m = [STAR]) /\ c = p ++ m ++ x) ->
  read_lines (l1 ++ c :: l2)%list = read_lines (l1 ++ l2)%list.
Proof.
  intros H. apply ignored_line. destruct H as [H | [H | (p & m & x & Hp & Hm & ->)]].
  - now apply blank_line.
  - now apply commaless_line.
  - now apply comment_line.
Qed.

(* ------------------------------------------------------------------ the client's app after fix e85b257 *)
Lemma complete_cons c v : complete v = true -> v <> [] -> complete (String c v) = true.
Proof. intros H N. cbn. destruct v; [congruence | exact H]. Qed.

Lemma split_complete u : exists v w, u = v ++ w /\ complete v = true /\ nochar LF w = true.
Proof.
  induction u as [|c r (v & w & E & Cv & Nw)]; [exists [], []; repeat split|]. subst r.
  destruct (UA.eqb c LF) eqn:Ec.
  - exists (String c v), w. repeat split; [|exact Nw]. destruct v; [cbn; exact Ec | now apply complete_cons].
  - destruct v as [|a v'].
    + exists [], (String c w). repeat split. cbn. now rewrite Ec, Nw.
    + exists (String c (String a v')), w. repeat split; [|exact Nw]. now apply complete_cons.
Qed.

Lemma complete_app v w : complete v = true -> complete w = true -> complete (v ++ w) = true.
Proof. induction v as [|c r IH]; [now intros|]. intros Hv Hw. cbn [app]. destruct r as [|a r'].
  - cbn in *. destruct w; [cbn; exact Hv | exact Hw].
  - cbn [complete is_empty] in Hv. apply complete_cons; [now apply IH | discriminate]. Qed.

Lemma complete_line w : complete (w ++ [LF]) = true.
Proof. induction w as [|c r IH]; [reflexivity|]. cbn [app]. apply complete_cons; [exact IH | destruct r; discriminate]. Qed.

Lemma parse_lines_snoc_lf u : parse_lines (readlines (u ++ [LF])) = parse_lines (readlines u).
Proof.
  destruct (split_complete u) as (v & w & -> & Cv & Nw). rewrite sapp_assoc, (readlines_app v (w ++ [LF]) Cv), (readlines_app v w Cv).
  rewrite !parse_lines_app. f_equal. rewrite (readlines_line w [] Nw), (readlines_last w Nw). cbn [readlines].
  destruct w as [|c w'].
  - change ([] ++ [LF]) with ([LF]). unfold parse_lines. cbn [flat_map is_empty].
    now rewrite (blank_line ([LF]) eq_refl).
  - unfold parse_lines. cbn [flat_map is_empty]. now rewrite (parse_line_eol (String c w')).
Qed.

Lemma client_override base params k :
  dict_get k (read_text (client_text base params)) =
  match dict_get k (read_text (cat (map param_line params))) with
  | Some e => Some e
  | None => dict_get k (read_text base)
  end.
Proof.
  unfold client_text. destruct (complete (universal base)) eqn:T.
  - exact (client_override_pinned_partial base params k T).
  - unfold read_text, universal at 1.
    assert (NC : nochar CR (universal base ++ [LF]) = true) by (rewrite nochar_app; unfold universal; now rewrite univ_nocr).
    rewrite univ_nocr_app by exact NC.
    rewrite readlines_app by apply complete_line.
    rewrite last_wins. unfold read_lines, universal. now rewrite parse_lines_snoc_lf.
Qed.

(* ------------------------------------------------------------------ the whitespace table *)
Lemma is_ws_table c : is_ws c = true <-> In c ws_points.
Proof.
  unfold is_ws, ws_points. cbn [In].
  rewrite !orb_true_iff, !andb_true_iff, !N.leb_le, !N.eqb_eq. lia.
Qed.

(* ------------------------------------------------------------------ list-valued lines *)
Lemma split_on_nonempty x s : split_on x s <> [].
Proof. induction s as [|c r IH]; cbn; [discriminate|]. destruct (UA.eqb c x); [discriminate|]. destruct (split_on x r); discriminate. Qed.

Lemma split_on_app_gen x a b : split_on x (a ++ x :: b) = (split_on x a ++ split_on x b)%list.
Proof.
  induction a as [|c r IH]; cbn [app split_on].
  - now rewrite UA.eqb_refl.
  - destruct (UA.eqb c x); [now rewrite IH|]. rewrite IH.
    destruct (split_on x r) as [|h t] eqn:E; [now apply split_on_nonempty in E | reflexivity].
Qed.

Lemma before_dd_cut u c : before_dd u = u -> last u SPACE <> DASH -> before_dd (u ++ DASH :: DASH :: c) = u.
Proof.
  induction u as [|c0 r IH]; intros H L; [reflexivity|]. destruct r as [|c1 r'].
  - cbn in L. cbn. destruct (UA.eqb_spec c0 DASH) as [->|N]; [congruence|]. reflexivity.
  - cbn [app before_dd] in *. destruct (UA.eqb c0 DASH && UA.eqb c1 DASH); [discriminate H|].
    f_equal. apply IH; [now inversion H | exact L].
Qed.

Lemma last_ws_not_dash a p : allws p = true -> last (a ++ COMMA :: p) SPACE <> DASH.
Proof.
  intros W. assert (G : forall q d, allws q = true -> d <> DASH -> last (d :: q) SPACE <> DASH).
  { induction q as [|w q IHq]; intros d Wq Nd; [exact Nd|]. cbn in Wq. apply andb_prop in Wq as [Ww Wq].
    change (last (d :: w :: q) SPACE) with (last (w :: q) SPACE). apply IHq; [exact Wq|]. intros ->. vm_compute in Ww. discriminate. }
  induction a as [|c r IH]; [apply G; [exact W | discriminate]|].
  cbn [app]. destruct (r ++ COMMA :: p) eqn:E; [destruct r; discriminate E|]. exact IH.
Qed.

Lemma list_trailing_comment a p c : before_dd (a ++ COMMA :: p) = a ++ COMMA :: p -> allws p = true ->
  list_fields (a ++ COMMA :: p ++ DASH :: DASH :: c) = list_fields a.
Proof.
  intros H W. unfold list_fields.
  replace (a ++ COMMA :: p ++ DASH :: DASH :: c) with ((a ++ COMMA :: p) ++ DASH :: DASH :: c) by now rewrite <- app_assoc.
  rewrite before_dd_cut by (assumption || now apply last_ws_not_dash).
  assert (Ha : before_dd a = a).
  { clear -H. revert H. induction a as [|c0 r IH]; intros H; [reflexivity|]. destruct r as [|c1 r'].
    - reflexivity.
    - cbn [app before_dd] in *. destruct (UA.eqb c0 DASH && UA.eqb c1 DASH); [discriminate H|]. f_equal. apply IH. now inversion H. }
  rewrite Ha, split_on_app_gen, (split_on_nochar COMMA p) by now apply allws_nocomma.
  destruct (split_on COMMA a) as [|h t] eqn:E; [now apply split_on_nonempty in E|].
  cbn [app tl]. rewrite map_app, filter_app. cbn [map filter]. rewrite (strip_allws p W). cbn. now rewrite app_nil_r.
Qed.

(* ------------------------------------------------------------------ the caching client *)
Section CacheFacts.
  Variables Req Key Res : Type.
  Variable key : Req -> Key.
  Variable keq : Key -> Key -> bool.
  Variable run : Req -> Res.
  Hypothesis sound : forall a b, keq (key a) (key b) = true -> run a = run b.

  Definition cache_ok (c : list (Key * Res)) : Prop :=
    Forall (fun kx => exists r0, key r0 = fst kx /\ run r0 = snd kx) c.

  Lemma cache_lookup_ok c r x : cache_ok c -> cache_lookup Key Res keq (key r) c = Some x -> x = run r.
  Proof.
    induction c as [|[k y] t IH]; cbn; intros OK H; [discriminate|]. inversion OK as [|kx t' Hx OKt]; subst. destruct Hx as (r0 & K & R).
    cbn in K, R. destruct (keq (key r) k) eqn:E.
    - inversion H; subst. symmetry. now apply sound.
    - now apply IH.
  Qed.

  Lemma serve_transparent rs : forall c, cache_ok c -> serve Req Key Res key keq run c rs = map run rs.
  Proof.
    induction rs as [|r t IH]; intros c OK; [reflexivity|]. cbn [serve map].
    destruct (cache_lookup Key Res keq (key r) c) as [x|] eqn:E.
    - rewrite (cache_lookup_ok c r x OK E). f_equal. now apply IH.
    - f_equal. apply IH. constructor; [now exists r | exact OK].
  Qed.
End CacheFacts.

Lemma cache_key_separates (Res : Type) (fs : string -> string) (view : dict -> Res) (history : list string) :
  serve string string Res key_path US.eqb (fun p => view (read_text (fs p))) [] history
  = map (fun p => view (read_text (fs p))) history.
Proof.
  apply serve_transparent; [|constructor]. unfold key_path. intros a b E. apply US.eqb_eq in E. now subst.
Qed.

Lemma lineset_key_counterexample :
  exists t1 t2 : string,
    lineset_eqb (key_lineset t1) (key_lineset t2) = true
    /\ option_map e_sval (dict_get (us "Gradient 1"%string) (read_text t1)) = Some (us "60"%string)
    /\ option_map e_sval (dict_get (us "Gradient 1"%string) (read_text t2)) = Some (us "40"%string)
    /\ serve string (list string) (option string) key_lineset lineset_eqb
         (fun t => option_map e_sval (dict_get (us "Gradient 1"%string) (read_text t))) [] [t1; t2]
       = [Some (us "60"%string); Some (us "60"%string)].
Proof.
  exists (us "Gradient 1, 40"%string ++ [LF] ++ us "Gradient 1, 60"%string ++ [LF]),
         (us "Gradient 1, 60"%string ++ [LF] ++ us "Gradient 1, 40"%string ++ [LF]).
  repeat split; vm_compute; reflexivity.
Qed.
