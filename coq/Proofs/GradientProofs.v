(* Proofs/GradientProofs.v - lemmas about Model/Gradient.v *)
From Coq Require Import QArith Qminmax Qabs List ZArith Bool Lia Lqa PeanoNat.
From Verif Require Import Base.Flat Proofs.FlatFacts Model.Gradient.
Import ListNotations.
Open Scope Q_scope.

(* ------------------------------------------------------------------------------------------------ *)
(* A. the specification form: Trock = min(T(depth), Tmax) *)

Lemma Tprofile_ext upper gb : forall Ts Ts' d d', Ts == Ts' -> d == d' ->
  Tprofile Ts upper gb d == Tprofile Ts' upper gb d'.
Proof.
  induction upper as [|[g th] rest IH]; intros Ts Ts' d d' HT Hd; cbn [Tprofile].
  - rewrite HT, Hd. reflexivity.
  - destruct (Qlt_le_dec th d), (Qlt_le_dec th d'); try lra.
    + apply IH; lra.
    + rewrite HT, Hd. reflexivity.
Qed.

Lemma Tprofile_0 upper gb Ts : Forall (fun p => 0 < fst p /\ 0 < snd p) upper -> Tprofile Ts upper gb 0 == Ts.
Proof.
  intros HF. destruct HF as [|[g th] r [Hg Hth] HF]; cbn [Tprofile]. ring.
  cbn in Hth. destruct (Qlt_le_dec th 0); [lra|ring].
Qed.

Lemma Tprofile_mono Ts upper gb : wf upper gb -> forall d1 d2, d1 <= d2 ->
  Tprofile Ts upper gb d1 <= Tprofile Ts upper gb d2.
Proof.
  intros [Hgb HF]. revert Ts. induction HF as [|[g th] rest [Hg Hth] HF IH]; intros Ts d1 d2 H; cbn [Tprofile].
  - nra.
  - cbn in Hg, Hth. destruct (Qlt_le_dec th d1), (Qlt_le_dec th d2).
    + apply IH. lra.
    + lra.
    + specialize (IH (Ts + g*th) 0 (d2 - th)). rewrite Tprofile_0 in IH by assumption.
      assert (0 <= d2 - th) by lra. specialize (IH H0). nra.
    + nra.
Qed.

Lemma maxdepth_nonneg upper gb Tmax : wf upper gb -> forall Ts, Ts <= Tmax -> 0 <= maxdepth Ts Tmax upper gb.
Proof.
  intros [Hgb HF]. induction HF as [|[g th] r [Hg Hth] HF IH]; intros Ts HT; cbn [maxdepth].
  - apply Qle_shift_div_l; lra.
  - cbn in Hg, Hth. destruct (Qlt_le_dec Tmax (Ts + g*th)). apply Qle_shift_div_l; lra.
    specialize (IH (Ts + g*th) q). lra.
Qed.

Lemma maxdepth_pos upper gb Tmax : wf upper gb -> forall Ts, Ts < Tmax -> 0 < maxdepth Ts Tmax upper gb.
Proof.
  intros [Hgb HF]. destruct HF as [|[g th] r [Hg Hth] HF]; intros Ts HT; cbn [maxdepth].
  - apply Qlt_shift_div_l; lra.
  - cbn in Hg, Hth. destruct (Qlt_le_dec Tmax (Ts + g*th)). apply Qlt_shift_div_l; lra.
    pose proof (maxdepth_nonneg r gb Tmax (conj Hgb HF) (Ts + g*th) q). lra.
Qed.

Lemma Tprofile_at_maxdepth upper : forall Ts Tmax gb, wf upper gb -> Ts <= Tmax ->
  Tprofile Ts upper gb (maxdepth Ts Tmax upper gb) == Tmax.
Proof.
  induction upper as [|[g th] rest IH]; intros Ts Tmax gb [Hgb HF] HT; cbn [Tprofile maxdepth].
  - field. lra.
  - inversion HF as [|? ? [Hg Hth] HF']; subst. cbn in Hg, Hth.
    destruct (Qlt_le_dec Tmax (Ts + g*th)) as [Hlt|Hle].
    + assert (E: (Tmax - Ts)/g * g == Tmax - Ts) by (field; lra).
      destruct (Qlt_le_dec th ((Tmax - Ts)/g)) as [H1|H1].
      * exfalso. nra.
      * field. lra.
    + pose proof (maxdepth_nonneg rest gb Tmax (conj Hgb HF') _ Hle) as Hmd.
      destruct (Qlt_le_dec th (th + maxdepth (Ts + g*th) Tmax rest gb)) as [H1|H1].
      * rewrite (Tprofile_ext rest gb _ (Ts + g*th) _ (maxdepth (Ts + g * th) Tmax rest gb)); [|reflexivity|ring].
        apply IH; [split; assumption | lra].
      * assert (Hz: maxdepth (Ts + g*th) Tmax rest gb == 0) by lra.
        specialize (IH (Ts + g*th) Tmax gb (conj Hgb HF') Hle).
        rewrite (Tprofile_ext rest gb _ (Ts + g*th) _ 0) in IH; [|reflexivity|exact Hz].
        rewrite Tprofile_0 in IH by assumption. rewrite Hz. lra.
Qed.

Theorem trock_is_min Ts Tmax upper gb depth : wf upper gb -> Ts <= Tmax ->
  trock Ts Tmax upper gb depth == Qmin (Tprofile Ts upper gb depth) Tmax.
Proof.
  intros Hwf HT. unfold trock, capped_depth. cbv zeta.
  pose proof (Tprofile_at_maxdepth upper Ts Tmax gb Hwf HT) as Hat.
  destruct (Qlt_le_dec (maxdepth Ts Tmax upper gb) depth) as [H|H].
  - rewrite Hat. pose proof (Tprofile_mono Ts upper gb Hwf _ _ (Qlt_le_weak _ _ H)) as Hm. rewrite Hat in Hm.
    symmetry. apply Q.min_r. exact Hm.
  - pose proof (Tprofile_mono Ts upper gb Hwf _ _ H) as Hm. rewrite Hat in Hm.
    symmetry. apply Q.min_l. exact Hm.
Qed.

Corollary trock_le_Tmax Ts Tmax upper gb depth : wf upper gb -> Ts <= Tmax ->
  trock Ts Tmax upper gb depth <= Tmax.
Proof. intros. rewrite trock_is_min by assumption. apply Q.le_min_r. Qed.

(* the depth is reduced exactly when the uncapped temperature would exceed Tmax *)
Lemma capped_depth_le Ts Tmax upper gb depth : capped_depth Ts Tmax upper gb depth <= depth.
Proof. unfold capped_depth. cbv zeta. destruct (Qlt_le_dec _ _); lra. Qed.

Lemma capped_depth_unchanged Ts Tmax upper gb depth : wf upper gb -> Ts <= Tmax ->
  Tprofile Ts upper gb depth <= Tmax ->
  Tprofile Ts upper gb (capped_depth Ts Tmax upper gb depth) == Tprofile Ts upper gb depth.
Proof.
  intros Hwf HT Hle. fold (trock Ts Tmax upper gb depth). rewrite trock_is_min by assumption.
  apply Q.min_l. exact Hle.
Qed.

Lemma capped_depth_reduced Ts Tmax upper gb depth : wf upper gb -> Ts <= Tmax ->
  Tmax < Tprofile Ts upper gb depth ->
  capped_depth Ts Tmax upper gb depth < depth /\
  Tprofile Ts upper gb (capped_depth Ts Tmax upper gb depth) == Tmax.
Proof.
  intros Hwf HT Hgt. split.
  - unfold capped_depth. cbv zeta. destruct (Qlt_le_dec _ _) as [H|H]; [exact H|].
    pose proof (Tprofile_mono Ts upper gb Hwf _ _ H) as Hm.
    rewrite (Tprofile_at_maxdepth upper Ts Tmax gb Hwf HT) in Hm. lra.
  - fold (trock Ts Tmax upper gb depth). rewrite trock_is_min by assumption. apply Q.min_r. lra.
Qed.

(* ------------------------------------------------------------------------------------------------ *)
(* B. the walk is surface temperature + integral of the gradients *)

Definition thick_nonneg (upper : list (Q * Q)) : Prop := Forall (fun p => 0 <= snd p) upper.

Lemma grad_integral_zero upper gb : forall top d, thick_nonneg upper -> d <= top ->
  grad_integral upper gb top d == 0.
Proof.
  induction upper as [|[g th] rest IH]; intros top d HF Hd; cbn [grad_integral].
  - rewrite Q.max_l by lra. ring.
  - inversion HF as [|? ? Hth HF']; subst. cbn in Hth.
    rewrite IH by (assumption || lra).
    rewrite Q.min_l by lra. rewrite Q.max_l by lra. ring.
Qed.

Lemma Tprofile_integral_gen upper gb : forall Ts top d, thick_nonneg upper -> top <= d ->
  Tprofile Ts upper gb (d - top) == Ts + grad_integral upper gb top d.
Proof.
  induction upper as [|[g th] rest IH]; intros Ts top d HF Hd; cbn [Tprofile grad_integral].
  - rewrite Q.max_r by lra. ring.
  - inversion HF as [|? ? Hth HF']; subst. cbn in Hth.
    destruct (Qlt_le_dec th (d - top)) as [H|H].
    + rewrite (Tprofile_ext rest gb _ (Ts + g*th) _ (d - (top + th))); [|reflexivity|ring].
      rewrite IH by (assumption || lra).
      rewrite Q.min_r by lra. rewrite Q.max_r by lra. ring.
    + rewrite grad_integral_zero by (assumption || lra).
      rewrite Q.min_l by lra. rewrite Q.max_r by lra. ring.
Qed.

Theorem Tprofile_eq_integral Ts upper gb d : thick_nonneg upper -> 0 <= d ->
  Tprofile Ts upper gb d == Ts + grad_integral upper gb 0 d.
Proof.
  intros HF Hd. rewrite <- (Tprofile_integral_gen upper gb Ts 0 d HF Hd).
  apply Tprofile_ext; [reflexivity|ring].
Qed.

Lemma wf_thick_nonneg upper gb : wf upper gb -> thick_nonneg upper.
Proof.
  intros [_ HF]. unfold thick_nonneg. induction HF as [|p r [_ H] HF IH]; constructor; [lra|assumption].
Qed.

(* ------------------------------------------------------------------------------------------------ *)
(* C. the code-shaped walk computes the specification form *)

Lemma Forall_firstn_q (P : Q -> Prop) n (l : list Q) : Forall P l -> Forall P (firstn n l).
Proof. revert l. induction n; intros l H; cbn. constructor. destruct H; constructor; auto. Qed.

Lemma Forall_combine_q (P R : Q -> Prop) : forall a b, Forall P a -> Forall R b ->
  Forall (fun p => P (fst p) /\ R (snd p)) (combine a b).
Proof.
  induction a as [|x a IH]; intros b Ha Hb; cbn. constructor.
  destruct b as [|y b]. constructor.
  inversion Ha; inversion Hb; subst. constructor. cbn. split; assumption. apply IH; assumption.
Qed.

Lemma Forall_nth_q (P : Q -> Prop) (l : list Q) i : Forall P l -> (i < length l)%nat -> P (nth i l 0).
Proof.
  intros H. revert i. induction H as [|x l Hx H IH]; intros i Hi; cbn in Hi. lia.
  destruct i; cbn. exact Hx. apply IH. lia.
Qed.

Lemma isect_length : forall k t gs ths, (k <= length gs)%nat -> (k <= length ths)%nat ->
  length (isect t gs ths k) = k.
Proof.
  induction k; intros t gs ths Hg Ht; cbn. reflexivity.
  destruct gs as [|g gs]; [cbn in Hg; lia|]. destruct ths as [|th ths]; [cbn in Ht; lia|].
  cbn in *. rewrite IHk by lia. reflexivity.
Qed.

Lemma intersect_list_eq n Ts gs ths : (1 <= n)%nat ->
  intersect_list n Ts gs ths = isect Ts gs ths (n - 1) ++ repeat prefill (4 - (n - 1)).
Proof.
  intros Hn. unfold intersect_list. destruct (Nat.eqb_spec n 1) as [->|]; reflexivity.
Qed.

Definition md_formula (Ts Tmax : Q) (gs ths it : list Q) (li : nat) : Q :=
  match li with
  | O => (Tmax - Ts) / nth 0 gs 0
  | S j => sumQ (firstn (S j) ths) + (Tmax - nth j it 0) / nth (S j) gs 0
  end.

Lemma maxdepth_code_gen Tmax x tl : Tmax < x ->
  forall k Ts gs ths, (k <= length gs)%nat -> (k <= length ths)%nat ->
  exists li, first_above Tmax (isect Ts gs ths k ++ x :: tl) = Some li /\ (li <= k)%nat /\
    maxdepth Ts Tmax (combine (firstn k gs) (firstn k ths)) (nth k gs 0)
    == md_formula Ts Tmax gs ths (isect Ts gs ths k ++ x :: tl) li.
Proof.
  intros Hx. induction k as [|k IH]; intros Ts gs ths Hg Ht.
  - exists O. cbn [isect app first_above]. destruct gs, ths; cbn [isect app first_above];
      (destruct (Qltb_spec Tmax x); [|lra]); (split; [reflexivity|split; [lia|]]); cbn; reflexivity.
  - destruct gs as [|g gs]; [cbn in Hg; lia|]. destruct ths as [|th ths]; [cbn in Ht; lia|].
    cbn in Hg, Ht. cbn [isect firstn combine maxdepth app first_above nth].
    destruct (Qltb_spec Tmax (Ts + g * th)) as [Hlt|Hge].
    + exists O. split; [reflexivity|split; [lia|]].
      destruct (Qlt_le_dec Tmax (Ts + g * th)); [|lra]. cbn. reflexivity.
    + destruct (IH (Ts + g * th) gs ths) as [li [Hf [Hle He]]]; [lia|lia|].
      rewrite Hf. exists (S li). split; [reflexivity|split; [lia|]].
      destruct (Qlt_le_dec Tmax (Ts + g * th)); [lra|].
      rewrite He. unfold md_formula. destruct li as [|j].
      * cbn [firstn sumQ nth]. unfold Qdiv. ring.
      * cbn [nth]. change (firstn (S (S j)) (th :: ths)) with (th :: firstn (S j) ths).
        cbn [sumQ]. unfold Qdiv. ring.
Qed.

Lemma last_below_none d : forall ths a, Forall (fun t => 0 <= t) ths -> d <= a -> last_below d (cums a ths) = None.
Proof.
  induction ths as [|th r IH]; intros a HF Hd; cbn [cums last_below]. reflexivity.
  inversion HF as [|? ? Hth HF']; subst. rewrite IH by (assumption || lra).
  destruct (Qltb_spec (a + th) d); [lra|reflexivity].
Qed.

Lemma last_below_cons d x r : last_below d (x :: r) =
  match last_below d r with Some i => Some (S i) | None => if Qltb x d then Some O else None end.
Proof. reflexivity. Qed.

Lemma walk_code_gen tl d :
  forall k a Ts gs ths, (k <= length gs)%nat -> (k <= length ths)%nat ->
  Forall (fun t => 0 <= t) ths -> a < d -> d <= a + sumQ (firstn (S k) ths) ->
  exists i, last_below d (a :: cums a ths) = Some i /\ (i <= k)%nat /\
    nth i (Ts :: isect Ts gs ths k ++ tl) 0 + nth i gs 0 * (d - nth i (a :: cums a ths) 0)
    == Tprofile Ts (combine (firstn k gs) (firstn k ths)) (nth k gs 0) (d - a).
Proof.
  induction k as [|k IH]; intros a Ts gs ths Hg Ht HF Ha Hd.
  - exists O. destruct ths as [|th ths].
    { cbn in Hd. lra. }
    cbn [firstn sumQ] in Hd. inversion HF as [|? ? Hth HF']; subst.
    cbn [cums]. rewrite !last_below_cons. rewrite last_below_none by (assumption || lra).
    destruct (Qltb_spec (a + th) d); [lra|]. destruct (Qltb_spec a d); [|lra].
    split; [reflexivity|split; [lia|]].
    destruct gs; cbn; ring.
  - destruct gs as [|g gs]; [cbn in Hg; lia|]. destruct ths as [|th ths]; [cbn in Ht; lia|].
    cbn in Hg, Ht. inversion HF as [|? ? Hth HF']; subst.
    change (firstn (S (S k)) (th :: ths)) with (th :: firstn (S k) ths) in Hd. cbn [sumQ] in Hd.
    cbn [isect firstn combine Tprofile cums].
    destruct (Qlt_le_dec th (d - a)) as [Hdeep|Hshallow].
    + destruct (IH (a + th) (Ts + g * th) gs ths) as [i [Hl [Hle He]]]; try lia; try assumption; try lra.
      exists (S i). rewrite last_below_cons, Hl.
      split; [reflexivity|split; [lia|]].
      cbn [nth app]. cbn [nth] in He. rewrite He. apply Tprofile_ext; [reflexivity|ring].
    + exists O. rewrite !last_below_cons. rewrite last_below_none by (assumption || lra).
      destruct (Qltb_spec (a + th) d); [lra|]. destruct (Qltb_spec a d); [|lra].
      split; [reflexivity|split; [lia|]]. cbn. ring.
Qed.

Definition gs_ok (gs : list Q) : Prop := Forall (fun g => 0 < g) gs.
Definition ths_ok (ths : list Q) : Prop := Forall (fun t => 0 < t) ths.

Lemma wf_of_lists n gs ths : (1 <= n <= length gs)%nat -> gs_ok gs -> ths_ok ths ->
  wf (upper_of n gs ths) (bottom_of n gs).
Proof.
  intros Hn Hg Ht. split.
  - unfold bottom_of. apply (Forall_nth_q (fun g => 0 < g)); [assumption|lia].
  - unfold upper_of. apply (Forall_combine_q (fun g => 0 < g) (fun t => 0 < t)); apply Forall_firstn_q; assumption.
Qed.

Lemma ths_ok_nonneg ths : ths_ok ths -> Forall (fun t => 0 <= t) ths.
Proof. intros H. induction H; constructor; [lra|assumption]. Qed.

Lemma maxdepth_code_refines n Ts Tmax gs ths :
  (1 <= n <= 4)%nat -> (n <= length gs)%nat -> (n <= length ths)%nat -> gs_ok gs -> Tmax < prefill ->
  exists md, maxdepth_code n Ts Tmax gs ths = Good md /\
             md == maxdepth Ts Tmax (upper_of n gs ths) (bottom_of n gs).
Proof.
  intros Hn Hg Ht Hpos Hpre. unfold maxdepth_code.
  assert (Hnz : forall i, (i < n)%nat -> ~ nth i gs 0 == 0).
  { intros i Hi. pose proof (Forall_nth_q (fun g => 0 < g) gs i Hpos). cbn beta in H.
    assert (i < length gs)%nat by lia. specialize (H H0). lra. }
  assert (Hq : forall a i, (i < n)%nat -> qdiv_checked a (nth i gs 0) = Good (a / nth i gs 0)).
  { intros a i Hi. unfold qdiv_checked. destruct (Qeqb (nth i gs 0) 0) eqn:E; [|reflexivity].
    apply Qeqb_true in E. exfalso. exact (Hnz i Hi E). }
  destruct (Nat.eqb_spec n 1) as [->|Hn1].
  - rewrite Hq by lia. eexists. split; [reflexivity|]. cbn. reflexivity.
  - rewrite intersect_list_eq by lia.
    assert (Hrep : exists tl, repeat prefill (4 - (n - 1)) = prefill :: tl).
    { destruct (4 - (n - 1))%nat as [|m] eqn:E; [lia|]. cbn. eexists. reflexivity. }
    destruct Hrep as [tl Hrep]. rewrite Hrep.
    destruct (maxdepth_code_gen Tmax prefill tl Hpre (n - 1) Ts gs ths) as [li [Hf [Hle He]]]; [lia|lia|].
    rewrite Hf. unfold upper_of, bottom_of. destruct li as [|j].
    + rewrite Hq by lia. eexists. split; [reflexivity|]. rewrite He. reflexivity.
    + rewrite Hq by lia. eexists. split; [reflexivity|]. rewrite He. reflexivity.
Qed.

Theorem bht_code_refines n Ts Tmax gs ths depth :
  (1 <= n <= 4)%nat -> (n <= length gs)%nat -> (n <= length ths)%nat -> gs_ok gs -> ths_ok ths ->
  Ts < Tmax -> Tmax < prefill -> 0 < depth -> depth <= sumQ (firstn n ths) ->
  exists T d, bht_code n Ts Tmax gs ths depth = Good (T, d) /\
    d == capped_depth Ts Tmax (upper_of n gs ths) (bottom_of n gs) depth /\
    T == trock Ts Tmax (upper_of n gs ths) (bottom_of n gs) depth.
Proof.
  intros Hn Hg Ht Hgs Hths HT Hpre Hd0 Hd1.
  pose proof (wf_of_lists n gs ths (conj (proj1 Hn) Hg) Hgs Hths) as Hwf.
  destruct (maxdepth_code_refines n Ts Tmax gs ths Hn Hg Ht Hgs Hpre) as [md [Hmd Emd]].
  unfold bht_code. rewrite Hmd.
  replace (Nat.leb 1 n && Nat.leb n 4) with true
    by (symmetry; apply andb_true_intro; split; apply Nat.leb_le; lia).
  replace (Nat.leb n (length gs) && Nat.leb n (length ths)) with true
    by (symmetry; apply andb_true_intro; split; apply Nat.leb_le; lia).
  cbn [negb]. cbv zeta.
  pose proof (maxdepth_pos _ _ Tmax Hwf Ts HT) as Hmdpos.
  set (d := if Qltb md depth then md else depth).
  assert (Hdcap : d == capped_depth Ts Tmax (upper_of n gs ths) (bottom_of n gs) depth).
  { unfold d, capped_depth. cbv zeta.
    destruct (Qltb_spec md depth), (Qlt_le_dec (maxdepth Ts Tmax (upper_of n gs ths) (bottom_of n gs)) depth);
      try lra; try exact Emd. }
  assert (Hdpos : 0 < d) by (unfold d; destruct (Qltb_spec md depth); lra).
  assert (Hdle : d <= depth) by (unfold d; destruct (Qltb_spec md depth); lra).
  rewrite intersect_list_eq by lia.
  destruct (walk_code_gen (repeat prefill (4 - (n - 1))) d (n - 1) 0 Ts gs ths) as [i [Hl [Hle He]]];
    try lia; try (apply ths_ok_nonneg; assumption); try assumption.
  { replace (S (n - 1)) with n by lia. lra. }
  rewrite Hl.
  assert (Hlen : (i < length (Ts :: isect Ts gs ths (n - 1) ++ repeat prefill (4 - (n - 1))))%nat).
  { cbn [length]. rewrite app_length, isect_length, repeat_length by lia. lia. }
  replace (Nat.ltb i (length (Ts :: isect Ts gs ths (n - 1) ++ repeat prefill (4 - (n - 1))))) with true
    by (symmetry; apply Nat.ltb_lt; exact Hlen).
  replace (Nat.ltb i (length gs)) with true by (symmetry; apply Nat.ltb_lt; lia).
  cbn [andb]. eexists. eexists. split; [reflexivity|]. split; [exact Hdcap|].
  rewrite He. unfold trock, upper_of, bottom_of. apply Tprofile_ext; [reflexivity|].
  rewrite <- Hdcap. ring.
Qed.

(* ------------------------------------------------------------------------------------------------ *)
(* D. the magnitude heuristics always produce well-formed layers *)

Lemma norm_gradient_pos g : 0 < norm_gradient g.
Proof.
  unfold norm_gradient, tiny_gradient. cbv zeta.
  destruct (Qltb 1 g); match goal with |- context [Qltb ?a ?b] => destruct (Qltb_spec a b) end; lra.
Qed.

Lemma norm_thickness_pos t : 0 < t -> 0 < norm_thickness t.
Proof. intros H. unfold norm_thickness. destruct (Qltb t 100); lra. Qed.

(* in-range values keep their documented meaning: degC/km above 1, km below 100 *)
Lemma norm_gradient_per_km g : 1 < g -> g <= 500 -> norm_gradient g == g / 1000.
Proof.
  intros H1 H2. unfold norm_gradient, tiny_gradient. cbv zeta.
  destruct (Qltb_spec 1 g); [|lra].
  assert (1 # 1000 < g / 1000) by (apply Qlt_shift_div_l; lra).
  destruct (Qltb_spec (g / 1000) (1 # 1000000)); [lra|reflexivity].
Qed.

Lemma norm_thickness_km t : t < 100 -> norm_thickness t == t * 1000.
Proof. intros H. unfold norm_thickness. destruct (Qltb_spec t 100); [reflexivity|lra]. Qed.

Lemma merge_length : forall ds us, length (merge ds us) = length ds.
Proof.
  induction ds as [|d ds IH]; intros us; destruct us as [|[v|] us]; cbn; try reflexivity; rewrite IH; reflexivity.
Qed.

Definition user_pos (us : list (option Q)) : Prop := forall v, In (Some v) us -> 0 < v.

Lemma merge_pos : forall ds us, Forall (fun t => 0 < t) ds -> user_pos us -> Forall (fun t => 0 < t) (merge ds us).
Proof.
  induction ds as [|d ds IH]; intros us Hd Hu; destruct us as [|[v|] us]; cbn; try assumption; try constructor.
  - apply Hu. left. reflexivity.
  - apply IH. inversion Hd; assumption. intros w Hw. apply Hu. right. exact Hw.
  - inversion Hd; assumption.
  - apply IH. inversion Hd; assumption. intros w Hw. apply Hu. right. exact Hw.
Qed.

Lemma set_nth_length : forall i v l, length (set_nth i v l) = length l.
Proof. induction i; intros v [|x l]; cbn; try reflexivity. rewrite IHi. reflexivity. Qed.

Lemma set_nth_Forall (P : Q -> Prop) : forall i v l, P v -> Forall P l -> Forall P (set_nth i v l).
Proof.
  induction i; intros v [|x l] Hv Hl; cbn; try constructor; inversion Hl; subst; try assumption.
  apply IHi; assumption.
Qed.

Lemma set_nth_nth : forall i v l, (i < length l)%nat -> nth i (set_nth i v l) 0 = v.
Proof. induction i; intros v [|x l] H; cbn in *; try lia. reflexivity. apply IHi. lia. Qed.

Lemma Forall_map_q (P : Q -> Prop) (f : Q -> Q) l : (forall x, P (f x)) -> Forall P (map f l).
Proof. intros H. induction l; cbn; constructor; auto. Qed.

Lemma gradients_of_ok i : gs_ok (gradients_of i) /\ length (gradients_of i) = 4%nat.
Proof.
  split. apply Forall_map_q. apply norm_gradient_pos.
  unfold gradients_of. rewrite map_length, merge_length. reflexivity.
Qed.

Lemma default_thicknesses_pos : Forall (fun t => 0 < t) default_thicknesses.
Proof. unfold default_thicknesses. repeat constructor. Qed.

Lemma thicknesses_of_ok i : user_pos (bi_thick i) -> (1 <= bi_n i)%nat ->
  ths_ok (thicknesses_of i) /\ (bi_n i <= length (thicknesses_of i))%nat /\
  nth (bi_n i - 1) (thicknesses_of i) 0 = bottom_thickness.
Proof.
  intros Hu Hn. unfold thicknesses_of, norm_thicknesses. cbv zeta.
  set (raw := merge default_thicknesses (bi_thick i)).
  assert (Hraw : Forall (fun t => 0 < t) raw) by (apply merge_pos; [apply default_thicknesses_pos|assumption]).
  set (l := map norm_thickness raw ++ repeat bottom_thickness (bi_n i - length (map norm_thickness raw))).
  assert (Hl : Forall (fun t => 0 < t) l).
  { unfold l. apply Forall_app. split.
    - clear l. induction Hraw; cbn; constructor; [apply norm_thickness_pos; assumption|assumption].
    - apply Forall_forall. intros x Hx. apply repeat_spec in Hx. subst. unfold bottom_thickness. lra. }
  assert (Hlen : (bi_n i <= length l)%nat).
  { unfold l. rewrite app_length, repeat_length. lia. }
  split; [|split].
  - apply set_nth_Forall; [unfold bottom_thickness; lra|assumption].
  - rewrite set_nth_length. exact Hlen.
  - apply set_nth_nth. lia.
Qed.

Lemma nth_le_sum_firstn : forall n (l : list Q) i, Forall (fun t => 0 <= t) l -> (i < n)%nat -> (n <= length l)%nat ->
  nth i l 0 <= sumQ (firstn n l).
Proof.
  induction n; intros l i HF Hi Hn. lia.
  destruct l as [|x l]; [cbn in Hn; lia|]. inversion HF; subst. cbn [firstn sumQ].
  assert (Hs : 0 <= sumQ (firstn n l)).
  { clear - H2. revert l H2. induction n; intros l H2; cbn. lra. destruct H2; cbn. lra. specialize (IHn _ H2). lra. }
  destruct i; cbn [nth]. lra.
  cbn in Hn. specialize (IHn l i H2). assert (nth i l 0 <= sumQ (firstn n l)) by (apply IHn; lia). lra.
Qed.

(* the inputs the reader accepts (ranges of Reservoir.py; only what the proof needs is kept) *)
Definition input_ok (i : bht_input) : Prop :=
  (1 <= bi_n i <= 4)%nat /\ bi_Ts i < bi_Tmax i /\ bi_Tmax i < prefill /\
  match bi_depth_km i with Some km => 0 < km /\ km <= 100 | None => True end /\
  user_pos (bi_thick i).

Theorem bht_of_input_correct i : input_ok i ->
  let gs := gradients_of i in let ths := thicknesses_of i in
  let upper := upper_of (bi_n i) gs ths in let gb := bottom_of (bi_n i) gs in
  wf upper gb /\
  exists T d, bht_of_input i = Good (T, d) /\
    T == Qmin (Tprofile (bi_Ts i) upper gb (depth_metres (bi_depth_km i))) (bi_Tmax i) /\
    T <= bi_Tmax i /\
    d == capped_depth (bi_Ts i) (bi_Tmax i) upper gb (depth_metres (bi_depth_km i)).
Proof.
  intros [Hn [HT [Hpre [Hd Hu]]]]. cbv zeta.
  destruct (gradients_of_ok i) as [Hgs Hgl].
  destruct (thicknesses_of_ok i Hu (proj1 Hn)) as [Hths [Htl Hbot]].
  assert (Hwf : wf (upper_of (bi_n i) (gradients_of i) (thicknesses_of i)) (bottom_of (bi_n i) (gradients_of i))).
  { apply wf_of_lists; [lia|assumption|assumption]. }
  split; [exact Hwf|].
  assert (Hdm : 0 < depth_metres (bi_depth_km i) /\ depth_metres (bi_depth_km i) <= bottom_thickness).
  { unfold depth_metres, default_depth, bottom_thickness. destruct (bi_depth_km i) as [km|]; lra. }
  destruct (bht_code_refines (bi_n i) (bi_Ts i) (bi_Tmax i) (gradients_of i) (thicknesses_of i)
              (depth_metres (bi_depth_km i))) as [T [d [Hc [Hdc HTr]]]]; try assumption; try lia; try apply Hdm.
  { pose proof (nth_le_sum_firstn (bi_n i) (thicknesses_of i) (bi_n i - 1) (ths_ok_nonneg _ Hths)) as Hs.
    rewrite Hbot in Hs. assert (bottom_thickness <= sumQ (firstn (bi_n i) (thicknesses_of i))) by (apply Hs; lia).
    destruct Hdm. lra. }
  exists T, d. unfold bht_of_input. split; [exact Hc|].
  rewrite HTr. split; [apply trock_is_min; [assumption|lra]|].
  split; [apply trock_le_Tmax; [assumption|lra]|exact Hdc].
Qed.

(* the result is the property's right-hand side, with or without a Reservoir Depth line in the input file *)
Theorem bht_meets_spec i : input_ok i ->
  exists T d, bht_of_input i = Good (T, d) /\ T == bht_spec i.
Proof.
  intros Hok. destruct (bht_of_input_correct i Hok) as [Hwf [T [d [Hc [HT _]]]]].
  exists T, d. split; [exact Hc|]. rewrite HT. unfold bht_spec. cbv zeta.
  destruct Hok as [_ [_ [_ [Hd _]]]].
  change (depth_denoted_metres (bi_depth_km i)) with (depth_metres (bi_depth_km i)).
  rewrite Tprofile_eq_integral; [reflexivity|apply (wf_thick_nonneg _ _ Hwf)|].
  unfold depth_metres, default_depth. destruct (bi_depth_km i); lra.
Qed.

(* the pinned tree (before fix a8610e4) walked down 3 m instead of the 3 km the default denotes *)
Definition default_depth_witness : bht_input :=
  {| bi_n := 1; bi_Ts := 15; bi_Tmax := 400; bi_depth_km := None; bi_grad := [Some 50]; bi_thick := [] |}.

Theorem bht_default_depth_pinned_refuted :
  exists i, input_ok i /\ bi_depth_km i = None /\
            exists T d, bht_of_input_pinned i = Good (T, d) /\ ~ T == bht_spec i.
Proof.
  exists default_depth_witness. split.
  - unfold input_ok, default_depth_witness, prefill, user_pos. cbn. repeat split; try lia; try lra.
  - split; [reflexivity|]. eexists. eexists. split. vm_compute. reflexivity. vm_compute. discriminate.
Qed.

(* the depth is reduced exactly when needed *)
Theorem cap_exact Ts Tmax upper gb depth : wf upper gb -> Ts <= Tmax ->
  (Tprofile Ts upper gb depth <= Tmax ->
     Tprofile Ts upper gb (capped_depth Ts Tmax upper gb depth) == Tprofile Ts upper gb depth) /\
  (Tmax < Tprofile Ts upper gb depth ->
     capped_depth Ts Tmax upper gb depth < depth /\
     Tprofile Ts upper gb (capped_depth Ts Tmax upper gb depth) == Tmax).
Proof.
  intros Hwf HT. split; intros H.
  apply capped_depth_unchanged; assumption. apply capped_depth_reduced; assumption.
Qed.

Theorem heuristics_keep_documented_units :
  (forall g, 1 < g -> g <= 500 -> norm_gradient g == g / 1000) /\
  (forall t, t < 100 -> norm_thickness t == t * 1000).
Proof. split. exact norm_gradient_per_km. exact norm_thickness_km. Qed.
