(* Proofs/CliPathsProofs.v - lemmas about Model/CliPaths.v (C20) *)
From Coq Require Import String Ascii List Bool Arith ZArith Lia.
From Verif Require Import Model.Tokenizer Proofs.TokenizerProofs Model.CliPaths.
Import ListNotations.
Open Scope string_scope.

(* ------------------------------------------------------------------ split / components *)
Lemma split_on_parts x s : Forall (fun c => nochar x c = true) (split_on x s).
Proof.
  induction s as [|c r IH]; cbn [split_on]; [repeat constructor|].
  destruct (Ascii.eqb c x) eqn:E; [constructor; [reflexivity | exact IH]|].
  destruct (split_on x r) as [|h t]; [repeat constructor; cbn; now rewrite E|].
  inversion IH; subst. constructor; [cbn; rewrite E; cbn; assumption | assumption].
Qed.

Lemma comps_wf s : forallb wf_part (comps s) = true.
Proof.
  unfold comps. apply forallb_forall. intros c H. apply filter_In in H as [H1 H2].
  unfold wf_part. rewrite H2. cbn. pose proof (split_on_parts SLASH s) as F. rewrite Forall_forall in F. now apply F.
Qed.

Lemma wf_part_inv c : wf_part c = true -> good_part c = true /\ nochar SLASH c = true.
Proof. unfold wf_part. intros H. now apply andb_prop in H. Qed.

Lemma split_join l : forallb wf_part l = true -> l <> [] -> split_on SLASH (join_sl l) = l.
Proof.
  induction l as [|x r IH]; [congruence|]. intros H _. cbn in H. apply andb_prop in H as [Hx Hr].
  apply wf_part_inv in Hx as [_ Hx]. destruct r as [|y r'].
  - cbn. now apply split_on_nochar.
  - change (join_sl (x :: y :: r')) with (x ++ String SLASH (join_sl (y :: r'))).
    rewrite split_on_app by assumption. f_equal. apply IH; [assumption | discriminate].
Qed.

Lemma filter_good l : forallb wf_part l = true -> filter good_part l = l.
Proof. induction l as [|x r IH]; [reflexivity|]. cbn. intros H. apply andb_prop in H as [Hx Hr].
  apply wf_part_inv in Hx as [Hx _]. now rewrite Hx, IH. Qed.

Lemma comps_join l : forallb wf_part l = true -> comps (join_sl l) = l.
Proof. intros H. unfold comps. destruct l as [|x r]; [reflexivity|]. rewrite split_join by (assumption || discriminate).
  now apply filter_good. Qed.

Lemma comps_slash s : comps (String SLASH s) = comps s.
Proof. unfold comps. cbn [split_on]. rewrite Ascii.eqb_refl. reflexivity. Qed.

Lemma head_not_slash l : forallb wf_part l = true ->
  match join_sl l with String c _ => Ascii.eqb c SLASH = false | EmptyString => True end.
Proof.
  destruct l as [|x r]; [exact (fun _ => I)|]. cbn [forallb]. intros H. apply andb_prop in H as [Hx _].
  apply wf_part_inv in Hx as [G N]. destruct x as [|c x']; [discriminate G|].
  cbn in N. apply andb_prop in N as [N _]. apply negb_true_iff in N.
  destruct r; cbn; exact N.
Qed.

(* str(path) parses back to the path: absolute, normalised paths are fixed points of pathlib's parser *)
Lemma parse_to_str p : wf_abs p = true -> parse (to_str p) = p.
Proof.
  destruct p as [root parts]. unfold wf_abs. cbn [p_root p_parts]. intros H. apply andb_prop in H as [Hr Hp].
  pose proof (head_not_slash parts Hp) as Hh. pose proof (comps_join parts Hp) as Hc.
  unfold to_str, parse. cbn [p_root p_parts]. apply orb_prop in Hr as [Hr | Hr]; apply String.eqb_eq in Hr; subst root; cbn [is_empty andb append].
  - f_equal.
    + destruct (join_sl parts) as [|c r]; [reflexivity|]. cbn. now rewrite Hh.
    + now rewrite comps_slash.
  - f_equal.
    + destruct (join_sl parts) as [|c r]; [reflexivity|]. cbn. now rewrite Hh.
    + now rewrite !comps_slash.
Qed.

Lemma to_str_parse_idem p : wf_abs p = true -> to_str (parse (to_str p)) = to_str p.
Proof. intros H. now rewrite parse_to_str. Qed.

Lemma root_of_cases s : root_of s = "" \/ root_of s = "/" \/ root_of s = "//".
Proof.
  destruct s as [|a r]; [now left|]. cbn. destruct (Ascii.eqb a SLASH); [|now left].
  destruct r as [|b r2]; [now right; left|]. destruct (Ascii.eqb b SLASH); [|now right; left].
  destruct r2 as [|c r3]; [now right; right|]. destruct (Ascii.eqb c SLASH); [now right; left | now right; right].
Qed.

Lemma forallb_app' {A} (f : A -> bool) a b : forallb f (a ++ b)%list = forallb f a && forallb f b.
Proof. induction a; cbn; [reflexivity|]. now rewrite IHa, andb_assoc. Qed.

Lemma join_wf cwd s : wf_abs (parse cwd) = true -> wf_abs (join (parse cwd) (parse s)) = true.
Proof.
  intros H. unfold join. destruct (is_abs (parse s)) eqn:A.
  - unfold wf_abs, is_abs, parse in *. cbn [p_root p_parts] in *. rewrite comps_wf, andb_true_r.
    destruct (root_of_cases s) as [E | [E | E]]; rewrite E in *; [discriminate A | reflexivity | reflexivity].
  - unfold wf_abs in *. cbn [p_root p_parts] in *. apply andb_prop in H as [Hr Hp].
    rewrite Hr, forallb_app', Hp. cbn [parse p_parts]. now rewrite comps_wf.
Qed.

Lemma parse_absolute cwd s : wf_abs (parse cwd) = true -> parse (absolute cwd s) = join (parse cwd) (parse s).
Proof. intros H. unfold absolute. apply parse_to_str. now apply join_wf. Qed.

Lemma join_abs base p : is_abs p = true -> join base p = p.
Proof. unfold join. now intros ->. Qed.

Lemma wf_abs_is_abs p : wf_abs p = true -> is_abs p = true.
Proof. unfold wf_abs, is_abs. intros H. apply andb_prop in H as [H _].
  apply orb_prop in H as [H | H]; apply String.eqb_eq in H; now rewrite H. Qed.

(* an absolute, normalised path is unchanged by .absolute() in any directory, and by the OS in any directory *)
Lemma absolute_fixed base p : wf_abs p = true -> absolute base (to_str p) = to_str p.
Proof. intros H. unfold absolute. rewrite parse_to_str by assumption. now rewrite join_abs by now apply wf_abs_is_abs. Qed.

Lemma absolute_absolute base cwd s : wf_abs (parse cwd) = true -> absolute base (absolute cwd s) = absolute cwd s.
Proof. intros H. unfold absolute at 2. apply absolute_fixed. now apply join_wf. Qed.

(* ------------------------------------------------------------------ names *)
Lemma split_last_nochar x y s a b : split_last x s = Some (a, b) -> nochar y s = true -> nochar y a = true /\ nochar y b = true.
Proof.
  revert a b. induction s as [|c r IH]; intros a b; cbn [split_last]; [discriminate|].
  intros H N. cbn in N. apply andb_prop in N as [N1 N2].
  destruct (split_last x r) as [[a' b']|].
  - inversion H; subst. destruct (IH a' b eq_refl N2) as [Ha Hb]. split; [cbn; now rewrite N1, Ha | exact Hb].
  - destruct (Ascii.eqb c x); [|discriminate]. inversion H; subst. split; [reflexivity | exact N2].
Qed.

Lemma stem_nochar y n : nochar y n = true -> nochar y (stem n) = true.
Proof. intros N. unfold stem. destruct (split_last DOT n) as [[a b]|] eqn:E; [|exact N].
  destruct (is_empty a || is_empty b); [exact N|]. now destruct (split_last_nochar _ y _ _ _ E N). Qed.

Lemma json_name_wf n : nochar SLASH n = true -> wf_part (json_name n) = true.
Proof.
  intros N. unfold wf_part, json_name. apply andb_true_intro. split.
  - unfold good_part. destruct (stem n) as [|c [|c2 r]]; [reflexivity | |]; cbn; destruct (Ascii.eqb c "."); reflexivity.
  - rewrite nochar_app, (stem_nochar SLASH n N). reflexivity.
Qed.

Lemma with_suffix_is_json_name n : with_suffix_json_name n = json_name n.
Proof. unfold with_suffix_json_name, json_name, stem. destruct (split_last DOT n) as [[a b]|]; [|reflexivity].
  now destruct (is_empty a || is_empty b). Qed.

Lemma client_json_agrees out : client_json_path out = json_path out.
Proof. unfold client_json_path, json_path. now rewrite with_suffix_is_json_name. Qed.

Lemma forallb_last {A} (f : A -> bool) l d : forallb f l = true -> l <> [] -> f (last l d) = true.
Proof. induction l as [|x r IH]; [congruence|]. intros H _. cbn in H. apply andb_prop in H as [Hx Hr].
  destruct r; [exact Hx | apply IH; [exact Hr | discriminate]]. Qed.

Lemma forallb_removelast {A} (f : A -> bool) l : forallb f l = true -> forallb f (removelast l) = true.
Proof. induction l as [|x r IH]; [reflexivity|]. intros H. cbn in H. apply andb_prop in H as [Hx Hr].
  destruct r; [reflexivity|]. cbn [removelast forallb]. rewrite Hx. now apply IH. Qed.

Lemma with_name_wf p n q : wf_abs p = true -> wf_part n = true -> with_name p n = Some q -> wf_abs q = true.
Proof.
  unfold with_name. destruct (is_empty (name p)); [discriminate|]. intros H Hn E. inversion E; subst. clear E.
  unfold wf_abs in *. cbn [p_root p_parts]. apply andb_prop in H as [Hr Hp]. rewrite Hr. cbn [andb].
  unfold parent_parts. rewrite forallb_app', (forallb_removelast _ _ Hp). cbn. now rewrite Hn.
Qed.

(* the JSON file of an absolute normalised report path: same directory, name = stem + ".json" *)
Lemma json_path_spec p : wf_abs p = true -> p_parts p <> [] ->
  exists j, json_path (to_str p) = Some (to_str j) /\ wf_abs j = true /\
            p_root j = p_root p /\ p_parts j = (removelast (p_parts p) ++ [(stem (last (p_parts p) "") ++ ".json")%string])%list.
Proof.
  intros H Hne. unfold json_path. rewrite parse_to_str by assumption. unfold with_name.
  assert (Hl : wf_part (name p) = true) by (unfold name; apply forallb_last; [unfold wf_abs in H; now apply andb_prop in H as [_ H] | exact Hne]).
  apply wf_part_inv in Hl as [G N]. destruct (is_empty (name p)) eqn:E.
  - unfold good_part in G. destruct (name p); [discriminate G | discriminate E].
  - eexists. cbn [option_map]. split; [reflexivity|]. split; [|split; reflexivity].
    eapply with_name_wf; [exact H | apply (json_name_wf (name p) N) |]. unfold with_name. now rewrite E.
Qed.

(* ------------------------------------------------------------------ the command line *)
Lemma cli_files cwd pkg inp out : wf_abs (parse cwd) = true ->
  main_files cwd pkg (cli_argv cwd inp (Some out)) =
  {| f_report := absolute cwd out; f_json := json_path (absolute cwd out) |}.
Proof.
  intros H. unfold main_files, cli_argv. cbn [nth_error]. f_equal.
  - now apply absolute_absolute.
  - set (A := absolute cwd out). assert (W : wf_abs (join (parse cwd) (parse out)) = true) by now apply join_wf.
    destruct (json_path A) as [j|] eqn:E; [|reflexivity]. cbn [option_map]. f_equal.
    unfold A, absolute in E. unfold json_path in E. rewrite parse_to_str in E by assumption.
    destruct (with_name (join (parse cwd) (parse out)) _) as [q|] eqn:Q; [|discriminate]. cbn in E. inversion E; subst j.
    apply absolute_fixed. eapply with_name_wf; [exact W | | exact Q].
    apply json_name_wf. unfold with_name in Q. destruct (is_empty (name (join (parse cwd) (parse out)))) eqn:Em; [discriminate|].
    assert (Hl : wf_part (name (join (parse cwd) (parse out))) = true).
    { unfold name. apply forallb_last; [unfold wf_abs in W; now apply andb_prop in W as [_ W]|].
      intros Z. unfold name in Em. rewrite Z in Em. discriminate. }
    now apply wf_part_inv in Hl.
Qed.

Lemma cli_relative_absolute cwd cwd' pkg pkg' inp inp' out :
  wf_abs (parse cwd) = true -> wf_abs (parse cwd') = true ->
  main_files cwd pkg (cli_argv cwd inp (Some out)) = main_files cwd' pkg' (cli_argv cwd' inp' (Some (absolute cwd out))).
Proof. intros H H'. rewrite !cli_files by assumption. now rewrite absolute_absolute. Qed.

Lemma removelast_snoc {A} (l : list A) x : removelast (l ++ [x]) = l.
Proof. apply removelast_last. Qed.

Lemma cli_default cwd pkg inp : wf_abs (parse cwd) = true ->
  main_files cwd pkg (cli_argv cwd inp None) =
  {| f_report := to_str {| p_root := p_root (parse cwd); p_parts := (p_parts (parse cwd) ++ ["HDR.out"])%list |};
     f_json := Some (to_str {| p_root := p_root (parse cwd); p_parts := (p_parts (parse cwd) ++ ["HDR.json"])%list |}) |}.
Proof.
  intros H. unfold main_files, cli_argv. cbn [nth_error].
  assert (J : join (parse cwd) (parse "HDR.out") = {| p_root := p_root (parse cwd); p_parts := (p_parts (parse cwd) ++ ["HDR.out"])%list |}) by reflexivity.
  rewrite J. set (P := {| p_root := p_root (parse cwd); p_parts := (p_parts (parse cwd) ++ ["HDR.out"])%list |}).
  assert (W : wf_abs P = true).
  { unfold wf_abs in *. cbn [p_root p_parts P]. apply andb_prop in H as [Hr Hp]. now rewrite Hr, forallb_app', Hp. }
  f_equal; [now apply absolute_fixed|].
  unfold json_path. rewrite parse_to_str by assumption. unfold with_name, name, parent_parts. cbn [p_parts p_root P].
  rewrite last_last, removelast_snoc. cbn [is_empty option_map]. f_equal.
  change (json_name "HDR.out") with "HDR.json". apply absolute_fixed.
  unfold wf_abs in *. cbn [p_root p_parts]. apply andb_prop in H as [Hr Hp]. now rewrite Hr, forallb_app', Hp.
Qed.

(* ------------------------------------------------------------------ entry points *)
Lemma main_files_absolute_out cwd pkg a0 inp p :
  wf_abs p = true ->
  main_files cwd pkg [a0; inp; to_str p] = {| f_report := to_str p; f_json := json_path (to_str p) |}.
Proof.
  intros W. unfold main_files. cbn [nth_error]. f_equal; [now apply absolute_fixed|].
  destruct (json_path (to_str p)) as [j|] eqn:E; [|reflexivity]. cbn [option_map]. f_equal.
  unfold json_path in E. rewrite parse_to_str in E by assumption.
  destruct (with_name p _) as [q|] eqn:Q; [|discriminate]. cbn in E. inversion E; subst j.
  apply absolute_fixed. eapply with_name_wf; [exact W | | exact Q].
  apply json_name_wf. unfold with_name in Q. destruct (is_empty (name p)) eqn:Em; [discriminate|].
  assert (Hl : wf_part (name p) = true).
  { unfold name. apply forallb_last; [unfold wf_abs in W; now apply andb_prop in W as [_ W]|].
    intros Z. unfold name in Em. rewrite Z in Em. discriminate. }
  now apply wf_part_inv in Hl.
Qed.

Lemma entry_points_agree (run : string -> sim) cwd1 cwd2 cwd3 pkg1 pkg2 pkg3 inp1 inp2 inp3 p text :
  wf_abs (parse cwd1) = true -> wf_abs p = true ->
  cli run cwd1 pkg1 inp1 (Some (to_str p)) text true = client run cwd2 pkg2 inp2 (to_str p) text
  /\ client run cwd2 pkg2 inp2 (to_str p) text = direct run cwd3 pkg3 [""; inp3; to_str p] text true.
Proof.
  intros H W. unfold cli, client, direct, client_argv. rewrite cli_files by assumption.
  rewrite !main_files_absolute_out by assumption. rewrite absolute_fixed by assumption. split; reflexivity.
Qed.

Lemma entry_points_pinned_counterexample :
  exists (run : string -> sim) (text : string), run text = SimAbort /\
    o_exit (cli_pinned run "/w" "/pkg" "in.txt" (Some "/w/o.out") text true) = 0%Z /\
    o_exit (client run "/w" "/pkg" "/w/in.txt" "/w/o.out" text) = 1%Z.
Proof. exists (fun _ => SimAbort), "Reservoir Model, 5". repeat split. Qed.

Lemma exit_status (run : string -> sim) cwd pkg inp out text dir_ok :
  ((forall rep, run text <> SimOk rep) -> o_exit (cli run cwd pkg inp out text dir_ok) <> 0%Z
                         /\ o_files (cli run cwd pkg inp out text dir_ok) = None
                         /\ o_report (cli run cwd pkg inp out text dir_ok) = None)
  /\ (forall rep, run text = SimOk rep -> dir_ok = true ->
        o_exit (cli run cwd pkg inp out text dir_ok) = 0%Z
        /\ o_files (cli run cwd pkg inp out text dir_ok) = Some (main_files cwd pkg (cli_argv cwd inp out))
        /\ o_report (cli run cwd pkg inp out text dir_ok) = Some rep)
  /\ (dir_ok = false -> o_exit (cli run cwd pkg inp out text dir_ok) <> 0%Z
                        /\ o_files (cli run cwd pkg inp out text dir_ok) = None).
Proof.
  unfold cli, finish. split; [|split].
  - intros H. destruct (run text) as [rep| |]; [exfalso; now apply (H rep) | |]; repeat split; cbn; discriminate.
  - intros rep H D. rewrite H, D. repeat split.
  - intros D. rewrite D. destruct (run text); split; cbn; try discriminate; reflexivity.
Qed.

Lemma exit_status_pinned_counterexample :
  exists (run : string -> sim) (text : string), run text = SimAbort /\
    forall cwd pkg inp out dir_ok,
      o_exit (cli_pinned run cwd pkg inp out text dir_ok) = 0%Z /\ o_files (cli_pinned run cwd pkg inp out text dir_ok) = None.
Proof. exists (fun _ => SimAbort), "Reservoir Model, 5". split; [reflexivity|]. intros. split; reflexivity. Qed.

(* ------------------------------------------------------------------ the pre-fix JSON path *)
Lemma json_path_pinned_counterexample :
  exists out, json_path out = Some "a.out/a.json" /\ json_path_pinned out = "a.json/a.json" /\ out = "a.out/a.out".
Proof. exists "a.out/a.out". repeat split; vm_compute; reflexivity. Qed.

(* ------------------------------------------------------------------ the direct pipeline with a relative / missing output *)
Lemma direct_pipeline_paths cwd cwd' pkg a inp rel :
  wf_abs (parse pkg) = true -> wf_abs (parse cwd) = true -> is_abs (parse rel) = false ->
  main_files cwd pkg [a; inp; rel] = main_files cwd' pkg [a; inp; rel]
  /\ parse (f_report (main_files cwd pkg [a; inp; rel]))
     = {| p_root := p_root (parse pkg); p_parts := (p_parts (parse pkg) ++ p_parts (parse rel))%list |}
  /\ parse (f_report (main_files cwd pkg [a; inp]))
     = {| p_root := p_root (parse pkg); p_parts := (p_parts (parse pkg) ++ ["HDR.out"])%list |}
  /\ option_map parse (f_json (main_files cwd pkg [a; inp]))
     = Some {| p_root := p_root (parse cwd); p_parts := (p_parts (parse cwd) ++ ["HDR.json"])%list |}.
Proof.
  intros Wp Wc R. split; [reflexivity|]. unfold main_files. cbn [nth_error f_report f_json option_map]. repeat split.
  - rewrite parse_absolute by assumption. unfold join. now rewrite R.
  - rewrite parse_absolute by assumption. reflexivity.
  - f_equal. apply parse_to_str. exact (join_wf cwd "HDR.json" Wc).
Qed.

(* ------------------------------------------------------------------ HIP-RA-X *)
Lemma hip_files_absolute pkg a pin pout : wf_abs pin = true -> wf_abs pout = true ->
  hip_files pkg [a; to_str pin; to_str pout] = {| h_input := to_str pin; h_report := to_str pout |}.
Proof. intros Wi Wo. unfold hip_files. cbn [nth nth_error]. now rewrite !absolute_fixed. Qed.

Lemma hip_entry_points_agree (hrun : string -> hsim) cwd cwd' pkg pkg' pin pout :
  wf_abs pin = true -> wf_abs pout = true ->
  hip_script hrun cwd pkg (to_str pin) (Some (to_str pout)) true = hip_client hrun cwd' pkg' (to_str pin) (to_str pout) true
  /\ (forall rep, hrun (fs_canon (to_str pin)) = HOk rep ->
        hip_script hrun cwd pkg (to_str pin) (Some (to_str pout)) true
        = {| ho_raises := false; ho_report_at := Some (to_str pout); ho_text := Some rep |}).
Proof.
  intros Wi Wo. unfold hip_script, hip_client, hip_client_of, hip_main. rewrite (absolute_fixed cwd' pin Wi).
  rewrite !hip_files_absolute by assumption. cbn [h_input h_report].
  split; [destruct (hrun (fs_canon (to_str pin))); reflexivity|]. intros rep ->. reflexivity.
Qed.

Lemma hip_script_paths cwd cwd' pkg inp out dir_ok (hrun : string -> hsim) :
  wf_abs (parse pkg) = true ->
  hip_script hrun cwd pkg inp out dir_ok = hip_script hrun cwd' pkg inp out dir_ok
  /\ parse (h_input (hip_files pkg [""; inp])) = join (parse pkg) (parse inp)
  /\ parse (h_report (hip_files pkg [""; inp])) = {| p_root := p_root (parse pkg); p_parts := (p_parts (parse pkg) ++ ["HIP.out"])%list |}
  /\ (forall o, parse (h_report (hip_files pkg [""; inp; o])) = join (parse pkg) (parse o)).
Proof.
  intros W. split; [reflexivity|]. unfold hip_files. cbn [nth nth_error h_input h_report]. repeat split.
  - now apply parse_absolute.
  - rewrite parse_absolute by assumption. reflexivity.
  - intros o. now apply parse_absolute.
Qed.

Lemma hip_requested_path_counterexample :
  exists cwd pkg inp out, wf_abs (parse cwd) = true /\ wf_abs (parse pkg) = true /\ is_abs (parse inp) = false /\
    h_input (hip_files pkg [""; inp; out]) <> absolute cwd inp /\ h_report (hip_files pkg [""; inp; out]) <> absolute cwd out
    /\ h_input (hip_files pkg [""; inp; out]) = "/pkg/in.txt".
Proof. exists "/w", "/pkg", "in.txt", "out.txt". repeat split; vm_compute; congruence. Qed.

Lemma hip_exit_status (hrun : string -> hsim) cwd pkg inp out dir_ok :
  (hrun (fs_canon (h_input (hip_files pkg ("" :: inp :: match out with Some o => [o] | None => [] end)))) = HFail ->
     hip_status (hip_script hrun cwd pkg inp out dir_ok) <> 0%Z /\ ho_report_at (hip_script hrun cwd pkg inp out dir_ok) = None)
  /\ (forall rep, hrun (fs_canon (h_input (hip_files pkg ("" :: inp :: match out with Some o => [o] | None => [] end)))) = HOk rep ->
        dir_ok = true ->
        hip_status (hip_script hrun cwd pkg inp out dir_ok) = 0%Z
        /\ ho_report_at (hip_script hrun cwd pkg inp out dir_ok)
           = Some (h_report (hip_files pkg ("" :: inp :: match out with Some o => [o] | None => [] end)))
        /\ ho_text (hip_script hrun cwd pkg inp out dir_ok) = Some rep).
Proof.
  unfold hip_script, hip_main, hip_status. split.
  - intros ->. split; cbn; [discriminate | reflexivity].
  - intros rep -> ->. repeat split.
Qed.

Lemma hip_exit_counterexample :
  exists (hrun : string -> hsim), forall cwd pkg inp out,
    hip_status (hip_script hrun cwd pkg inp out false) = 0%Z /\ ho_report_at (hip_script hrun cwd pkg inp out false) = None
    /\ ho_raises (hip_client hrun cwd pkg inp "/tmp/r.out" false) = true.
Proof. exists (fun _ => HOk "report"). intros. repeat split. Qed.

(* ------------------------------------------------------------------ the input file the clients read (fix fa4a753) *)
Lemma input_file_agrees cwd pkg pkg' inp out out' :
  wf_abs (parse cwd) = true ->
  input_file pkg (cli_argv cwd inp out) = absolute cwd inp /\ input_file pkg' (client_argv cwd inp out') = absolute cwd inp.
Proof. intros W. unfold input_file, cli_argv, client_argv. cbn [nth]. now rewrite !absolute_absolute. Qed.

Lemma input_file_pinned_counterexample :
  exists cwd pkg inp out, wf_abs (parse cwd) = true /\ wf_abs (parse pkg) = true /\
    input_file pkg (client_argv_pinned inp out) <> absolute cwd inp /\ input_file pkg (client_argv_pinned inp out) = "/pkg/in.txt".
Proof. exists "/w", "/pkg", "in.txt", "/tmp/o.out". repeat split; vm_compute; congruence. Qed.

Lemma hip_client_relative (hrun : string -> hsim) cwd cwd' pkg pkg' inp pout :
  wf_abs (parse cwd) = true -> wf_abs pout = true ->
  hip_client hrun cwd pkg inp (to_str pout) true = hip_client hrun cwd' pkg' (absolute cwd inp) (to_str pout) true
  /\ h_input (hip_files pkg [""; absolute cwd inp; to_str pout]) = absolute cwd inp.
Proof.
  intros W Wo. assert (Wj : wf_abs (join (parse cwd) (parse inp)) = true) by now apply join_wf.
  unfold hip_client. rewrite (absolute_absolute cwd' cwd inp W).
  change (absolute cwd inp) with (to_str (join (parse cwd) (parse inp))).
  unfold hip_client_of, hip_main. rewrite !hip_files_absolute by assumption. split; reflexivity.
Qed.

Lemma hip_client_pinned_counterexample :
  exists (hrun : string -> hsim) cwd pkg inp out,
    ho_raises (hip_client hrun cwd pkg inp out true) = false /\ ho_raises (hip_client_pinned hrun pkg inp out true) = true.
Proof. exists (fun p => if String.eqb p "/w/in.txt" then HOk "r" else HFail), "/w", "/pkg", "in.txt", "/tmp/o.out". split; reflexivity. Qed.

(* ------------------------------------------------------------------ Model(input_file=...), histories of client calls *)
Lemma keyword_input_wins a argv : model_input_source (Some a) argv = Some a /\ model_input_source None argv = nth_error argv 1.
Proof. split; reflexivity. Qed.

Lemma history_independent (run : string -> sim) pkg cwd qs :
  history (client_step run) pkg cwd qs
  = map (fun q => (cwd, client run cwd pkg (q_inp q) (q_out q) (q_text q))) qs.
Proof. induction qs as [|q r IH]; [reflexivity|]. cbn [history map client_step fst]. now rewrite IH. Qed.

Lemma history_leaky_counterexample :
  exists (run : string -> sim) pkg cwd q1 q2,
    map fst (history (client_step_leaky run) pkg cwd [q1; q2]) = [pkg; pkg] /\ pkg <> cwd
    /\ input_file pkg (client_argv pkg (q_inp q2) (q_out q2)) <> input_file pkg (client_argv cwd (q_inp q2) (q_out q2)).
Proof.
  exists sim_of_text, "/pkg", "/w", {| q_inp := "bad.txt"; q_out := "/tmp/a.out"; q_text := "fail" |},
         {| q_inp := "in.txt"; q_out := "/tmp/b.out"; q_text := "ok" |}.
  repeat split; vm_compute; congruence.
Qed.

(* ------------------------------------------------------------------ the report file after a history of runs *)
Lemma fs_lookup_set_same p c fs : fs_lookup p (fs_set p c fs) = Some c.
Proof. induction fs as [|[q d] r IH]; cbn; [now rewrite String.eqb_refl|].
  destruct (String.eqb p q) eqn:E; cbn; rewrite E; [reflexivity | exact IH]. Qed.

Lemma fs_lookup_set_other p q c fs : String.eqb p q = false -> fs_lookup p (fs_set q c fs) = fs_lookup p fs.
Proof. intros N. induction fs as [|[q2 d] r IH]; cbn; [now rewrite N|].
  destruct (String.eqb q q2) eqn:E; cbn.
  - apply String.eqb_eq in E. subst. now rewrite N.
  - destruct (String.eqb p q2); [reflexivity | exact IH]. Qed.

Lemma after_runs_from runs : forall fs p,
  fs_lookup p (fold_left (write_report false) runs fs)
  = match last_run_to p runs with Some id => Some [id] | None => fs_lookup p fs end.
Proof.
  induction runs as [|[q id] r IH]; intros fs p; [reflexivity|]. cbn [fold_left last_run_to]. rewrite IH.
  destruct (last_run_to p r); [reflexivity|]. unfold write_report.
  destruct (String.eqb p q) eqn:E.
  - apply String.eqb_eq in E. subst. apply fs_lookup_set_same.
  - now apply fs_lookup_set_other.
Qed.

Lemma report_file_is_last_run runs p :
  fs_lookup p (after_runs false runs) = option_map (fun id => [id]) (last_run_to p runs).
Proof. unfold after_runs. rewrite after_runs_from. now destruct (last_run_to p runs). Qed.

Lemma report_file_append_counterexample :
  exists runs p, last_run_to p runs = Some 2%N /\ fs_lookup p (after_runs true runs) = Some [1%N; 2%N]
                 /\ fs_lookup p (after_runs false runs) = Some [2%N].
Proof. exists [("/w/result.out", 1%N); ("/w/result.out", 2%N)], "/w/result.out". repeat split. Qed.
