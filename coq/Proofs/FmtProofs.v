(* Proofs/FmtProofs.v - facts about the formatting model Model/Fmt.v:
   half-even rounding is within half a unit of the last displayed place, and the text produced for
   '{:w.pf}' reads back as exactly that rounded decimal, for every rational, width and precision. *)
From Coq Require Import String Ascii QArith Qabs Qround ZArith List Bool Lia Lqa.
From Verif Require Import Model.Fmt.
Import ListNotations.
Open Scope Z_scope.

(* ---------- rounding ---------- *)
Lemma round_half_even_bound q : (Qabs (inject_Z (round_half_even q) - q) <= 1#2)%Q.
Proof.
  unfold round_half_even.
  pose proof (Qfloor_le q) as H1. pose proof (Qlt_floor q) as H2.
  rewrite inject_Z_plus in H2. change (inject_Z 1) with 1%Q in H2.
  destruct (Qcompare_spec (q - inject_Z (Qfloor q)) (1#2)) as [E|L|G].
  - destruct (Z.even (Qfloor q)); [|rewrite inject_Z_plus; change (inject_Z 1) with 1%Q];
      apply Qabs_Qle_condition; split; lra.
  - apply Qabs_Qle_condition; split; lra.
  - rewrite inject_Z_plus; change (inject_Z 1) with 1%Q. apply Qabs_Qle_condition; split; lra.
Qed.

Lemma round_half_even_nonneg q : (0 <= q)%Q -> 0 <= round_half_even q.
Proof.
  intros H. unfold round_half_even.
  assert (0 <= Qfloor q). { change 0 with (Qfloor 0). apply Qfloor_resp_le. exact H. }
  destruct (Qcompare _ _); [destruct (Z.even _)|..]; lia.
Qed.

Lemma round_half_even_Z z : round_half_even (inject_Z z) = z.
Proof.
  unfold round_half_even. rewrite Qfloor_Z.
  assert (E : (inject_Z z - inject_Z z == 0)%Q) by ring.
  destruct (Qcompare_spec (inject_Z z - inject_Z z) (1#2)) as [A|A|A]; rewrite E in A.
  - discriminate.
  - reflexivity.
  - exfalso. revert A. unfold Qlt. simpl. lia.
Qed.

Lemma pow10_pos p : 0 < pow10 p.
Proof. unfold pow10. apply Z.pow_pos_nonneg; lia. Qed.

Lemma pow10_S p : pow10 (S p) = 10 * pow10 p.
Proof. unfold pow10. rewrite Nat2Z.inj_succ, Z.pow_succ_r; lia. Qed.

Lemma scaled_abs_nonneg q p : 0 <= scaled_abs q p.
Proof.
  unfold scaled_abs. apply round_half_even_nonneg.
  apply Qmult_le_0_compat. apply Qabs_nonneg.
  change 0%Q with (inject_Z 0). rewrite <- Zle_Qle. pose proof (pow10_pos p). lia.
Qed.

Lemma qneg_spec q : qneg q = true <-> (q < 0)%Q.
Proof. unfold qneg, Qlt. simpl. rewrite Z.ltb_lt. lia. Qed.

Lemma Qabs_of_sign q : (Qabs q == (if qneg q then -(1) else 1) * q)%Q.
Proof.
  destruct (qneg q) eqn:E.
  - apply qneg_spec in E. rewrite Qabs_neg by lra. ring.
  - assert (~ (q < 0)%Q) by (rewrite <- qneg_spec; congruence).
    rewrite Qabs_pos by lra. ring.
Qed.

(* the displayed decimal is within half a unit of the last displayed place of the exact value *)
Theorem shown_within_half_ulp q p : (Qabs (shown q p - q) <= (1#2) / inject_Z (pow10 p))%Q.
Proof.
  unfold shown, scaled_abs.
  assert (Hp : (0 < inject_Z (pow10 p))%Q).
  { change 0%Q with (inject_Z 0). rewrite <- Zlt_Qlt. apply pow10_pos. }
  set (s := inject_Z (pow10 p)) in *.
  pose proof (round_half_even_bound (Qabs q * s)) as B.
  set (r := inject_Z (round_half_even (Qabs q * s))) in *.
  apply Qabs_Qle_condition in B. destruct B as [B1 B2].
  pose proof (Qabs_of_sign q) as A.
  assert (Hi : (0 <= / s)%Q) by (apply Qlt_le_weak, Qinv_lt_0_compat; exact Hp).
  assert (D1 : ((r - Qabs q * s) / s <= (1#2) / s)%Q).
  { unfold Qdiv. apply Qmult_le_compat_r; [exact B2|exact Hi]. }
  assert (D2 : (- ((1#2) / s) <= (r - Qabs q * s) / s)%Q).
  { setoid_replace (- ((1 # 2) / s))%Q with ((-(1#2)) / s)%Q by (field; lra).
    unfold Qdiv. apply Qmult_le_compat_r; [exact B1|exact Hi]. }
  assert (E : ((r - Qabs q * s) / s == r / s - Qabs q)%Q) by (field; lra).
  rewrite E in D1, D2.
  apply Qabs_Qle_condition.
  destruct (qneg q); rewrite A in D1, D2; split; lra.
Qed.

(* ---------- digits ---------- *)
Definition digit (d : Z) : Prop := 0 <= d <= 9.

Lemma dval_fold acc l : fold_left (fun a d => a * 10 + d) l acc = acc * 10 ^ Z.of_nat (length l) + dval l.
Proof.
  unfold dval. revert acc. induction l as [|x l IH]; intros acc.
  - simpl. lia.
  - cbn [fold_left]. rewrite (IH (acc * 10 + x)), (IH (0 * 10 + x)).
    change (length (x :: l)) with (S (length l)). rewrite Nat2Z.inj_succ, Z.pow_succ_r by lia. lia.
Qed.

Lemma dval_app a b : dval (a ++ b) = dval a * 10 ^ Z.of_nat (length b) + dval b.
Proof. unfold dval at 1. rewrite fold_left_app. fold (dval a). apply dval_fold. Qed.

Lemma dval_snoc a d : dval (a ++ [d]) = dval a * 10 + d.
Proof. rewrite dval_app. simpl. unfold dval at 2. simpl. lia. Qed.

Lemma digs_acc_spec f : forall n acc, 0 <= n < 10 ^ Z.of_nat (S f) ->
  exists ds, digs_acc (S f) n acc = ds ++ acc /\ dval ds = n /\ Forall digit ds /\ ds <> [].
Proof.
  induction f as [|f IH]; intros n acc Hn.
  - exists [n]. simpl. change (10 ^ Z.of_nat 1) with 10 in Hn.
    destruct (n <? 10) eqn:E; [|apply Z.ltb_ge in E; lia].
    repeat split; try discriminate. constructor; [unfold digit; lia|constructor].
  - cbn [digs_acc]. destruct (n <? 10) eqn:E.
    + apply Z.ltb_lt in E. exists [n]. repeat split; try discriminate.
      constructor; [unfold digit; lia|constructor].
    + apply Z.ltb_ge in E.
      assert (Hd : 0 <= n / 10 < 10 ^ Z.of_nat (S f)).
      { split. apply Z.div_pos; lia.
        apply Z.div_lt_upper_bound; [lia|].
        replace (Z.of_nat (S (S f))) with (Z.succ (Z.of_nat (S f))) in Hn by lia.
        rewrite Z.pow_succ_r in Hn by lia. lia. }
      destruct (IH (n / 10) (n mod 10 :: acc) Hd) as (ds & E1 & E2 & E3 & E4).
      exists (ds ++ [n mod 10]). split.
      * change (digs_acc (S f) (n / 10) (n mod 10 :: acc) = (ds ++ [n mod 10]) ++ acc).
        rewrite E1, <- app_assoc. reflexivity.
      * split. rewrite dval_snoc, E2. pose proof (Z.div_mod n 10). lia.
        split. apply Forall_app. split; [exact E3|]. constructor; [|constructor].
        unfold digit. pose proof (Z.mod_pos_bound n 10). lia.
        destruct ds; discriminate.
Qed.

Lemma zdigits_spec n : 0 <= n -> dval (zdigits n) = n /\ Forall digit (zdigits n) /\ zdigits n <> [].
Proof.
  intros Hn. unfold zdigits.
  assert (H : 0 <= n < 10 ^ Z.of_nat (S (Z.to_nat (Z.log2 n)))).
  { split; [exact Hn|].
    destruct (Z.eq_dec n 0) as [->|Hz]. { simpl. lia. }
    pose proof (Z.log2_spec n ltac:(lia)) as [_ L]. pose proof (Z.log2_nonneg n).
    rewrite Nat2Z.inj_succ, Z2Nat.id by lia.
    eapply Z.lt_le_trans; [exact L|]. apply Z.pow_le_mono_l. lia. }
  destruct (digs_acc_spec _ n [] H) as (ds & E1 & E2 & E3 & E4).
  rewrite app_nil_r in E1. rewrite E1. auto.
Qed.

Lemma fixdigs_acc_spec p : forall r acc,
  exists ds, fixdigs_acc p r acc = ds ++ acc /\ length ds = p /\ dval ds = r mod pow10 p /\ Forall digit ds.
Proof.
  induction p as [|p IH]; intros r acc.
  - exists []. simpl. repeat split. unfold pow10. simpl. rewrite Z.mod_1_r. reflexivity. constructor.
  - cbn [fixdigs_acc]. destruct (IH (r / 10) (r mod 10 :: acc)) as (ds & E1 & E2 & E3 & E4).
    exists (ds ++ [r mod 10]). split; [rewrite E1, <- app_assoc; reflexivity|].
    split; [rewrite app_length; simpl; lia|]. split.
    + rewrite dval_snoc, E3, pow10_S. pose proof (pow10_pos p).
      rewrite (Z.rem_mul_r r 10 (pow10 p)) by lia. lia.
    + apply Forall_app. split; [exact E4|]. constructor; [|constructor].
      unfold digit. pose proof (Z.mod_pos_bound r 10). lia.
Qed.

Lemma fixdigs_spec p r : length (fixdigs p r) = p /\ dval (fixdigs p r) = r mod pow10 p /\ Forall digit (fixdigs p r).
Proof.
  unfold fixdigs. destruct (fixdigs_acc_spec p r []) as (ds & E1 & E2 & E3 & E4).
  rewrite app_nil_r in E1. rewrite E1. auto.
Qed.

(* ---------- characters ---------- *)
Lemma digit_cases d : digit d -> d = 0 \/ d = 1 \/ d = 2 \/ d = 3 \/ d = 4 \/ d = 5 \/ d = 6 \/ d = 7 \/ d = 8 \/ d = 9.
Proof. unfold digit. lia. Qed.

Lemma digit_char_facts d : digit d ->
  is_digit (digit_char d) = true /\ digit_val (digit_char d) = d /\
  Ascii.eqb (digit_char d) sp = false /\ Ascii.eqb (digit_char d) "-"%char = false.
Proof.
  intros H. apply digit_cases in H.
  repeat (destruct H as [->|H]; [repeat split; reflexivity|]). subst. repeat split; reflexivity.
Qed.

Local Arguments digit_char : simpl never.
Local Arguments is_digit : simpl never.
Local Arguments digit_val : simpl never.
Local Opaque digit_char.

Lemma span_digits_dchars c ds rest : Forall digit ds ->
  (match rest with [] => True | x :: _ => is_digit x = false /\ (c && Ascii.eqb x ","%char = false) end) ->
  span_digits c (dchars ds ++ rest) = (ds, rest).
Proof.
  intros H R. induction H as [|d ds Hd _ IH].
  - cbn [dchars map app]. destruct rest as [|x r]; [reflexivity|]. cbn [span_digits]. destruct R as [R1 R2]. rewrite R1, R2. reflexivity.
  - destruct (digit_char_facts d Hd) as (A & B & _).
    change (dchars (d :: ds) ++ rest) with (digit_char d :: (dchars ds ++ rest)).
    cbn [span_digits]. rewrite A, IH, B. reflexivity.
Qed.

Lemma skip_spaces_repeat k l : skip_spaces (repeat sp k ++ l) = skip_spaces l.
Proof. induction k; simpl; [reflexivity|exact IHk]. Qed.

Lemma skip_spaces_id c l : Ascii.eqb c sp = false -> skip_spaces (c :: l) = c :: l.
Proof. intros H. simpl. rewrite H. reflexivity. Qed.

(* ---------- the text of a fixed field denotes the rounded decimal ---------- *)
Lemma fixed_body_parse neg s p k : 0 <= s ->
  parse_dec_chars false (repeat sp k ++ fixed_body false neg s p)
  = Some ((if neg then -(1) else 1) * (inject_Z s / inject_Z (pow10 p)))%Q.
Proof.
  intros Hs. pose proof (pow10_pos p) as Hp.
  assert (Hi : 0 <= s / pow10 p) by (apply Z.div_pos; lia).
  destruct (zdigits_spec _ Hi) as (I1 & I2 & I3).
  destruct (fixdigs_spec p (s mod pow10 p)) as (F1 & F2 & F3).
  rewrite Z.mod_mod in F2 by lia.
  set (ip := zdigits (s / pow10 p)) in *. set (fp := fixdigs p (s mod pow10 p)) in *.
  assert (Hip : exists d ip', ip = d :: ip' /\ digit d).
  { destruct ip as [|d ip'] eqn:E; [congruence|]. exists d, ip'. split; [reflexivity|]. inversion I2; assumption. }
  destruct Hip as (d0 & ip' & Eip & Hd0).
  destruct (digit_char_facts d0 Hd0) as (_ & _ & Nsp & Nminus).
  unfold parse_dec_chars. rewrite skip_spaces_repeat. unfold fixed_body. fold ip. fold fp.
  set (tail := match p with O => [] | S _ => "."%char :: dchars fp end).
  assert (Etail : span_digits false (dchars ip ++ tail) = (ip, tail)).
  { apply span_digits_dchars; [exact I2|]. unfold tail. destruct p; simpl; auto. }
  assert (Val : dval (ip ++ (match p with O => [] | S _ => fp end)) = s /\
                length (match p with O => @nil Z | S _ => fp end) = p).
  { destruct p as [|p'].
    - rewrite app_nil_r. split; [|reflexivity]. rewrite I1. unfold pow10. simpl. apply Z.div_1_r.
    - split; [|exact F1]. rewrite dval_app, I1, F1, F2. fold (pow10 (S p')).
      pose proof (Z.div_mod s (pow10 (S p'))). lia. }
  destruct Val as [V1 V2].
  assert (Body : forall sgn : bool,
    (let '(ipx, s3) := span_digits false (dchars ip ++ tail) in
     match ipx with
     | [] => None
     | _ :: _ =>
       let '(fpx, s4) := match s3 with
                         | c :: r => if Ascii.eqb c "."%char then span_digits false r else ([], s3)
                         | [] => ([], [])
                         end in
       match s4 with
       | [] => Some ((if sgn then -(1) else 1) * (inject_Z (dval (ipx ++ fpx)) / inject_Z (pow10 (length fpx))))%Q
       | _ :: _ => None
       end
     end) = Some ((if sgn then -(1) else 1) * (inject_Z s / inject_Z (pow10 p)))%Q).
  { intros sgn. rewrite Etail. rewrite Eip at 1.
    unfold tail. destruct p as [|p'].
    - simpl. rewrite app_nil_r in V1. rewrite app_nil_r, V1. reflexivity.
    - rewrite Ascii.eqb_refl.
      replace (dchars fp) with (dchars fp ++ []) by apply app_nil_r.
      rewrite (span_digits_dchars false fp [] F3 I). rewrite V1, V2. reflexivity. }
  destruct neg.
  - simpl app. rewrite skip_spaces_id by reflexivity. simpl Ascii.eqb. cbv iota. exact (Body true).
  - cbn [app].
    assert (Es : skip_spaces (dchars ip ++ tail) = digit_char d0 :: (dchars ip' ++ tail)).
    { rewrite Eip. change (dchars (d0 :: ip') ++ tail) with (digit_char d0 :: (dchars ip' ++ tail)).
      apply skip_spaces_id. exact Nsp. }
    rewrite Es. cbv iota. rewrite Nminus.
    change (digit_char d0 :: (dchars ip' ++ tail)) with (dchars (d0 :: ip') ++ tail). rewrite <- Eip. exact (Body false).
Qed.

Theorem fmt_f_parse_back q w p : parse_dec (fmt_f (Fin q) w p) = Some (shown q p).
Proof.
  unfold parse_dec, fmt_f, chars. rewrite list_ascii_of_string_of_list_ascii.
  unfold fmt_f_chars, lpad, shown. apply fixed_body_parse. apply scaled_abs_nonneg.
Qed.

(* a whole number under '.0f' is printed exactly (the year labels of the tables) *)
Lemma scaled_abs_nat n : scaled_abs (inject_Z (Z.of_nat n)) 0 = Z.of_nat n.
Proof.
  unfold scaled_abs.
  change (Qabs (inject_Z (Z.of_nat n)) * inject_Z (pow10 0))%Q with (inject_Z (Z.abs (Z.of_nat n) * 1)).
  rewrite Z.mul_1_r, Z.abs_eq by lia. apply round_half_even_Z.
Qed.

Lemma shown_nat n : (shown (inject_Z (Z.of_nat n)) 0 == inject_Z (Z.of_nat n))%Q.
Proof.
  unfold shown. rewrite scaled_abs_nat.
  assert (E : qneg (inject_Z (Z.of_nat n)) = false).
  { unfold qneg. simpl. apply Z.ltb_ge. lia. }
  rewrite E. change (inject_Z (pow10 0)) with 1%Q. field.
Qed.

(* the field is never narrower than the requested width and is never truncated *)
Lemma lpad_length w s : (w <= length (lpad w s))%nat /\ (length s <= length (lpad w s))%nat.
Proof. unfold lpad. rewrite app_length, repeat_length. lia. Qed.

(* what a reader sees in a '{:w.pf}' field is a decimal within half a unit of its last place of the quantity *)
Theorem fmt_f_value_close q w p :
  exists z, parse_dec (fmt_f (Fin q) w p) = Some z /\ (Qabs (z - q) <= (1#2) / inject_Z (pow10 p))%Q.
Proof. exists (shown q p). split; [apply fmt_f_parse_back|apply shown_within_half_ulp]. Qed.

(* ---------- thousands separators: format(x, 'w,.pf') ---------- *)
(* l' is l with commas inserted *)
Inductive commaed : list ascii -> list ascii -> Prop :=
| cm_nil : commaed [] []
| cm_keep c l l' : commaed l l' -> commaed (c :: l) (c :: l')
| cm_comma l l' : commaed l l' -> commaed l (","%char :: l').

Lemma commaed_app a a' b b' : commaed a a' -> commaed b b' -> commaed (a ++ b) (a' ++ b').
Proof. intros H. induction H; intros Hb; simpl; [exact Hb|constructor; auto|constructor; auto]. Qed.

Lemma commaed_rev l l' : commaed l l' -> commaed (rev l) (rev l').
Proof.
  intros H. induction H; simpl.
  - constructor.
  - apply commaed_app; [exact IHcommaed|repeat constructor].
  - rewrite <- (app_nil_r (rev l)). apply commaed_app; [exact IHcommaed|repeat constructor].
Qed.

Lemma commaed_group3_rev l : forall k, commaed l (group3_rev l k).
Proof.
  induction l as [|d r IH]; intros k; simpl; [constructor|].
  destruct k as [|[|[|k]]]; try (constructor; apply IH).
  destruct r; constructor; [apply IH|constructor; apply IH].
Qed.

Lemma commaed_group3 l : commaed l (group3 l).
Proof.
  unfold group3. rewrite <- (rev_involutive l) at 1. apply commaed_rev, commaed_group3_rev.
Qed.

Lemma commaed_refl l : commaed l l.
Proof. induction l; constructor; auto. Qed.

Lemma span_digits_commaed l l' : commaed l l' -> forall ds rest, l = dchars ds -> Forall digit ds ->
  (match rest with [] => True | x :: _ => is_digit x = false /\ Ascii.eqb x ","%char = false end) ->
  span_digits true (l' ++ rest) = (ds, rest).
Proof.
  intros H. induction H; intros ds rest E F R.
  - destruct ds; [|discriminate]. simpl. destruct rest as [|x r]; [reflexivity|].
    cbn [span_digits]. destruct R as [R1 R2]. rewrite R1, R2. reflexivity.
  - destruct ds as [|d ds]; [discriminate|]. change (dchars (d :: ds)) with (digit_char d :: dchars ds) in E.
    inversion E; subst. inversion F; subst.
    destruct (digit_char_facts d H2) as (A & B & _).
    cbn [app span_digits]. rewrite A, (IHcommaed ds rest eq_refl H3 R), B. reflexivity.
  - cbn [app span_digits]. change (is_digit ","%char) with false. cbv iota. rewrite Ascii.eqb_refl. simpl andb. cbv iota.
    apply IHcommaed; assumption.
Qed.

Lemma commaed_head l l' : commaed l l' -> forall ds, l = dchars ds -> Forall digit ds -> ds <> [] ->
  exists c r, l' = c :: r /\ Ascii.eqb c sp = false /\ Ascii.eqb c "-"%char = false.
Proof.
  intros H. induction H; intros ds E F N.
  - destruct ds; [congruence|discriminate].
  - destruct ds as [|d ds]; [discriminate|]. change (dchars (d :: ds)) with (digit_char d :: dchars ds) in E.
    inversion E; subst. inversion F; subst. destruct (digit_char_facts d H2) as (_ & _ & A & B). exists (digit_char d), l'. auto.
  - exists ","%char, l'. repeat split; reflexivity.
Qed.

(* generic: sign, (possibly comma-grouped) integer digits, optional fraction *)
Lemma parse_body_generic (comma neg : bool) X ip fp (s : Z) (p k : nat) :
  Forall digit ip -> ip <> [] -> Forall digit fp -> length fp = p ->
  (forall rest, (match rest with [] => True | x :: _ => is_digit x = false /\ Ascii.eqb x ","%char = false end) ->
                span_digits comma (X ++ rest) = (ip, rest)) ->
  (exists c r, X = c :: r /\ Ascii.eqb c sp = false /\ Ascii.eqb c "-"%char = false) ->
  dval (ip ++ match p with O => [] | S _ => fp end) = s ->
  parse_dec_chars comma (repeat sp k ++ (if neg then ["-"%char] else []) ++ X
                         ++ match p with O => [] | S _ => "."%char :: dchars fp end)
  = Some ((if neg then -(1) else 1) * (inject_Z s / inject_Z (pow10 p)))%Q.
Proof.
  intros I2 I3 F3 F1 Span (c0 & r0 & EX & Nsp & Nminus) V1.
  set (tail := match p with O => [] | S _ => "."%char :: dchars fp end).
  assert (Etail : span_digits comma (X ++ tail) = (ip, tail)).
  { apply Span. unfold tail. destruct p; simpl; auto. }
  assert (Hip : exists d ip', ip = d :: ip') by (destruct ip as [|d ip']; [congruence|eauto]).
  destruct Hip as (d0 & ip' & Eip).
  assert (V2 : length (match p with O => @nil Z | S _ => fp end) = p) by (destruct p; [reflexivity|exact F1]).
  unfold parse_dec_chars. rewrite skip_spaces_repeat.
  assert (Body : forall sgn : bool,
    (let '(ipx, s3) := span_digits comma (X ++ tail) in
     match ipx with
     | [] => None
     | _ :: _ =>
       let '(fpx, s4) := match s3 with
                         | c :: r => if Ascii.eqb c "."%char then span_digits false r else ([], s3)
                         | [] => ([], [])
                         end in
       match s4 with
       | [] => Some ((if sgn then -(1) else 1) * (inject_Z (dval (ipx ++ fpx)) / inject_Z (pow10 (length fpx))))%Q
       | _ :: _ => None
       end
     end) = Some ((if sgn then -(1) else 1) * (inject_Z s / inject_Z (pow10 p)))%Q).
  { intros sgn. rewrite Etail. rewrite Eip at 1.
    unfold tail. destruct p as [|p'].
    - simpl. rewrite app_nil_r in V1. rewrite app_nil_r, V1. reflexivity.
    - rewrite Ascii.eqb_refl.
      replace (dchars fp) with (dchars fp ++ []) by apply app_nil_r.
      rewrite (span_digits_dchars false fp [] F3 I). rewrite V1, V2. reflexivity. }
  destruct neg.
  - cbn [app]. rewrite skip_spaces_id by reflexivity. simpl Ascii.eqb. cbv iota. exact (Body true).
  - cbn [app]. fold tail. rewrite EX. cbn [app]. rewrite skip_spaces_id by exact Nsp. cbv iota. rewrite Nminus.
    change (c0 :: r0 ++ tail) with ((c0 :: r0) ++ tail). rewrite <- EX. exact (Body false).
Qed.

Lemma fixed_body_comma_parse neg s p k : 0 <= s ->
  parse_dec_chars true (repeat sp k ++ fixed_body true neg s p)
  = Some ((if neg then -(1) else 1) * (inject_Z s / inject_Z (pow10 p)))%Q.
Proof.
  intros Hs. pose proof (pow10_pos p) as Hp.
  assert (Hi : 0 <= s / pow10 p) by (apply Z.div_pos; lia).
  destruct (zdigits_spec _ Hi) as (I1 & I2 & I3).
  destruct (fixdigs_spec p (s mod pow10 p)) as (F1 & F2 & F3).
  rewrite Z.mod_mod in F2 by lia.
  unfold fixed_body. cbv iota.
  set (ip := zdigits (s / pow10 p)) in *. set (fp := fixdigs p (s mod pow10 p)) in *.
  pose proof (commaed_group3 (dchars ip)) as CM.
  apply (parse_body_generic true neg (group3 (dchars ip)) ip fp s p k); auto.
  - intros rest R. eapply span_digits_commaed; eauto.
  - eapply commaed_head; eauto.
  - destruct p as [|p'].
    + rewrite app_nil_r, I1. unfold pow10. simpl. apply Z.div_1_r.
    + rewrite dval_app, I1, F1, F2. fold (pow10 (S p')). pose proof (Z.div_mod s (pow10 (S p'))). lia.
Qed.

Theorem fmt_fc_parse_back q w p : parse_dec_comma (fmt_fc (Fin q) w p) = Some (shown q p).
Proof.
  unfold parse_dec_comma, fmt_fc, chars. rewrite list_ascii_of_string_of_list_ascii.
  unfold fmt_f_chars, lpad, shown. apply fixed_body_comma_parse. apply scaled_abs_nonneg.
Qed.
