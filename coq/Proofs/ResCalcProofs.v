(* Proofs/ResCalcProofs.v - lemmas about Model/ResCalc.v *)
From Coq Require Import QArith Qminmax List ZArith Bool Lia Lqa PeanoNat.
From Verif Require Import Base.Flat Proofs.FlatFacts Model.Gradient Proofs.GradientProofs Model.ResCalc.
Import ListNotations.
Open Scope Q_scope.

(* ---- fracture geometry ---- *)

Lemma geometry_keeps shape pi sq s :
  fs_numb (frac_geometry shape pi sq s) = fs_numb s /\ fs_sep (frac_geometry shape pi sq s) = fs_sep s /\
  fs_vol (frac_geometry shape pi sq s) = fs_vol s.
Proof.
  unfold frac_geometry. destruct (shape =? 1)%Z, (shape =? 2)%Z, (shape =? 3)%Z, (shape =? 4)%Z; cbn; repeat split.
Qed.

(* what each shape option yields; for the circular-area option the library square root enters as the premise r*r == 4/pi*area *)
Theorem geometry_shapes pi sq s :
  (let g := frac_geometry 1 pi sq s in
     fs_height g = sq /\ fs_width g = sq /\ fs_area g = fs_area s /\
     (~ pi == 0 -> sq * sq == 4 / pi * fs_area s -> pi / 4 * fs_height g * fs_width g == fs_area g)) /\
  (let g := frac_geometry 2 pi sq s in
     fs_height g = fs_height s /\ fs_width g = fs_height s /\ fs_area g = pi / 4 * fs_height s * fs_height s) /\
  (let g := frac_geometry 3 pi sq s in
     fs_height g = fs_height s /\ fs_width g = fs_height s /\ fs_area g = fs_height s * fs_height s) /\
  (let g := frac_geometry 4 pi sq s in
     fs_height g = fs_height s /\ fs_width g = fs_width s /\ fs_area g = fs_height s * fs_width s).
Proof.
  cbv zeta. unfold frac_geometry. cbn. repeat split.
  intros Hpi Hsq. setoid_replace (pi / 4 * sq * sq) with (pi / 4 * (sq * sq)) by ring. rewrite Hsq. field. exact Hpi.
Qed.

(* ---- reservoir volume options ---- *)

(* options 1-3 make volume, fracture number, area and separation consistent: V = (N - 1) * A * s *)
Theorem volume_identity r s : geometry_of r = Good s -> (1 <= ri_opt r <= 3)%Z ->
  fs_vol s == (fs_numb s - 1) * fs_area s * fs_sep s.
Proof.
  unfold geometry_of. intros H Hopt.
  destruct (geometry_keeps (ri_shape r) (ri_pi r) (ri_sqrt r) (initial_state r)) as [Kn [Ks Kv]].
  set (g := frac_geometry (ri_shape r) (ri_pi r) (ri_sqrt r) (initial_state r)) in *.
  unfold res_volume in H.
  destruct (Z.eqb_spec (ri_opt r) 1) as [E1|E1].
  { inversion H; subst s; cbn. reflexivity. }
  destruct (Z.eqb_spec (ri_opt r) 2) as [E2|E2].
  { destruct (Qeqb (fs_area g) 0 || Qeqb (fs_sep g) 0) eqn:Z0; [discriminate|].
    apply orb_false_iff in Z0. destruct Z0 as [Za Zs].
    assert (~ fs_area g == 0) by (intros Q0; apply Qeqb_true in Q0; congruence).
    assert (~ fs_sep g == 0) by (intros Q0; apply Qeqb_true in Q0; congruence).
    inversion H; subst s; cbn. field. split; assumption. }
  destruct (Z.eqb_spec (ri_opt r) 3) as [E3|E3]; [|lia].
  destruct (Qeqb (fs_area g) 0 || Qeqb (fs_numb g - 1) 0) eqn:Z0; [discriminate|].
  apply orb_false_iff in Z0. destruct Z0 as [Za Zn].
  assert (~ fs_area g == 0) by (intros Q0; apply Qeqb_true in Q0; congruence).
  assert (~ fs_numb g - 1 == 0) by (intros Q0; apply Qeqb_true in Q0; congruence).
  inversion H; subst s; cbn. rewrite Kv. cbn. field. split; assumption.
Qed.

(* option 4 uses the supplied volume, fracture number and separation verbatim *)
Theorem volume_option4_verbatim r : ri_opt r = 4%Z ->
  exists s, geometry_of r = Good s /\ fs_vol s = ri_resvol r /\ fs_numb s = ri_numb r /\ fs_sep s = ri_sep r.
Proof.
  intros E. unfold geometry_of. rewrite E. cbn [res_volume Z.eqb]. eexists. split; [reflexivity|].
  destruct (geometry_keeps (ri_shape r) (ri_pi r) (ri_sqrt r) (initial_state r)) as [Kn [Ks Kv]].
  rewrite Kn, Ks, Kv. cbn. repeat split.
Qed.

(* options 1 and 4 never raise; 2 and 3 raise exactly on a zero denominator *)
Theorem volume_defined r : (ri_opt r = 1 \/ ri_opt r = 4)%Z -> exists s, geometry_of r = Good s.
Proof. intros [E|E]; unfold geometry_of; rewrite E; cbn [res_volume Z.eqb]; eexists; reflexivity. Qed.

(* ---- heat content ---- *)

Theorem heat_linear_in_volume k vol rho cp T Tinj :
  heat_content (k * vol) rho cp T Tinj == k * heat_content vol rho cp T Tinj.
Proof. unfold heat_content. field. Qed.

Theorem heat_additive_in_volume v1 v2 rho cp T Tinj :
  heat_content (v1 + v2) rho cp T Tinj == heat_content v1 rho cp T Tinj + heat_content v2 rho cp T Tinj.
Proof. unfold heat_content. field. Qed.

Theorem heat_nonneg vol rho cp T Tinj : 0 <= vol -> 0 <= rho -> 0 <= cp -> Tinj <= T -> 0 <= heat_content vol rho cp T Tinj.
Proof.
  intros. unfold heat_content. apply Qle_shift_div_l. reflexivity. rewrite Qmult_0_l.
  assert (0 <= vol * rho) by nra. assert (0 <= vol * rho * cp) by nra. nra.
Qed.

(* ---- average gradient: it is the gradient that, over the (capped) depth, gives the temperature rise ---- *)

Theorem average_gradient_spec n Ts Tmax gs ths depth :
  (1 <= n <= 4)%nat -> (n <= length gs)%nat -> (n <= length ths)%nat -> gs_ok gs -> ths_ok ths ->
  Ts < Tmax -> Tmax < prefill -> 0 < depth -> depth <= sumQ (firstn n ths) ->
  exists T d, bht_code n Ts Tmax gs ths depth = Good (T, d) /\ 0 < d /\
              average_gradient n gs Ts T d * d == T - Ts.
Proof.
  intros Hn Hg Ht Hgs Hths HT Hpre Hd0 Hd1.
  destruct (bht_code_refines n Ts Tmax gs ths depth Hn Hg Ht Hgs Hths HT Hpre Hd0 Hd1) as [T [d [Hc [Hd HTr]]]].
  pose proof (wf_of_lists n gs ths (conj (proj1 Hn) Hg) Hgs Hths) as Hwf.
  assert (Hdpos : 0 < d).
  { rewrite Hd. unfold capped_depth. cbv zeta. pose proof (maxdepth_pos _ _ Tmax Hwf Ts HT).
    destruct (Qlt_le_dec _ _); lra. }
  exists T, d. split; [exact Hc|]. split; [exact Hdpos|].
  unfold average_gradient. destruct (Nat.eqb_spec n 1) as [->|Hn1].
  - rewrite HTr. unfold trock, upper_of, bottom_of. cbn [Nat.sub firstn combine Tprofile nth]. rewrite <- Hd. ring.
  - field. lra.
Qed.

(* ---- reservoir classes that do not use the walk ---- *)

(* cylindrical: one gradient down to the input depth, which is the walk with no upper layers ... *)
Theorem cyl_is_single_layer Ts g0 din : cyl_trock Ts g0 din = Tprofile Ts [] g0 (din * 1000).
Proof. reflexivity. Qed.

(* ... but without the Tmax cap of Reservoir.Calculate *)
Theorem cyl_no_cap_refuted : exists Ts g0 din Tmax, Ts < Tmax /\ 0 < g0 /\ Tmax < cyl_trock Ts g0 din.
Proof. exists 15, (7 # 100), 9, 600. repeat split. Qed.

(* SBT: with one segment it is the single-layer walk; with more the gradients are averaged without their thicknesses *)
Theorem sbt_single_segment Ts g0 rest ep : sbt_trock 1 Ts (g0 :: rest) ep == Tprofile Ts [] g0 ep.
Proof. unfold sbt_trock, sbt_average_gradient. cbn. unfold natQ. cbn. field. Qed.

Theorem sbt_unweighted_mean_refuted :
  exists Ts g1 th1 g2 ep, 0 < g1 /\ 0 < g2 /\ 0 < th1 /\ th1 < ep /\
    ~ sbt_trock 2 Ts [g1; g2] ep == Tprofile Ts [(g1, th1)] g2 ep.
Proof.
  exists 15, (8 # 100), 1000, (4 # 100), 3000. repeat split. vm_compute. discriminate.
Qed.
