(* Proofs/FmtSciProofs.v - the value of a '{:w.pe}' field: powers of ten as rationals, the decimal exponent
   floor(log10 |q|) computed from digit counts is correct, rounding to n significant digits yields an n-digit integer
   within half a unit, and the text (mantissa digits, 'e', sign, at least two exponent digits) reads back as exactly
   that decimal. *)
From Coq Require Import String Ascii QArith Qabs Qround ZArith List Bool Lia Lqa.
From Verif Require Import Model.Fmt Proofs.FmtProofs.
Import ListNotations.
Open Scope Z_scope.

(* ---------- powers of ten as rationals ---------- *)
Lemma Qpow10_nonneg_exp z : 0 <= z -> Qpow10 z = inject_Z (10 ^ z).
Proof. intros H. unfold Qpow10. destruct (z <? 0) eqn:E; [apply Z.ltb_lt in E; lia|reflexivity]. Qed.

Lemma Qpow10_neg_exp z : z < 0 -> Qpow10 z = 1 # Z.to_pos (10 ^ (- z)).
Proof. intros H. unfold Qpow10. destruct (z <? 0) eqn:E; [reflexivity|apply Z.ltb_ge in E; lia]. Qed.

Lemma pow10Z_pos z : 0 <= z -> 0 < 10 ^ z.
Proof. intros. apply Z.pow_pos_nonneg; lia. Qed.

Lemma Qpow10_pos z : (0 < Qpow10 z)%Q.
Proof.
  destruct (Z_lt_le_dec z 0) as [N|P].
  - rewrite Qpow10_neg_exp by exact N. reflexivity.
  - rewrite Qpow10_nonneg_exp by exact P. change 0%Q with (inject_Z 0). rewrite <- Zlt_Qlt. apply pow10Z_pos. exact P.
Qed.

Lemma Qpow10_succ z : (Qpow10 (z + 1) == 10 * Qpow10 z)%Q.
Proof.
  destruct (Z_lt_le_dec z 0) as [N|P].
  - destruct (Z.eq_dec z (-1)) as [->|N1].
    + reflexivity.
    + rewrite (Qpow10_neg_exp z), (Qpow10_neg_exp (z + 1)) by lia.
      pose proof (pow10Z_pos (- (z + 1)) ltac:(lia)).
      assert (E : 10 ^ (- z) = 10 * 10 ^ (- (z + 1))). { replace (- z) with (Z.succ (- (z + 1))) by lia. rewrite Z.pow_succ_r by lia. reflexivity. }
      unfold Qeq. simpl. rewrite E. rewrite !Z2Pos.id by lia. lia.
  - rewrite !Qpow10_nonneg_exp by lia. replace (z + 1) with (Z.succ z) by lia. rewrite Z.pow_succ_r by lia.
    rewrite inject_Z_mult. reflexivity.
Qed.

Lemma Qpow10_pred z : (Qpow10 (z - 1) == Qpow10 z / 10)%Q.
Proof. pose proof (Qpow10_succ (z - 1)) as H. replace (z - 1 + 1) with z in H by lia. rewrite H. field. Qed.

Lemma Qpow10_add a b : (Qpow10 (a + b) == Qpow10 a * Qpow10 b)%Q.
Proof.
  revert a. 
  assert (Hnn : forall n a, (Qpow10 (a + Z.of_nat n) == Qpow10 a * Qpow10 (Z.of_nat n))%Q).
  { induction n as [|n IH]; intros a.
    - simpl. replace (a + 0) with a by lia. change (Qpow10 0) with 1%Q. ring.
    - rewrite Nat2Z.inj_succ. replace (a + Z.succ (Z.of_nat n)) with ((a + Z.of_nat n) + 1) by lia.
      replace (Z.succ (Z.of_nat n)) with (Z.of_nat n + 1) by lia. rewrite !Qpow10_succ, IH. ring. }
  assert (Hneg : forall n a, (Qpow10 (a - Z.of_nat n) == Qpow10 a * Qpow10 (- Z.of_nat n))%Q).
  { induction n as [|n IH]; intros a.
    - simpl. replace (a - 0) with a by lia. change (Qpow10 0) with 1%Q. ring.
    - rewrite Nat2Z.inj_succ. replace (a - Z.succ (Z.of_nat n)) with ((a - Z.of_nat n) - 1) by lia.
      replace (- Z.succ (Z.of_nat n)) with (- Z.of_nat n - 1) by lia. rewrite !Qpow10_pred, IH. field. }
  intros a. destruct (Z_lt_le_dec b 0) as [N|P].
  - replace b with (- Z.of_nat (Z.to_nat (- b))) by lia. replace (a + - Z.of_nat (Z.to_nat (- b))) with (a - Z.of_nat (Z.to_nat (- b))) by lia. apply Hneg.
  - replace b with (Z.of_nat (Z.to_nat b)) by lia. apply Hnn.
Qed.

Lemma Qpow10_inv z : (Qpow10 (- z) == / Qpow10 z)%Q.
Proof.
  pose proof (Qpow10_add z (- z)) as H. replace (z + - z) with 0 in H by lia. change (Qpow10 0) with 1%Q in H.
  pose proof (Qpow10_pos z). field_simplify_eq; [|lra]. rewrite Qmult_comm. symmetry. exact H.
Qed.

Lemma Qpow10_mono a b : a <= b -> (Qpow10 a <= Qpow10 b)%Q.
Proof.
  intros H. replace b with (a + (b - a)) by lia. rewrite Qpow10_add.
  assert (1 <= Qpow10 (b - a))%Q.
  { rewrite Qpow10_nonneg_exp by lia. change 1%Q with (inject_Z 1). rewrite <- Zle_Qle. pose proof (pow10Z_pos (b - a) ltac:(lia)). lia. }
  pose proof (Qpow10_pos a). nra.
Qed.

Lemma dval_bounds ds : Forall digit ds -> 0 <= dval ds < 10 ^ Z.of_nat (length ds).
Proof.
  induction ds as [|d ds IH] using rev_ind; intros H.
  - simpl. unfold dval. simpl. lia.
  - apply Forall_app in H. destruct H as [H1 H2]. inversion H2; subst. specialize (IH H1).
    rewrite dval_snoc, app_length. simpl length. replace (Z.of_nat (length ds + 1)) with (Z.succ (Z.of_nat (length ds))) by lia.
    rewrite Z.pow_succ_r by lia. unfold digit in H3. lia.
Qed.

Lemma digs_acc_lead f : forall n acc, 1 <= n < 10 ^ Z.of_nat (S f) ->
  exists d r, digs_acc (S f) n acc = (d :: r) ++ acc /\ 1 <= d.
Proof.
  induction f as [|f IH]; intros n acc Hn.
  - exists n, []. simpl. change (10 ^ Z.of_nat 1) with 10 in Hn.
    destruct (n <? 10) eqn:E; [|apply Z.ltb_ge in E; lia]. split; [reflexivity|lia].
  - cbn [digs_acc]. destruct (n <? 10) eqn:E.
    + exists n, []. split; [reflexivity|lia].
    + apply Z.ltb_ge in E.
      assert (Hd : 1 <= n / 10 < 10 ^ Z.of_nat (S f)).
      { split. apply Z.div_le_lower_bound; lia.
        apply Z.div_lt_upper_bound; [lia|].
        replace (Z.of_nat (S (S f))) with (Z.succ (Z.of_nat (S f))) in Hn by lia.
        rewrite Z.pow_succ_r in Hn by lia. lia. }
      destruct (IH (n / 10) (n mod 10 :: acc) Hd) as (d & r & E1 & E2).
      exists d, (r ++ [n mod 10]). split; [|exact E2].
      change (digs_acc (S f) (n / 10) (n mod 10 :: acc) = (d :: r ++ [n mod 10]) ++ acc).
      rewrite E1. simpl. rewrite <- app_assoc. reflexivity.
Qed.

Definition ndigits (n : Z) : Z := Z.of_nat (length (zdigits n)).

Lemma ndigits_bounds n : 1 <= n -> 1 <= ndigits n /\ 10 ^ (ndigits n - 1) <= n < 10 ^ ndigits n.
Proof.
  intros Hn. destruct (zdigits_spec n ltac:(lia)) as (V & F & NE). unfold ndigits.
  assert (H : 1 <= n < 10 ^ Z.of_nat (S (Z.to_nat (Z.log2 n)))).
  { split; [exact Hn|]. pose proof (Z.log2_spec n ltac:(lia)) as [_ L]. pose proof (Z.log2_nonneg n).
    rewrite Nat2Z.inj_succ, Z2Nat.id by lia. eapply Z.lt_le_trans; [exact L|]. apply Z.pow_le_mono_l. lia. }
  destruct (digs_acc_lead _ n [] H) as (d & r & E & Hd). rewrite app_nil_r in E.
  assert (Ez : zdigits n = d :: r) by exact E.
  rewrite Ez in V, F |- *.
  pose proof (dval_bounds _ F) as B. rewrite V in B. simpl length in *.
  split; [lia|]. split; [|lia].
  replace (Z.of_nat (S (length r)) - 1) with (Z.of_nat (length r)) by lia.
  change (d :: r) with ([d] ++ r) in V. rewrite dval_app in V. inversion F as [|? ? Hd0 Hr0].
  pose proof (dval_bounds _ Hr0) as Br. unfold dval in V at 1. simpl in V.
  pose proof (pow10Z_pos (Z.of_nat (length r)) ltac:(lia)). nia.
Qed.

Lemma Qmake_div n d : (n # d == inject_Z n / inject_Z (Zpos d))%Q.
Proof. apply Qmake_Qdiv. Qed.

(* floor(log10 |q|) *)
Theorem ilog10_spec q : ~ (q == 0)%Q -> (Qpow10 (ilog10 q) <= Qabs q /\ Qabs q < Qpow10 (ilog10 q + 1))%Q.
Proof.
  intros Hq. unfold ilog10. set (a := Qabs q). fold (ndigits (Qnum a)) (ndigits (Zpos (Qden a))).
  assert (Ha : (0 < a)%Q). { unfold a. destruct (Qlt_le_dec 0 (Qabs q)) as [L|L]; [exact L|]. exfalso. apply Hq. apply Qabs_Qle_condition in L. destruct L. lra. }
  set (N := Qnum a). set (D := Zpos (Qden a)).
  assert (HN : 1 <= N). { unfold N. unfold Qlt in Ha. simpl in Ha. lia. }
  assert (HD : 1 <= D) by (unfold D; lia).
  destruct (ndigits_bounds N HN) as (LN & BN1 & BN2). destruct (ndigits_bounds D HD) as (LD & BD1 & BD2).
  set (ln := ndigits N) in *. set (ld := ndigits D) in *.
  assert (Ea : (a == inject_Z N / inject_Z D)%Q). { unfold N, D. destruct a as [n d]. simpl. apply Qmake_Qdiv. }
  assert (PD : (0 < inject_Z D)%Q) by (change 0%Q with (inject_Z 0); rewrite <- Zlt_Qlt; lia).
  assert (EN : (a * inject_Z D == inject_Z N)%Q) by (rewrite Ea; field; lra).
  assert (Q1 : (inject_Z N < Qpow10 ln)%Q) by (rewrite Qpow10_nonneg_exp by lia; rewrite <- Zlt_Qlt; exact BN2).
  assert (Q2 : (Qpow10 (ln - 1) <= inject_Z N)%Q) by (rewrite Qpow10_nonneg_exp by lia; rewrite <- Zle_Qle; exact BN1).
  assert (Q3 : (inject_Z D < Qpow10 ld)%Q) by (rewrite Qpow10_nonneg_exp by lia; rewrite <- Zlt_Qlt; exact BD2).
  assert (Q4 : (Qpow10 (ld - 1) <= inject_Z D)%Q) by (rewrite Qpow10_nonneg_exp by lia; rewrite <- Zle_Qle; exact BD1).
  (* a < 10^(ln-ld+1)  and  10^(ln-ld-1) < a *)
  assert (U : (a < Qpow10 (ln - ld + 1))%Q).
  { replace (ln - ld + 1) with (ln + - (ld - 1)) by lia. rewrite Qpow10_add, Qpow10_inv.
    pose proof (Qpow10_pos (ld - 1)). pose proof (Qpow10_pos ln).
    apply Qlt_shift_div_l; [assumption|]. nra. }
  assert (L : (Qpow10 (ln - ld - 1) < a)%Q).
  { replace (ln - ld - 1) with ((ln - 1) + - ld) by lia. rewrite Qpow10_add, Qpow10_inv.
    pose proof (Qpow10_pos ld). pose proof (Qpow10_pos (ln - 1)).
    apply Qlt_shift_div_r; [assumption|]. nra. }
  change (ndig N) with ln. change (ndig D) with ld.
  destruct (Qle_bool (Qpow10 (ln - ld)) a) eqn:C.
  - apply Qle_bool_iff in C. split; [exact C|exact U].
  - assert (C' : ~ (Qpow10 (ln - ld) <= a)%Q) by (rewrite <- Qle_bool_iff; congruence).
    replace (ln - ld - 1 + 1) with (ln - ld) by lia. split; lra.
Qed.

Lemma int_ge_half a b : (inject_Z b - (1#2) <= inject_Z a)%Q -> b <= a.
Proof.
  intros H. destruct (Z_lt_le_dec a b) as [L|L]; [|exact L]. exfalso.
  assert (a + 1 <= b) by lia. rewrite Zle_Qle in H0. rewrite inject_Z_plus in H0. change (inject_Z 1) with 1%Q in H0. lra.
Qed.

Lemma int_le_half a b : (inject_Z a <= inject_Z b + (1#2))%Q -> a <= b.
Proof.
  intros H. destruct (Z_lt_le_dec b a) as [L|L]; [|exact L]. exfalso.
  assert (b + 1 <= a) by lia. rewrite Zle_Qle in H0. rewrite inject_Z_plus in H0. change (inject_Z 1) with 1%Q in H0. lra.
Qed.

Lemma Qpow10_split a b c : a = b + c -> (Qpow10 a == Qpow10 b * Qpow10 c)%Q.
Proof. intros ->. apply Qpow10_add. Qed.

Lemma pow10_Qpow10 n : inject_Z (pow10 n) = Qpow10 (Z.of_nat n).
Proof. unfold pow10. rewrite Qpow10_nonneg_exp by lia. reflexivity. Qed.

(* |q| rounded to n significant digits: an n-digit integer m and the exponent x of its first digit *)
Theorem sig_round_spec q n : ~ (q == 0)%Q -> (1 <= n)%nat -> forall m x, sig_round q n = (m, x) ->
  pow10 (n - 1) <= m < pow10 n /\
  (Qabs (inject_Z m * Qpow10 (x - Z.of_nat n + 1) - Qabs q) <= (1#2) * Qpow10 (x - Z.of_nat n + 1))%Q.
Proof.
  intros Hq Hn m x. unfold sig_round.
  destruct (ilog10_spec q Hq) as [L U]. set (x0 := ilog10 q) in *.
  set (s := Qpow10 (Z.of_nat n - 1 - x0)). set (y := (Qabs q * s)%Q).
  pose proof (Qpow10_pos (Z.of_nat n - 1 - x0)) as Ps. fold s in Ps.
  pose proof (round_half_even_bound y) as B. apply Qabs_Qle_condition in B. destruct B as [B1 B2].
  set (m0 := round_half_even y) in *.
  assert (Y1 : (Qpow10 (Z.of_nat n - 1) <= y)%Q).
  { rewrite (Qpow10_split (Z.of_nat n - 1) x0 (Z.of_nat n - 1 - x0)) by lia. fold s. unfold y. nra. }
  assert (Y2 : (y < Qpow10 (Z.of_nat n))%Q).
  { rewrite (Qpow10_split (Z.of_nat n) (x0 + 1) (Z.of_nat n - 1 - x0)) by lia. fold s. unfold y. nra. }
  assert (M1 : pow10 (n - 1) <= m0).
  { apply int_ge_half. rewrite pow10_Qpow10. replace (Z.of_nat (n - 1)) with (Z.of_nat n - 1) by lia. lra. }
  assert (M2 : m0 <= pow10 n).
  { apply int_le_half. rewrite pow10_Qpow10. lra. }
  set (u := Qpow10 (x0 - Z.of_nat n + 1)).
  assert (Pu : (0 < u)%Q) by apply Qpow10_pos.
  assert (Esu : (s * u == 1)%Q).
  { unfold s, u. rewrite <- (Qpow10_split 0 (Z.of_nat n - 1 - x0) (x0 - Z.of_nat n + 1)) by lia. reflexivity. }
  assert (Close0 : (Qabs (inject_Z m0 * u - Qabs q) <= (1#2) * u)%Q).
  { assert (E : (inject_Z m0 * u - Qabs q == (inject_Z m0 - y) * u)%Q).
    { unfold y. setoid_replace (Qabs q) with (Qabs q * (s * u))%Q at 1 by (rewrite Esu; ring). ring. }
    rewrite E. apply Qabs_Qle_condition. split; nra. }
  destruct (m0 =? pow10 n) eqn:C; intros H; inversion H; subst m x; clear H.
  - apply Z.eqb_eq in C. split.
    + split; [lia|]. unfold pow10. apply Z.pow_lt_mono_r; lia.
    + rewrite (Qpow10_split (x0 + 1 - Z.of_nat n + 1) (x0 - Z.of_nat n + 1) 1) by lia. fold u. change (Qpow10 1) with 10%Q.
      assert (E10 : (inject_Z (pow10 (n - 1)) * (u * 10) == inject_Z m0 * u)%Q).
      { rewrite C, !pow10_Qpow10. rewrite (Qpow10_split (Z.of_nat n) (Z.of_nat (n - 1)) 1) by lia. change (Qpow10 1) with 10%Q. ring. }
      rewrite E10. apply Qabs_Qle_condition in Close0. apply Qabs_Qle_condition. split; lra.
  - apply Z.eqb_neq in C. split; [lia|]. fold u. exact Close0.
Qed.

Local Arguments digit_char : simpl never.
Local Arguments is_digit : simpl never.
Local Arguments digit_val : simpl never.
Local Opaque digit_char.

Lemma dval_cons0 ds : dval (0 :: ds) = dval ds.
Proof. change (0 :: ds) with ([0] ++ ds). rewrite dval_app. unfold dval at 1. simpl. lia. Qed.

Lemma exp_chars_shape upper x : exists e sg xd,
  exp_chars upper x = e :: sg :: dchars xd /\
  (Ascii.eqb e "e"%char || Ascii.eqb e "E"%char = true) /\
  Forall digit xd /\ xd <> [] /\
  (Ascii.eqb sg "-"%char || Ascii.eqb sg "+"%char = true) /\
  (if Ascii.eqb sg "-"%char then - dval xd else dval xd) = x /\
  is_digit e = false.
Proof.
  unfold exp_chars.
  destruct (zdigits_spec (Z.abs x) ltac:(lia)) as (V & F & NE).
  set (ds := zdigits (Z.abs x)) in *.
  set (xd := if (length ds <? 2)%nat then 0 :: ds else ds).
  assert (Fx : Forall digit xd) by (unfold xd; destruct (length ds <? 2)%nat; [constructor; [unfold digit; lia|exact F]|exact F]).
  assert (Vx : dval xd = Z.abs x) by (unfold xd; destruct (length ds <? 2)%nat; [rewrite dval_cons0|]; exact V).
  assert (Nx : xd <> []) by (unfold xd; destruct (length ds <? 2)%nat; [discriminate|exact NE]).
  exists (if upper then "E"%char else "e"%char), (if x <? 0 then "-"%char else "+"%char), xd.
  split; [reflexivity|]. split; [destruct upper; reflexivity|]. split; [exact Fx|]. split; [exact Nx|].
  split; [destruct (x <? 0); reflexivity|]. split; [|destruct upper; reflexivity].
  destruct (x <? 0) eqn:E; simpl Ascii.eqb; cbv iota; rewrite Vx; [apply Z.ltb_lt in E|apply Z.ltb_ge in E]; lia.
Qed.

(* the text of mantissa digits m (p+1 digits) and exponent x denotes m / 10^p * 10^x *)
Lemma sci_body_parse upper neg m x p k : 0 <= m < pow10 (S p) ->
  parse_sci_chars (repeat sp k ++ sci_body upper neg m x p)
  = Some ((if neg then -(1) else 1) * (inject_Z m / inject_Z (pow10 p)) * Qpow10 x)%Q.
Proof.
  intros Hm. destruct (fixdigs_spec (S p) m) as (F1 & F2 & F3).
  rewrite Z.mod_small in F2 by exact Hm.
  destruct (fixdigs (S p) m) as [|d r] eqn:Efd; [discriminate|].
  simpl length in F1. assert (Lr : length r = p) by lia.
  pose proof (Forall_inv F3) as Hd. pose proof (Forall_inv_tail F3) as Hr.
  destruct (digit_char_facts d Hd) as (_ & _ & Nsp & Nminus).
  destruct (exp_chars_shape upper x) as (e & sg & xd & Ee & He & Fx & Nx & Hs & Hx & Hde).
  unfold sci_body. rewrite Efd, Ee.
  set (mant := match p with O => [] | S _ => "."%char :: dchars r end).
  set (tail := e :: sg :: dchars xd).
  assert (S1 : span_digits false (dchars [d] ++ mant ++ tail) = ([d], mant ++ tail)).
  { apply span_digits_dchars; [constructor; [exact Hd|constructor]|]. unfold mant, tail. destruct p; simpl; auto. }
  assert (S2 : span_digits false (dchars r ++ tail) = (r, tail)).
  { apply span_digits_dchars; [exact Hr|]. unfold tail. simpl. auto. }
  assert (S3 : span_digits false (dchars xd ++ []) = (xd, [])) by (apply span_digits_dchars; [exact Fx|exact I]).
  rewrite app_nil_r in S3.
  assert (Body : forall sgn : bool,
    (let '(ip, s3) := span_digits false (digit_char d :: mant ++ tail) in
     match ip with
     | [_] =>
       let '(fp, s4) := match s3 with
                        | c :: r0 => if Ascii.eqb c "."%char then span_digits false r0 else ([], s3)
                        | [] => ([], [])
                        end in
       match s4 with
       | e0 :: sg0 :: r0 =>
           if Ascii.eqb e0 "e"%char || Ascii.eqb e0 "E"%char then
             let '(xd0, s5) := span_digits false r0 in
             match xd0, s5 with
             | _ :: _, [] =>
                 if Ascii.eqb sg0 "-"%char || Ascii.eqb sg0 "+"%char then
                   Some ((if sgn then -(1) else 1) * (inject_Z (dval (ip ++ fp)) / inject_Z (pow10 (length fp)))
                         * Qpow10 (if Ascii.eqb sg0 "-"%char then - dval xd0 else dval xd0))%Q
                 else None
             | _, _ => None
             end
           else None
       | _ => None
       end
     | _ => None
     end) = Some ((if sgn then -(1) else 1) * (inject_Z m / inject_Z (pow10 p)) * Qpow10 x)%Q).
  { intros sgn. change (digit_char d :: mant ++ tail) with (dchars [d] ++ mant ++ tail). rewrite S1.
    unfold mant. destruct p as [|p'].
    - destruct r; [|discriminate]. cbn [app]. unfold tail at 1.
      assert (Ne : Ascii.eqb e "."%char = false).
      { destruct (orb_prop _ _ He) as [E|E]; apply Ascii.eqb_eq in E; subst; reflexivity. }
      rewrite Ne. unfold tail. rewrite He. rewrite S3.
      destruct xd as [|x0 xd']; [congruence|]. rewrite Hs, Hx. simpl app. 
      unfold dval at 1. simpl fold_left. unfold dval in F2. simpl in F2. rewrite F2. reflexivity.
    - cbn [app]. rewrite Ascii.eqb_refl. rewrite S2. unfold tail. rewrite He, S3.
      destruct xd as [|x0 xd']; [congruence|]. rewrite Hs, Hx.
      change ([d] ++ r) with (d :: r). rewrite F2, Lr. reflexivity. }
  unfold parse_sci_chars. rewrite skip_spaces_repeat.
  destruct neg.
  - cbn [app]. rewrite skip_spaces_id by reflexivity. simpl Ascii.eqb. cbv iota. exact (Body true).
  - cbn [app]. rewrite skip_spaces_id by exact Nsp. cbv iota. rewrite Nminus. exact (Body false).
Qed.

(* format(q, 'w.pe') / 'w.pE' for q <> 0: the text reads back as a decimal z = d.ddd * 10^x with p+1 significant digits
   (10^x <= |z| < 10^(x+1)) within half a unit of its last digit of q *)
Theorem fmt_e_value upper q w p : ~ (q == 0)%Q ->
  exists z x, parse_sci (fmt_e upper (Fin q) w p) = Some z /\
    (Qabs (z - q) <= (1#2) * Qpow10 (x - Z.of_nat p))%Q /\ (Qpow10 x <= Qabs z /\ Qabs z < Qpow10 (x + 1))%Q.
Proof.
  intros Hq. unfold parse_sci, fmt_e, chars. rewrite list_ascii_of_string_of_list_ascii.
  unfold fmt_e_chars, lpad.
  assert (E0 : Qeq_bool q 0 = false). { destruct (Qeq_bool q 0) eqn:E; [apply Qeq_bool_iff in E; contradiction|reflexivity]. }
  rewrite E0. destruct (sig_round q (S p)) as [m x] eqn:SR.
  destruct (sig_round_spec q (S p) Hq ltac:(lia) m x SR) as ([M1 M2] & C).
  replace (S p - 1)%nat with p in M1 by lia.
  replace (x - Z.of_nat (S p) + 1) with (x - Z.of_nat p) in C by lia.
  pose proof (pow10_pos p) as Pp.
  exists ((if qneg q then -(1) else 1) * (inject_Z m / inject_Z (pow10 p)) * Qpow10 x)%Q, x.
  split; [apply sci_body_parse; lia|].
  set (u := Qpow10 (x - Z.of_nat p)) in *. assert (Pu : (0 < u)%Q) by apply Qpow10_pos.
  assert (Eu : (inject_Z m / inject_Z (pow10 p) * Qpow10 x == inject_Z m * u)%Q).
  { unfold u. rewrite (Qpow10_split (x - Z.of_nat p) x (- Z.of_nat p)) by lia. rewrite Qpow10_inv, <- pow10_Qpow10.
    assert (0 < inject_Z (pow10 p))%Q by (change 0%Q with (inject_Z 0); rewrite <- Zlt_Qlt; exact Pp). field. lra. }
  pose proof (Qabs_of_sign q) as As.
  assert (Mq1 : (inject_Z (pow10 p) <= inject_Z m)%Q) by (rewrite <- Zle_Qle; exact M1).
  assert (Mq2 : (inject_Z m < inject_Z (pow10 (S p)))%Q) by (rewrite <- Zlt_Qlt; exact M2).
  assert (Ex : (Qpow10 x == inject_Z (pow10 p) * u)%Q).
  { unfold u. rewrite pow10_Qpow10. rewrite <- (Qpow10_split x (Z.of_nat p) (x - Z.of_nat p)) by lia. reflexivity. }
  assert (Ex1 : (Qpow10 (x + 1) == inject_Z (pow10 (S p)) * u)%Q).
  { unfold u. rewrite pow10_Qpow10. rewrite <- (Qpow10_split (x + 1) (Z.of_nat (S p)) (x - Z.of_nat p)) by lia. reflexivity. }
  apply Qabs_Qle_condition in C. destruct C as [C1 C2].
  assert (Pm : (0 < inject_Z m)%Q). { assert (0 < inject_Z (pow10 p))%Q by (change 0%Q with (inject_Z 0); rewrite <- Zlt_Qlt; exact Pp). lra. }
  destruct (qneg q).
  - assert (Ez : (- (1) * (inject_Z m / inject_Z (pow10 p)) * Qpow10 x == - (inject_Z m * u))%Q) by (rewrite <- Eu; ring).
    rewrite Ez. split.
    + apply Qabs_Qle_condition. split; lra.
    + rewrite Qabs_opp, Qabs_pos by nra. rewrite Ex, Ex1. split; nra.
  - assert (Ez : (1 * (inject_Z m / inject_Z (pow10 p)) * Qpow10 x == inject_Z m * u)%Q) by (rewrite <- Eu; ring).
    rewrite Ez. split.
    + apply Qabs_Qle_condition. split; lra.
    + rewrite Qabs_pos by nra. rewrite Ex, Ex1. split; nra.
Qed.
