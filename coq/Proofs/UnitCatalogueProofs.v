(* Proofs/UnitCatalogueProofs.v - facts about the REGENERATED catalogue (Gen/UnitCatalogue.v): re-proved on every run *)
From Coq Require Import QArith List ZArith Bool String Ascii Lia Lqa.
From Verif Require Import Base.Flat Model.UnitAlg Proofs.UnitAlgProofs Model.UnitReader Proofs.UnitReaderProofs Gen.UnitCatalogue Gen.UnitReference.
Import ListNotations.
Open Scope string_scope.
Open Scope Q_scope.

Lemma gen_pint_wf : wf_pint gen_pint = true.
Proof. vm_compute. reflexivity. Qed.

(* the live registry gives one meaning per long unit name, and no unit has factor 0 *)
Lemma gen_tables_wf : table_wf gen_tables.
Proof. apply wf_pint_sound. exact gen_pint_wf. Qed.

Lemma gen_tables_nonzero : forall s p, t_parse gen_tables s = Some p -> ~ pu_fac p == 0.
Proof. intros s p H. eapply wf_pint_nonzero; [exact gen_pint_wf|exact H]. Qed.

(* every parameter of the generated table, every unit of its catalogue for which [pair_good] computes to true,
   EVERY value: writing "x u" is writing the equivalent value in the preferred unit *)
Lemma gen_catalogue_reads name isint enum pref units u sp st x y :
  In (name, isint, false, enum, pref, UEnum pref) gen_params ->
  assoc_str enum gen_enums = Some units -> In u units ->
  pair_good gen_tables pref u = true ->
  s_currency sp = false -> p_cur st = UEnum pref ->
  exists o n, t_parse gen_tables pref = Some o /\ t_parse gen_tables u = Some n /\
    (y == convert n o x -> rres_equiv (read_param gen_tables sp st x (Some u)) (read_param gen_tables sp st y None)).
Proof.
  intros _ _ _ G Hc Hcur.
  exact (pair_good_reads gen_tables sp st pref u x y gen_tables_wf gen_tables_nonzero Hc Hcur G).
Qed.

(* position of the first parameter row with a given name (used by the non-vacuity examples) *)
Fixpoint param_index (name : string) (l : list (string * bool * bool * string * string * uref)) : nat :=
  match l with
  | [] => O
  | (n, _, _, _, _, _) :: r => if String.eqb n name then O else S (param_index name r)
  end.

(* the live registry gives every unit of the frozen independent reference its documented meaning (to 1e-9):
   a unit redefined in GEOPHIRES3_newunits.txt (MMBTU, cents, KUSD ...) or in pint breaks this proof *)
Lemma gen_reference_forallb : forallb (ref_entry_ok (1 # 1000000000) gen_tables) ref_units = true.
Proof. vm_compute. reflexivity. Qed.

Lemma gen_reference_agrees : forall e, In e ref_units -> ref_entry_ok (1 # 1000000000) gen_tables e = true.
Proof. apply forallb_forall. exact gen_reference_forallb. Qed.
