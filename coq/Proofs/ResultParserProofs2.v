(* Proofs/ResultParserProofs2.v - round 2: _get_profile_lines, header reconstruction, the carbon view,
   _parse_number against printed numerals. *)
From Coq Require Import String Ascii List ZArith NArith QArith Bool Lia.
From Verif Require Import Base.Flat Model.ResultParser Proofs.ResultParserProofs.
Import ListNotations.
Open Scope string_scope.

Arguments all_ws s /.
Arguments ws_free s /.

(* ------------------------------------------------------------------ str.split(sep): the first occurrence *)

(* sep does not start inside [pre] when [pre ++ sep ++ rest] is scanned from the left *)
Definition first_at (sep pre rest : string) : Prop :=
  forall a b, pre = a ++ b -> b <> "" -> prefixb sep (b ++ sep ++ rest) = false.

Lemma first_at_tail : forall sep c p rest, first_at sep (String c p) rest -> first_at sep p rest.
Proof. intros sep c p rest H a b E Hb. apply (H (String c a) b); [simpl; now rewrite E | assumption]. Qed.

Lemma split_first : forall a o pre rest, first_at (String a o) pre rest ->
  split_from (String a o) 0 (pre ++ String a o ++ rest) = pre :: split_from (String a o) 0 rest.
Proof.
  induction pre; intros rest H.
  - change ("" ++ String a o ++ rest) with (String a o ++ rest). now rewrite split_hit.
  - change (String a0 pre ++ String a o ++ rest) with (String a0 (pre ++ String a o ++ rest)).
    rewrite split_step.
    change (String a0 (pre ++ String a o ++ rest)) with (String a0 pre ++ String a o ++ rest).
    rewrite (H "" (String a0 pre)) by (auto; discriminate).
    rewrite IHpre by (eapply first_at_tail; eauto). reflexivity.
Qed.

(* text of a block from its lines: l1 \n l2 \n ... \n ln *)
Fixpoint join_lines (l : string) (rest : list string) : string :=
  match rest with [] => l | r :: rs => l ++ NL ++ join_lines r rs end.

Lemma split_char_join : forall rest l,
  Forall (fun x => all_chars (fun c => negb (Ascii.eqb c NLc)) x = true) (l :: rest) ->
  split_char NLc (join_lines l rest) = l :: rest.
Proof.
  induction rest; intros l H.
  - simpl. apply split_char_none. now inversion H.
  - inversion H; subst. simpl join_lines. change (NL ++ join_lines a rest) with (String NLc (join_lines a rest)).
    rewrite split_char_app by assumption. f_equal. now apply IHrest.
Qed.

(* _get_profile_lines: the lines between the banner and the first empty line *)
Lemma profile_lines_found : forall name pre body post,
  let banner := "*  " ++ name ++ "  *" in
  first_at banner pre (body ++ NL ++ NL ++ post) ->
  contains banner (body ++ NL ++ NL ++ post) = false ->
  first_at (NL ++ NL) body post ->
  get_profile_lines name (pre ++ banner ++ body ++ NL ++ NL ++ post) = Some (split_char NLc body).
Proof.
  intros name pre body post banner H1 H2 H3. unfold get_profile_lines, split_str. fold banner.
  assert (Eb : exists o, banner = String "*"%char o) by (unfold banner; simpl; eauto).
  destruct Eb as [o Eb]. rewrite Eb in *.
  rewrite split_first by assumption. rewrite split_no_occurrence by assumption.
  change (NL ++ NL) with (String NLc NL) in *.
  replace (body ++ NL ++ NL ++ post) with (body ++ String NLc NL ++ post) by reflexivity.
  rewrite split_first by assumption. reflexivity.
Qed.

Lemma profile_lines_absent : forall name text,
  contains ("*  " ++ name ++ "  *") text = false -> get_profile_lines name text = None.
Proof.
  intros name text H. unfold get_profile_lines, split_str. now rewrite split_no_occurrence.
Qed.

(* ------------------------------------------------------------------ header reconstruction *)

Lemma set_nth_length : forall n v l l', set_nth n v l = Some l' -> List.length l' = List.length l.
Proof.
  induction n; intros v l l' H; destruct l; simpl in H; try discriminate.
  - now inversion H.
  - destruct (set_nth n v l) eqn:E; [| discriminate]. inversion H. simpl. f_equal. eauto.
Qed.

Lemma header_col_length : forall idx idxc col hs hs', header_col idx idxc col hs = Some hs' ->
  List.length hs' = List.length hs.
Proof.
  intros idx idxc col hs hs' H. unfold header_col in H.
  destruct (nth_error hs 0); [| discriminate]. destruct (nth_error hs 1); [| discriminate].
  match type of H with match nth_error hs ?j with _ => _ end = _ => destruct (nth_error hs j); [| discriminate] end.
  eapply set_nth_length; eauto.
Qed.

Lemma header_cols_length : forall cols idx idxc hs hs', header_cols idx idxc cols hs = Some hs' ->
  List.length hs' = List.length hs.
Proof.
  induction cols; intros idx idxc hs hs' H; simpl in H; [now inversion H |].
  destruct (header_col idx idxc a hs) eqn:E; [| discriminate].
  rewrite (IHcols _ _ _ _ H). eapply header_col_length; eauto.
Qed.

Lemma header_lines_length_from : forall hls idx hs hs', (0 < idx)%nat -> header_lines idx hls hs = Some hs' ->
  List.length hs' = List.length hs.
Proof.
  induction hls; intros idx hs hs' Hi H; simpl in H; [now inversion H |].
  destruct idx; [lia |].
  destruct (header_cols (S idx) 0 (tl (resplit2 a)) hs) eqn:E; [| discriminate].
  rewrite (IHhls _ _ _ (Nat.lt_0_succ _) H). eapply header_cols_length; eauto.
Qed.

(* one title per column of the first heading line, whatever the other heading lines add to them *)
Lemma header_count : forall h1 rest hs,
  header_lines 0 (h1 :: rest) [] = Some hs -> List.length hs = List.length (tl (resplit2 h1)).
Proof.
  intros h1 rest hs H. simpl in H.
  destruct (header_cols 0 0 (tl (resplit2 h1)) (map (fun _ => "") (tl (resplit2 h1)))) eqn:E; [| discriminate].
  rewrite (header_lines_length_from _ _ _ _ (Nat.lt_0_succ _) H).
  rewrite (header_cols_length _ _ _ _ _ E). apply map_length.
Qed.

(* ------------------------------------------------------------------ the carbon view *)

Lemma pick_cols_spec : forall idx row vs, pick_cols idx row = Some vs -> vs = map (fun i => nth i row MNone) idx.
Proof.
  induction idx; intros row vs H; simpl in H; [now inversion H |].
  destruct (nth_error row a) eqn:E; [| discriminate]. destruct (pick_cols idx row) eqn:E2; [| discriminate].
  inversion H. simpl. f_equal; [symmetry; now apply nth_error_nth | now apply IHidx].
Qed.

Lemma pick_rows_spec : forall idx rows r, pick_rows idx rows = Some r ->
  r = map (fun row => map (fun i => nth i row MNone) idx) rows.
Proof.
  induction rows; intros r H; simpl in H; [now inversion H |].
  destruct (pick_cols idx a) eqn:E; [| discriminate]. destruct (pick_rows idx rows) eqn:E2; [| discriminate].
  inversion H. simpl. f_equal; [now apply pick_cols_spec | now apply IHrows].
Qed.

Lemma pick_cols_defined : forall idx row, (forall i, In i idx -> (i < List.length row)%nat) -> exists vs, pick_cols idx row = Some vs.
Proof.
  induction idx; intros row H; simpl; [eauto |].
  destruct (nth_error row a) eqn:E; [| apply nth_error_None in E; specialize (H a (or_introl eq_refl)); lia].
  destruct (IHidx row) as [vs ->]; [intros; apply H; now right | eauto].
Qed.

Lemma pick_rows_defined : forall idx rows,
  (forall row, In row rows -> forall i, In i idx -> (i < List.length row)%nat) -> exists r, pick_rows idx rows = Some r.
Proof.
  induction rows; intros H; simpl; [eauto |].
  destruct (pick_cols_defined idx a) as [vs ->]; [apply H; now left |].
  destruct IHrows as [r ->]; [intros; eapply H; eauto; now right | eauto].
Qed.

(* the view, when there is one, is exactly the listed columns of every row of the revenue table, rows in order *)
Lemma carbon_view_spec : forall cpi idx rows r,
  carbon_view cpi idx rows = Some (Some r) ->
  r = map (fun row => map (fun i => nth i row MNone) idx) rows /\ List.length r = List.length rows
  /\ existsb (fun row => mval_nonzero (nth cpi row MNone)) rows = true.
Proof.
  intros cpi idx rows r H. unfold carbon_view in H.
  assert (Hne : rows <> []) by (intro; subst; discriminate).
  destruct (pick_rows [cpi] rows) as [col|] eqn:Ec; [| destruct rows; [contradiction | discriminate]].
  destruct (existsb (fun r1 => mval_nonzero (hd MNone r1)) col) eqn:Ee; [| destruct rows; [contradiction | discriminate]].
  assert (Hp : pick_rows idx rows = Some r) by (destruct rows; [contradiction | now injection H]).
  apply pick_rows_spec in Hp. subst r. split; [reflexivity |]. split; [apply map_length |].
  apply pick_rows_spec in Ec. subst col. rewrite existsb_exists in *. destruct Ee as (x & Hx & Hnz).
  apply in_map_iff in Hx. destruct Hx as (row & <- & Hrow). exists row. split; [assumption | exact Hnz].
Qed.

Lemma existsb_map : forall (A B : Type) (f : B -> bool) (g : A -> B) l, existsb f (map g l) = existsb (fun x => f (g x)) l.
Proof. induction l; simpl; [reflexivity | now rewrite IHl]. Qed.

(* and it is absent exactly when every carbon price is zero *)
Lemma carbon_view_absent : forall cpi idx rows,
  (forall row, In row rows -> (cpi < List.length row)%nat) ->
  existsb (fun row => mval_nonzero (nth cpi row MNone)) rows = false ->
  carbon_view cpi idx rows = Some None.
Proof.
  intros cpi idx rows Hl He. unfold carbon_view.
  destruct (pick_rows_defined [cpi] rows) as [col Ec].
  { intros row Hr i [<- | []]. now apply Hl. }
  rewrite Ec. pose proof (pick_rows_spec _ _ _ Ec) as Es. subst col.
  rewrite existsb_map. simpl. rewrite He. now destruct rows.
Qed.

(* ------------------------------------------------------------------ _parse_number on printed numerals *)

Ltac ten d H := do 10 (destruct d as [|d]; [try (simpl; intuition (discriminate || reflexivity || lia)) |]); simpl in H; try discriminate; try lia.

Lemma digit_char_facts : forall d, (d < 10)%nat ->
  is_digit (digit_char d) = true /\ digit_val (digit_char d) = Z.of_nat d /\ is_ws (digit_char d) = false
  /\ Ascii.eqb (digit_char d) ","%char = false /\ Ascii.eqb (digit_char d) "."%char = false
  /\ Ascii.eqb (digit_char d) "_"%char = false /\ Ascii.eqb (digit_char d) "-"%char = false
  /\ Ascii.eqb (digit_char d) "+"%char = false /\ Ascii.eqb (digit_char d) "N"%char = false.
Proof.
  intros d H. do 10 (destruct d as [|d]; [vm_compute; repeat split; reflexivity |]). lia.
Qed.

Opaque digit_char.

Lemma all_digits_cons : forall d r, all_digits (d :: r) = true -> (d < 10)%nat /\ all_digits r = true.
Proof. intros d r H. unfold all_digits in *. simpl in H. apply andb_true_iff in H. destruct H as [H1 H2]. apply Nat.ltb_lt in H1. auto. Qed.

Lemma all_digits_app : forall a b, all_digits (a ++ b)%list = all_digits a && all_digits b.
Proof. intros. unfold all_digits. apply forallb_app. Qed.

Lemma digits_str_app : forall a b, digits_str (a ++ b)%list = digits_str a ++ digits_str b.
Proof. induction a; simpl; intros; [reflexivity | now rewrite IHa]. Qed.

Lemma digits_ws_free : forall ds, all_digits ds = true -> ws_free (digits_str ds) = true.
Proof.
  induction ds; intros H; [reflexivity |]. apply all_digits_cons in H. destruct H as [Hd Hr].
  simpl. destruct (digit_char_facts a Hd) as (_ & _ & -> & _). simpl. auto.
Qed.

Lemma digits_no_char : forall ds c, all_digits ds = true -> is_digit c = false ->
  all_chars (fun x => negb (Ascii.eqb x c)) (digits_str ds) = true.
Proof.
  induction ds; intros c H Hc; [reflexivity |]. apply all_digits_cons in H. destruct H as [Hd Hr].
  simpl. rewrite (IHds c Hr Hc), andb_true_r. apply negb_true_iff.
  destruct (Ascii.eqb (digit_char a) c) eqn:E; [| reflexivity].
  apply Ascii.eqb_eq in E. subst c. destruct (digit_char_facts a Hd) as (Hx & _). congruence.
Qed.

(* what may follow a run of digits: nothing, or a character that is neither a digit nor '_' *)
Definition stops (rest : string) : Prop :=
  match rest with "" => True | String c _ => is_digit c = false /\ Ascii.eqb c "_"%char = false end.

Lemma scan_digits_run : forall ds st acc cnt rest, all_digits ds = true -> (st < 2)%nat -> stops rest ->
  scan_digits st acc cnt (digits_str ds ++ rest) = Some (digits_val acc ds, (cnt + Z.of_nat (List.length ds))%Z, rest).
Proof.
  induction ds; intros st acc cnt rest H Hst Hs.
  - simpl. rewrite Z.add_0_r. destruct rest as [|c r].
    + destruct st as [|[|st]]; [reflexivity | reflexivity | lia].
    + simpl in Hs. destruct Hs as [H1 H2]. simpl. rewrite H1, H2. destruct st as [|[|st]]; [reflexivity | reflexivity | lia].
  - apply all_digits_cons in H. destruct H as [Hd Hr].
    destruct (digit_char_facts a Hd) as (Hx & Hv & _).
    change (digits_str (a :: ds) ++ rest) with (String (digit_char a) (digits_str ds ++ rest)).
    simpl scan_digits. rewrite Hx, Hv. rewrite IHds by (auto; lia).
    f_equal. f_equal. f_equal. simpl List.length. lia.
Qed.

Lemma strip_ws_free : forall s, ws_free s = true -> strip s = s.
Proof.
  intros s H. unfold strip. destruct s as [|c r]; [reflexivity |].
  assert (Hc : is_ws c = false) by (simpl in H; apply andb_true_iff in H; destruct H as [H _]; now apply negb_true_iff in H).
  rewrite lstrip_token_head by assumption. now apply rstrip_token.
Qed.

Lemma contains_char_absent : forall c s, all_chars (fun x => negb (Ascii.eqb x c)) s = true -> contains (String c "") s = false.
Proof.
  induction s; intros H; [reflexivity |]. simpl in H. apply andb_true_iff in H. destruct H as [H1 H2].
  apply negb_true_iff in H1. simpl. rewrite Ascii.eqb_sym, H1. now apply IHs.
Qed.

Lemma groups_unseparated : forall gs g, all_digits g = true -> forallb all_digits gs = true ->
  remove_char ","%char (groups_str g gs) = digits_str (g ++ concat gs)%list.
Proof.
  induction gs; intros g Hg Hgs; simpl.
  - rewrite !app_nil_r_s, app_nil_r. apply remove_char_absent, digits_no_char; [assumption | reflexivity].
  - simpl in Hgs. apply andb_true_iff in Hgs. destruct Hgs as [Ha Hr].
    rewrite remove_char_app. simpl remove_char. rewrite IHgs by assumption.
    rewrite (remove_char_absent _ (digits_str g)) by (apply digits_no_char; [assumption | reflexivity]).
    now rewrite <- digits_str_app.
Qed.

Definition sign_of (neg : bool) : Z := if neg then (-1)%Z else 1%Z.

Section Numerals.
  Variables (neg : bool) (g : list nat) (gs : list (list nat)).
  Hypothesis Hg : all_digits g = true.
  Hypothesis Hgs : forallb all_digits gs = true.
  Hypothesis Hne : g <> [].

  Let ds := (g ++ concat gs)%list.

  Lemma ds_digits : all_digits ds = true.
  Proof.
    unfold ds. rewrite all_digits_app, Hg. simpl. clear Hne. induction gs; [reflexivity |].
    simpl in *. apply andb_true_iff in Hgs. destruct Hgs as [Ha Hr]. rewrite all_digits_app, Ha. simpl. auto.
  Qed.

  Lemma ds_head : exists d r, ds = d :: r /\ (d < 10)%nat.
  Proof.
    unfold ds. destruct g as [|d r]; [contradiction |]. exists d, (r ++ concat gs)%list. split; [reflexivity |].
    apply all_digits_cons in Hg. tauto.
  Qed.

  Lemma not_na : forall tail, String.eqb ((if neg then "-" else "") ++ groups_str g gs ++ tail) "N/A" = false.
  Proof.
    intros tail. destruct neg; [reflexivity |]. destruct g as [|d r]; [contradiction |].
    apply all_digits_cons in Hg. destruct Hg as [Hd _]. destruct (digit_char_facts d Hd) as (_ & _ & _ & _ & _ & _ & _ & _ & HN).
    destruct gs; simpl; now rewrite HN.
  Qed.

  Lemma unseparated : forall tail, all_chars (fun x => negb (Ascii.eqb x ","%char)) tail = true ->
    remove_char ","%char ((if neg then "-" else "") ++ groups_str g gs ++ tail) = (if neg then "-" else "") ++ digits_str ds ++ tail.
  Proof.
    intros tail Ht. rewrite !remove_char_app, groups_unseparated by assumption.
    rewrite (remove_char_absent _ tail Ht). now destruct neg.
  Qed.

  Lemma read_sign_digits : forall rest, read_sign ((if neg then "-" else "") ++ digits_str ds ++ rest) = (sign_of neg, digits_str ds ++ rest).
  Proof.
    intros rest. destruct neg; [reflexivity |]. destruct ds_head as (d & r & E & Hd). rewrite E.
    destruct (digit_char_facts d Hd) as (_ & _ & _ & _ & _ & _ & Hm & Hp & _).
    simpl. unfold read_sign.
    destruct (digit_char d) as [b0 b1 b2 b3 b4 b5 b6 b7] eqn:Ec.
    destruct b0, b1, b2, b3, b4, b5, b6, b7; try reflexivity; simpl in Hm, Hp; discriminate.
  Qed.

  (* a figure without a point is the integer it spells *)
  Lemma parse_integer : parse_number (render_number neg g gs []) = MInt (sign_of neg * digits_val 0 ds).
  Proof.
    unfold render_number, parse_number. rewrite not_na.
    rewrite unseparated by reflexivity. rewrite !app_nil_r_s.
    assert (Hw : ws_free ((if neg then "-" else "") ++ digits_str ds) = true).
    { pose proof (digits_ws_free _ ds_digits) as Hd. unfold ws_free in *. rewrite all_chars_app, Hd. now destruct neg. }
    rewrite contains_char_absent.
    2:{ rewrite all_chars_app, (digits_no_char _ _ ds_digits) by reflexivity. now destruct neg. }
    unfold py_int. rewrite strip_ws_free by assumption.
    rewrite <- (app_nil_r_s (digits_str ds)) at 1. rewrite read_sign_digits.
    rewrite scan_digits_run by (auto using ds_digits; simpl; auto).
    destruct ds_head as (d & r & E & _). rewrite E. simpl List.length.
    replace (0 <? 0 + Z.of_nat (S (List.length r)))%Z with true by (symmetry; apply Z.ltb_lt; lia). reflexivity.
  Qed.

  (* a figure with p >= 1 decimals is the decimal it spells: mantissa = all digits, exponent = -p *)
  Lemma parse_decimal : forall f fs, all_digits (f :: fs) = true ->
    parse_number (render_number neg g gs (f :: fs))
    = MFlt (sign_of neg * (digits_val 0 ds * 10 ^ Z.of_nat (List.length (f :: fs)) + digits_val 0 (f :: fs)))
           (- Z.of_nat (List.length (f :: fs))).
  Proof.
    intros f fs Hf. set (F := f :: fs) in *. unfold render_number, parse_number. rewrite not_na.
    assert (Hfc : forall c, is_digit c = false -> Ascii.eqb "."%char c = false ->
                  all_chars (fun x => negb (Ascii.eqb x c)) ("." ++ digits_str F) = true).
    { intros c Hc Hp. change ("." ++ digits_str F) with (String "."%char (digits_str F)).
      change (all_chars (fun x => negb (Ascii.eqb x c)) (String "."%char (digits_str F)))
        with (negb (Ascii.eqb "."%char c) && all_chars (fun x => negb (Ascii.eqb x c)) (digits_str F)).
      rewrite Hp. apply andb_true_iff. split; [reflexivity | now apply digits_no_char]. }
    change (match F with [] => "" | _ :: _ => "." ++ digits_str F end) with ("." ++ digits_str F).
    rewrite unseparated by (apply Hfc; reflexivity).
    assert (Hcont : contains "." ((if neg then "-" else "") ++ digits_str ds ++ "." ++ digits_str F) = true).
    { rewrite <- app_assoc_s. apply contains_mid. }
    rewrite Hcont. unfold py_float.
    assert (Hw : ws_free ((if neg then "-" else "") ++ digits_str ds ++ "." ++ digits_str F) = true).
    { pose proof (digits_ws_free _ ds_digits) as Hd. pose proof (digits_ws_free _ Hf) as Hd2. unfold ws_free in *.
      rewrite !all_chars_app, Hd, Hd2. now destruct neg. }
    rewrite strip_ws_free by assumption. rewrite read_sign_digits.
    rewrite scan_digits_run by (auto using ds_digits; simpl; auto).
    change ("." ++ digits_str F) with (String "."%char (digits_str F)). cbv iota.
    rewrite <- (app_nil_r_s (digits_str F)). rewrite scan_digits_run by (auto; simpl; auto).
    destruct ds_head as (d & r & E & _). rewrite E. simpl List.length.
    simpl read_exp. cbv iota.
    match goal with |- context [(0 <? ?x)%Z] => destruct (0 <? x)%Z eqn:Q; [| apply Z.ltb_ge in Q; lia] end.
    rewrite !Z.add_0_l. first [reflexivity | f_equal; lia].
  Qed.
End Numerals.

Lemma parse_na : parse_number "N/A" = MNone.
Proof. reflexivity. Qed.

(* ------------------------------------------------------------------ string-valued fields *)

Lemma string_field_roundtrip : forall name indent pad v,
  head_not_space name -> (2 <= indent + pad)%nat ->
  contains (name ++ ":") (spaces pad ++ v ++ NL) = false ->
  solid v -> (exists c r, v = String c r /\ is_ws c = false) ->
  all_chars (fun c => negb (Ascii.eqb c NLc)) v = true ->
  field_of_line name true (spaces indent ++ name ++ ":" ++ spaces pad ++ v ++ NL) = MR (MStr v) None.
Proof.
  intros name indent pad v Hn Hw Hc Hs (c & r & -> & Hcw) Hnl. unfold field_of_line.
  rewrite cut_label by assumption.
  rewrite !remove_char_app, remove_nl_spaces, (remove_char_absent _ _ Hnl).
  change (remove_char NLc NL) with "". rewrite app_nil_r_s.
  unfold rm2. rewrite rm2_leading_spaces by assumption.
  rewrite <- (app_nil_r_s (String c r)) at 1. rewrite Hs. simpl rm2_from. now rewrite app_nil_r_s.
Qed.


(* ------------------------------------------------------------------ f.readlines() *)

Lemma readlines_line : forall l rest, all_chars (fun c => negb (Ascii.eqb c NLc)) l = true ->
  readlines (l ++ NL ++ rest) = (l ++ NL) :: readlines rest.
Proof.
  induction l; intros rest H.
  - simpl. reflexivity.
  - simpl in H. apply andb_true_iff in H. destruct H as [H1 H2]. apply negb_true_iff in H1.
    change (String a l ++ NL ++ rest) with (String a (l ++ NL ++ rest)).
    change (readlines (String a (l ++ NL ++ rest)))
      with (if Ascii.eqb a NLc then NL :: readlines (l ++ NL ++ rest)
            else match l ++ NL ++ rest with "" => [String a ""] | _ => cons_head a (readlines (l ++ NL ++ rest)) end).
    rewrite H1, (IHl rest H2).
    destruct (l ++ NL ++ rest) eqn:E; [destruct l; discriminate | reflexivity].
Qed.

(* the report handed to the kernel line by line is read back as those lines, each with its line break *)
Lemma readlines_join : forall ls, Forall (fun l => all_chars (fun c => negb (Ascii.eqb c NLc)) l = true) ls ->
  readlines (join_nl ls) = map (fun l => l ++ NL) ls.
Proof.
  induction ls; intros H; [reflexivity |]. inversion H; subst.
  change (join_nl (a :: ls)) with (a ++ NL ++ join_nl ls). rewrite readlines_line by assumption. simpl. f_equal. auto.
Qed.
