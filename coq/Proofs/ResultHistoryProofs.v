(* Proofs/ResultHistoryProofs.v - the modelled parser has no state. *)
From Coq Require Import String List Lia.
From Verif Require Import Model.ResultHistory.
Import ListNotations.
Open Scope string_scope.

Lemma run_app : forall (R : Type) (parse : string -> R) ops s ops',
  run parse s (ops ++ ops') = (run parse s ops ++ run parse (files_after s ops) ops')%list.
Proof.
  induction ops as [|[p t|p] ops IH]; intros s ops'; simpl; [reflexivity | apply IH | now rewrite IH].
Qed.

Lemma run_length : forall (R : Type) (parse : string -> R) ops s, List.length (run parse s ops) = parses ops.
Proof. induction ops as [|[p t|p] ops IH]; intros s; simpl; auto. Qed.

(* the answer to a Parse after ANY history is the parse of the text the path holds then *)
Lemma parse_after_history : forall (R : Type) (parse : string -> R) ops s p,
  nth_error (run parse s (ops ++ [Parse p])) (parses ops) = Some (option_map parse (lookup p (files_after s ops))).
Proof.
  intros. rewrite run_app. rewrite nth_error_app2 by (rewrite run_length; lia).
  rewrite run_length, PeanoNat.Nat.sub_diag. reflexivity.
Qed.

(* earlier Parse operations leave no trace: the files, hence every later answer, depend on the writes only *)
Lemma files_ignore_parses : forall ops s, files_after s ops = files_after s (filter is_write ops).
Proof. induction ops as [|[p t|p] ops IH]; intros s; simpl; auto. Qed.

Lemma parse_is_function_of_text : forall (R : Type) (parse : string -> R) ops1 ops2 s p,
  filter is_write ops1 = filter is_write ops2 ->
  nth_error (run parse s (ops1 ++ [Parse p])) (parses ops1)
  = nth_error (run parse s (ops2 ++ [Parse p])) (parses ops2).
Proof.
  intros. rewrite !parse_after_history, (files_ignore_parses ops1), (files_ignore_parses ops2), H. reflexivity.
Qed.

(* a re-written file is read afresh *)
Lemma rewritten_file_is_reparsed : forall (R : Type) (parse : string -> R) s p a b,
  run parse s [Write p a; Parse p; Write p b; Parse p] = [Some (parse a); Some (parse b)].
Proof. intros. simpl. now rewrite String.eqb_refl. Qed.

(* whatever was read or exported before, a read gives the parsed result and an export its csv *)
Lemma csv_is_pure : forall (Res C : Type) (csv : Res -> C) (r : Res) ops k,
  nth_error (answers csv r ops) k
  = option_map (fun o => match o with ReadResult => inl r | Export => inr (csv r) end) (nth_error ops k).
Proof. intros. unfold answers. apply nth_error_map. Qed.

Lemma export_twice : forall (Res C : Type) (csv : Res -> C) (r : Res),
  answers csv r [ReadResult; Export; ReadResult; Export] = [inl r; inr (csv r); inl r; inr (csv r)].
Proof. reflexivity. Qed.
