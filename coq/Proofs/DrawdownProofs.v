(* Proofs/DrawdownProofs.v - lemmas about Model/Drawdown.v (and its composition with Model/Redrill.v) *)
From Coq Require Import QArith Qabs Qminmax List ZArith Bool Lia Lqa PeanoNat.
From Verif Require Import Base.Flat Proofs.FlatFacts Model.Redrill Model.Drawdown Proofs.RedrillProofs.
Import ListNotations.
Open Scope Q_scope.

(* ---- ordered series ---- *)

Fixpoint nondec (l : list Q) : Prop :=
  match l with
  | x :: r => match r with y :: _ => x <= y | [] => True end /\ nondec r
  | [] => True
  end.
Fixpoint noninc (l : list Q) : Prop :=
  match l with
  | x :: r => match r with y :: _ => y <= x | [] => True end /\ noninc r
  | [] => True
  end.

Lemma noninc_nth : forall l a, noninc l -> (S a < length l)%nat -> nth (S a) l 0 <= nth a l 0.
Proof.
  induction l as [|x r IH]; intros a H Ha; cbn in Ha. lia.
  destruct H as [H1 H2]. destruct a.
  - destruct r as [|y r]; cbn in Ha. lia. cbn. exact H1.
  - cbn [nth]. apply IH. exact H2. lia.
Qed.

(* an order-reversing map turns a non-decreasing list (inside the domain D) into a non-increasing one *)
Lemma map_antitone (D : Q -> Prop) (f : Q -> Q) :
  (forall x y, D x -> D y -> x <= y -> f y <= f x) ->
  forall l, Forall D l -> nondec l -> noninc (map f l).
Proof.
  intros Hf. induction l as [|x r IH]; intros HD H; cbn. exact I.
  inversion HD as [|? ? Dx Dr]; subst. destruct H as [H1 H2]. split; [|apply IH; assumption].
  destruct r as [|y r]; cbn. exact I. inversion Dr; subst. apply Hf; assumption.
Qed.

(* ---- np.linspace(0, L, n) ---- *)

Lemma natQ_succ i : natQ (S i) == natQ i + 1.
Proof. unfold natQ. rewrite Nat2Z.inj_succ. unfold Z.succ. rewrite inject_Z_plus. reflexivity. Qed.

Lemma natQ_nonneg i : 0 <= natQ i.
Proof. unfold natQ. change 0 with (inject_Z 0). rewrite <- Zle_Qle. lia. Qed.

Lemma natQ_pos i : (1 <= i)%nat -> 0 < natQ i.
Proof. intros H. unfold natQ. change 0 with (inject_Z 0). rewrite <- Zlt_Qlt. lia. Qed.

Lemma ramp_nondec c : 0 <= c -> forall len s, nondec (map (fun i => natQ i * c) (seq s len)).
Proof.
  intros Hc. induction len; intros s; cbn. exact I. split; [|apply IHlen].
  destruct len; cbn. exact I. rewrite natQ_succ. nra.
Qed.

Lemma ramp_nonneg c : 0 <= c -> forall len s, Forall (fun t => 0 <= t) (map (fun i => natQ i * c) (seq s len)).
Proof.
  intros Hc. induction len; intros s; cbn; constructor. pose proof (natQ_nonneg s). nra. apply IHlen.
Qed.

Lemma ramp_pos c : 0 < c -> forall len s, (1 <= s)%nat -> Forall (fun t => 0 < t) (map (fun i => natQ i * c) (seq s len)).
Proof.
  intros Hc. induction len; intros s Hs; cbn; constructor. pose proof (natQ_pos s Hs). nra. apply IHlen. lia.
Qed.

Lemma step_nonneg L n : 0 <= L -> (2 <= n)%nat -> 0 <= L / natQ (n - 1).
Proof. intros HL Hn. apply Qle_shift_div_l. apply natQ_pos. lia. lra. Qed.

Lemma step_pos L n : 0 < L -> (2 <= n)%nat -> 0 < L / natQ (n - 1).
Proof. intros HL Hn. apply Qlt_shift_div_l. apply natQ_pos. lia. lra. Qed.

Lemma timevector_length L n : length (timevector L n) = n.
Proof.
  unfold timevector. destruct n as [|[|n]]; cbn [length]; try reflexivity.
  rewrite map_length, seq_length. reflexivity.
Qed.

Lemma timevector_hd L n : (1 <= n)%nat -> hd 0 (timevector L n) == 0.
Proof.
  intros Hn. unfold timevector. destruct n as [|[|n]]; [lia|reflexivity|]. cbn. unfold natQ. cbn. ring.
Qed.

Lemma timevector_nondec L n : 0 <= L -> nondec (timevector L n).
Proof.
  intros HL. unfold timevector. destruct n as [|[|n]]; try (cbn; tauto).
  apply ramp_nondec. apply step_nonneg; [assumption|lia].
Qed.

Lemma timevector_nonneg L n : 0 <= L -> Forall (fun t => 0 <= t) (timevector L n).
Proof.
  intros HL. unfold timevector. destruct n as [|[|n]]; try (cbn; repeat constructor; lra).
  apply ramp_nonneg. apply step_nonneg; [assumption|lia].
Qed.

Lemma nondec_tl l : nondec l -> nondec (tl l).
Proof. destruct l; cbn. tauto. intros [_ H]. exact H. Qed.

Lemma timevector_tl_pos L n : 0 < L -> Forall (fun t => 0 < t) (tl (timevector L n)).
Proof.
  intros HL. unfold timevector. destruct n as [|[|n]]; [cbn; constructor|cbn; constructor|].
  change (seq 0 (S (S n))) with (0%nat :: seq 1 (S n)). cbn [map tl].
  apply ramp_pos. apply step_pos; [assumption|lia]. lia.
Qed.

(* ---- model 4 ---- *)

Lemma tdp_antitone Trock Tinj dd x y : 0 <= dd -> Tinj <= Trock -> x <= y ->
  tdp_T Trock Tinj dd y <= tdp_T Trock Tinj dd x.
Proof. intros. unfold tdp_T. assert (0 <= dd * (y - x)) by nra. nra. Qed.

Lemma tdp_le_Trock Trock Tinj dd t : 0 <= dd -> Tinj <= Trock -> 0 <= t -> tdp_T Trock Tinj dd t <= Trock.
Proof. intros. unfold tdp_T. assert (0 <= dd * t) by nra. nra. Qed.

Theorem tdp_head Trock Tinj dd ts : ts <> [] -> hd 0 ts == 0 -> hd 0 (tdp_series Trock Tinj dd ts) == Trock.
Proof. destruct ts as [|t r]; [congruence|]. intros _ H. cbn in *. unfold tdp_T. rewrite H. ring. Qed.

Theorem tdp_noninc Trock Tinj dd ts : 0 <= dd -> Tinj <= Trock -> nondec ts -> noninc (tdp_series Trock Tinj dd ts).
Proof.
  intros Hd HT Hs. apply (map_antitone (fun _ => True)); [|apply Forall_forall; intros; exact I|exact Hs].
  intros x y _ _ Hxy. apply tdp_antitone; assumption.
Qed.

Theorem tdp_bounded Trock Tinj dd ts : 0 <= dd -> Tinj <= Trock -> Forall (fun t => 0 <= t) ts ->
  Forall (fun x => x <= Trock) (tdp_series Trock Tinj dd ts).
Proof.
  intros Hd HT Hs. unfold tdp_series. induction Hs; cbn; constructor. apply tdp_le_Trock; assumption. assumption.
Qed.

(* with the injection temperature above bottom-hole temperature the same formula rises, above bottom-hole temperature *)
Theorem tdp_rises_refuted :
  exists Trock Tinj dd ts, Trock < Tinj /\ 0 < dd /\ nondec ts /\ Forall (fun t => 0 <= t) ts /\
    ~ noninc (tdp_series Trock Tinj dd ts) /\ ~ Forall (fun x => x <= Trock) (tdp_series Trock Tinj dd ts).
Proof.
  exists 30, 70, (1 # 100), [0; 5; 10]. split. lra. split. lra. split. cbn. lra. split. repeat constructor; lra.
  split.
  - intros [H _]. vm_compute in H. apply H. reflexivity.
  - intros H. inversion H as [|? ? _ H2]; subst. inversion H2 as [|? ? H3 _]; subst. vm_compute in H3. apply H3. reflexivity.
Qed.

(* ---- model 3: erf and sqrt are premises ---- *)

Section SingleFractureFacts.
  Variables erf sqrt : Q -> Q.
  Hypothesis erf_mono : forall x y, 0 <= x -> x <= y -> erf x <= erf y.
  Hypothesis erf_range : forall x, 0 <= x -> 0 <= erf x /\ erf x <= 1.
  Hypothesis sqrt_mono : forall x y, 0 <= x -> x <= y -> sqrt x <= sqrt y.
  Hypothesis sqrt_nonneg : forall x, 0 <= x -> 0 <= sqrt x.

  Variables dd cpw K : Q.
  Hypothesis dd_pos : 0 < dd.
  Hypothesis cpw_pos : 0 < cpw.
  Hypothesis K_nonneg : 0 <= K.

  Lemma coef_pos : 0 < 1 / dd / cpw.
  Proof. apply Qlt_shift_div_l. assumption. rewrite Qmult_0_l. apply Qlt_shift_div_l. assumption. lra. Qed.

  Lemma secs_pos : 0 < secs_per_year.
  Proof. unfold secs_per_year. reflexivity. Qed.

  Lemma radicand_nonneg t : 0 < t -> 0 <= K / t / secs_per_year.
  Proof.
    intros Ht. apply Qle_shift_div_l. apply secs_pos. rewrite Qmult_0_l. apply Qle_shift_div_l. assumption. lra.
  Qed.

  Lemma radicand_antitone t1 t2 : 0 < t1 -> t1 <= t2 -> K / t2 / secs_per_year <= K / t1 / secs_per_year.
  Proof.
    intros H1 H12.
    assert (Hk : K / t2 <= K / t1).
    { apply Qle_shift_div_r. lra.
      assert (E : K == K / t1 * t1) by (field; lra).
      assert (0 <= K / t1) by (apply Qle_shift_div_l; lra).
      rewrite E at 1. nra. }
    pose proof secs_pos as Hs. apply Qle_shift_div_r. assumption.
    assert (E : K / t1 / secs_per_year * secs_per_year == K / t1) by (field; lra).
    rewrite E. exact Hk.
  Qed.

  Lemma sf_arg_nonneg t : 0 < t -> 0 <= sf_arg sqrt dd cpw K t.
  Proof.
    intros Ht. unfold sf_arg. pose proof coef_pos. pose proof (sqrt_nonneg _ (radicand_nonneg t Ht)). nra.
  Qed.

  Lemma sf_arg_antitone t1 t2 : 0 < t1 -> t1 <= t2 -> sf_arg sqrt dd cpw K t2 <= sf_arg sqrt dd cpw K t1.
  Proof.
    intros H1 H12. unfold sf_arg. pose proof coef_pos.
    assert (0 < t2) by lra.
    pose proof (sqrt_mono _ _ (radicand_nonneg t2 H0) (radicand_antitone t1 t2 H1 H12)). nra.
  Qed.

  Variables Trock Tinj : Q.
  Hypothesis inj_below : Tinj <= Trock.

  Lemma sf_T_antitone t1 t2 : 0 < t1 -> 0 < t2 -> t1 <= t2 ->
    sf_T erf sqrt Trock Tinj dd cpw K t2 <= sf_T erf sqrt Trock Tinj dd cpw K t1.
  Proof.
    intros H1 H2 H12. unfold sf_T.
    pose proof (erf_mono _ _ (sf_arg_nonneg t2 H2) (sf_arg_antitone t1 t2 H1 H12)). nra.
  Qed.

  Lemma sf_T_le_Trock t : 0 < t -> sf_T erf sqrt Trock Tinj dd cpw K t <= Trock.
  Proof. intros Ht. unfold sf_T. destruct (erf_range _ (sf_arg_nonneg t Ht)). nra. Qed.

  Theorem sf_noninc_bounded ts : Forall (fun t => 0 < t) (tl ts) -> nondec (tl ts) ->
    noninc (sf_series erf sqrt Trock Tinj dd cpw K ts) /\
    Forall (fun x => x <= Trock) (sf_series erf sqrt Trock Tinj dd cpw K ts).
  Proof.
    destruct ts as [|t0 r]; cbn [tl sf_series]. intros; split; [exact I|constructor].
    intros Hpos Hnd.
    assert (Hb : Forall (fun x => x <= Trock) (map (sf_T erf sqrt Trock Tinj dd cpw K) r)).
    { clear Hnd. induction Hpos; cbn; constructor. apply sf_T_le_Trock; assumption. assumption. }
    split.
    - cbn [noninc]. split.
      + destruct r; cbn. exact I. inversion Hb; assumption.
      + apply (map_antitone (fun t => 0 < t)); try assumption. intros x y Hx Hy Hxy. apply sf_T_antitone; assumption.
    - constructor. lra. exact Hb.
  Qed.
End SingleFractureFacts.

Theorem sf_head erf sqrt Trock Tinj dd cpw K ts : ts <> [] -> hd 0 (sf_series erf sqrt Trock Tinj dd cpw K ts) = Trock.
Proof. destruct ts; [congruence|reflexivity]. Qed.

(* the executed form (library values as data) is the same function *)
Lemma sf_series_data_eq erf sqrt Trock Tinj dd cpw K t0 r :
  sf_series erf sqrt Trock Tinj dd cpw K (t0 :: r)
  = sf_series_data Trock Tinj (map (fun t => erf (sf_arg sqrt dd cpw K t)) r).
Proof. unfold sf_series, sf_series_data, sf_T. rewrite map_map. reflexivity. Qed.

(* ---- models 1, 2: whatever the Laplace inversion returns, the history starts at bottom-hole temperature ---- *)

Theorem mpf_head Trock Tinj tw : hd 0 (mpf_series Trock Tinj tw) = Trock.
Proof. reflexivity. Qed.

Theorem lhs_head Trock Tinj tw : hd 0 (lhs_series Trock Tinj tw) = Trock.
Proof. unfold lhs_series. cbn. unfold lhs_clamp. destruct (Qltb_spec Trock Trock); [lra|]. cbn. destruct (Qltb Trock Tinj); reflexivity. Qed.

Theorem lhs_range Trock Tinj tw :
  Forall (fun x => x = Trock \/ (Tinj <= x /\ x <= Trock)) (lhs_series Trock Tinj tw).
Proof.
  unfold lhs_series. apply Forall_forall. intros x Hx. apply in_map_iff in Hx. destruct Hx as [y [<- _]].
  unfold lhs_clamp. destruct (Qltb_spec Trock y); cbn. left; reflexivity.
  destruct (Qltb_spec y Tinj). left; reflexivity. right. lra.
Qed.

(* ---- through the redrilling step ---- *)

Lemma hd_nth0 (l : list Q) : hd 0 l = nth 0 l 0.
Proof. destruct l; reflexivity. Qed.

Theorem head_preserved P T maxdd : (1 <= length P)%nat -> length T = length P ->
  hd 0 (rd_T (redrill P T maxdd)) = hd 0 T.
Proof.
  intros Hn HT. destruct (Nat.eq_dec (index_of P maxdd) 0) as [E|E].
  - rewrite redrill_unchanged by assumption. reflexivity.
  - rewrite !hd_nth0. destruct (redrill_cycle P T maxdd E HT 0) as [_ H]. lia.
    rewrite H. rewrite Nat.mod_0_l by assumption. reflexivity.
Qed.

Theorem cycles_bounded P T maxdd B : Forall (fun x => x <= B) T -> Forall (fun x => x <= B) (rd_T (redrill P T maxdd)).
Proof.
  intros H. destruct (Nat.eq_dec (index_of P maxdd) 0) as [E|E].
  - rewrite redrill_unchanged by assumption. exact H.
  - rewrite redrill_changed by assumption. cbv zeta. cbn [rd_T].
    apply Forall_firstn, Forall_tile, Forall_firstn. exact H.
Qed.

Lemma succ_mod a m : (m <> 0)%nat -> (S a mod m <> 0)%nat -> (S a mod m = S (a mod m))%nat.
Proof.
  intros Hm Hs. pose proof (Nat.div_mod a m Hm) as Ha. pose proof (Nat.mod_upper_bound a m Hm) as Hu.
  destruct (Nat.eq_dec (S (a mod m)) m) as [E|E].
  - exfalso. apply Hs. replace (S a) with (0 + (S (a / m)) * m)%nat by nia. rewrite Nat.mod_add by assumption.
    apply Nat.mod_0_l. assumption.
  - replace (S a) with (S (a mod m) + (a / m) * m)%nat by nia. rewrite Nat.mod_add by assumption.
    apply Nat.mod_small. lia.
Qed.

(* a non-increasing history stays non-increasing inside every cycle; it can only rise where a new cycle starts *)
Theorem cycles_noninc P T maxdd : noninc T -> length T = length P ->
  forall j, (S j < length P)%nat ->
    (index_of P maxdd = 0%nat \/ (S j mod index_of P maxdd <> 0)%nat) ->
    nth (S j) (rd_T (redrill P T maxdd)) 0 <= nth j (rd_T (redrill P T maxdd)) 0.
Proof.
  intros Hn HT j Hj Hc. destruct (Nat.eq_dec (index_of P maxdd) 0) as [E|E].
  - rewrite redrill_unchanged by assumption. cbn [rd_T]. apply noninc_nth. exact Hn. lia.
  - destruct Hc as [Hc|Hc]; [contradiction|].
    destruct (redrill_cycle P T maxdd E HT (S j) Hj) as [_ H1].
    destruct (redrill_cycle P T maxdd E HT j) as [_ H0]. lia.
    rewrite H1, H0, succ_mod by assumption.
    apply noninc_nth. exact Hn.
    pose proof (Nat.mod_upper_bound (S j) _ E) as Hu. rewrite succ_mod in Hu by assumption.
    pose proof (index_lt P maxdd E). lia.
Qed.

Lemma minus_lists_length : forall a b, length b = length a -> length (minus_lists a b) = length a.
Proof.
  induction a as [|x a IH]; intros b H; destruct b as [|y b]; cbn in *; try lia. rewrite IH by lia. reflexivity.
Qed.

(* ---- the complete history of models 4 and 3, for every lifetime, step count, drop series and drawdown limit ---- *)

Definition history_ok (Trock : Q) (n : nat) (rd : redrilled) : Prop :=
  length (rd_T rd) = n /\ length (rd_P rd) = n /\
  hd 0 (rd_T rd) == Trock /\
  Forall (fun x => x <= Trock) (rd_T rd) /\
  forall j, (S j < n)%nat -> (rd_index rd = 0%nat \/ (S j mod rd_index rd <> 0)%nat) ->
            nth (S j) (rd_T rd) 0 <= nth j (rd_T rd) 0.

Lemma history_ok_intro Trock n T drops maxdd : (1 <= n)%nat -> length T = n -> length drops = n ->
  hd 0 T == Trock -> Forall (fun x => x <= Trock) T -> noninc T ->
  history_ok Trock n (finish T drops maxdd).
Proof.
  intros Hn HT Hd Hh Hb Hi. unfold finish, history_ok.
  assert (HP : length (minus_lists T drops) = n) by (rewrite minus_lists_length; lia).
  assert (HTP : length T = length (minus_lists T drops)) by lia.
  destruct (redrill_length (minus_lists T drops) T maxdd) as [L1 L2].
  split; [rewrite L2; lia|]. split; [lia|]. split.
  - rewrite head_preserved by lia. exact Hh.
  - split. apply cycles_bounded. exact Hb.
    intros j Hj Hc. rewrite redrill_index in Hc. apply cycles_noninc; try assumption. lia.
Qed.

Theorem tdp_history Trock Tinj dd maxdd L n drops :
  0 <= L -> (1 <= n)%nat -> 0 <= dd -> Tinj <= Trock -> length drops = n ->
  history_ok Trock n (finish (tdp_series Trock Tinj dd (timevector L n)) drops maxdd).
Proof.
  intros HL Hn Hd HT Hdr. apply history_ok_intro; try assumption.
  - unfold tdp_series. rewrite map_length. apply timevector_length.
  - apply tdp_head. intros E. pose proof (timevector_length L n) as Hl. rewrite E in Hl. cbn in Hl. lia.
    apply timevector_hd. assumption.
  - apply tdp_bounded; try assumption. apply timevector_nonneg. assumption.
  - apply tdp_noninc; try assumption. apply timevector_nondec. assumption.
Qed.

Theorem sf_history (erf sqrt : Q -> Q) Trock Tinj dd cpw K maxdd L n drops :
  (forall x y, 0 <= x -> x <= y -> erf x <= erf y) -> (forall x, 0 <= x -> 0 <= erf x /\ erf x <= 1) ->
  (forall x y, 0 <= x -> x <= y -> sqrt x <= sqrt y) -> (forall x, 0 <= x -> 0 <= sqrt x) ->
  0 < L -> (1 <= n)%nat -> 0 < dd -> 0 < cpw -> 0 <= K -> Tinj <= Trock -> length drops = n ->
  history_ok Trock n (finish (sf_series erf sqrt Trock Tinj dd cpw K (timevector L n)) drops maxdd).
Proof.
  intros E1 E2 S1 S2 HL Hn Hd Hc HK HT Hdr.
  assert (Hne : timevector L n <> []).
  { intros E. pose proof (timevector_length L n) as Hl. rewrite E in Hl. cbn in Hl. lia. }
  destruct (sf_noninc_bounded erf sqrt E1 E2 S1 S2 dd cpw K Hd Hc HK Trock Tinj HT (timevector L n)) as [Hi Hb].
  apply timevector_tl_pos. assumption. apply nondec_tl, timevector_nondec. lra.
  apply history_ok_intro; try assumption.
  - pose proof (timevector_length L n) as Hl. destruct (timevector L n); [congruence|].
    cbn [sf_series length] in *. rewrite map_length. exact Hl.
  - rewrite sf_head by assumption. reflexivity.
Qed.
