(* Proofs/ResultParserProofs.v - lemmas about Model/ResultParser.v *)
From Coq Require Import String Ascii List ZArith NArith QArith Qabs Bool Lia.
From Verif Require Import Base.Flat Model.ResultParser.
Import ListNotations.
Open Scope string_scope.

Arguments all_ws s /.
Arguments ws_free s /.

(* ------------------------------------------------------------------ strings *)

Lemma app_assoc_s : forall a b c : string, (a ++ b) ++ c = a ++ (b ++ c).
Proof. induction a; simpl; intros; [reflexivity | now rewrite IHa]. Qed.

Lemma app_nil_r_s : forall a : string, a ++ "" = a.
Proof. induction a; simpl; [reflexivity | now rewrite IHa]. Qed.

Lemma length_app_s : forall a b : string, String.length (a ++ b) = (String.length a + String.length b)%nat.
Proof. induction a; simpl; intros; [reflexivity | now rewrite IHa]. Qed.

Lemma spaces_plus : forall a b, spaces (a + b) = spaces a ++ spaces b.
Proof. induction a; simpl; intros; [reflexivity | now rewrite IHa]. Qed.

Lemma all_chars_app : forall p a b, all_chars p (a ++ b) = all_chars p a && all_chars p b.
Proof. induction a; simpl; intros; [reflexivity | rewrite IHa; now rewrite andb_assoc]. Qed.

Lemma all_ws_spaces : forall n, all_ws (spaces n) = true.
Proof. induction n; simpl; [reflexivity | exact IHn]. Qed.

Lemma prefixb_app : forall p s, prefixb p (p ++ s) = true.
Proof. induction p; simpl; intros; [reflexivity | rewrite Ascii.eqb_refl; apply IHp]. Qed.

Lemma contains_prefix : forall p s, prefixb p s = true -> contains p s = true.
Proof. intros p s H. destruct s; simpl; rewrite H; reflexivity. Qed.

Lemma contains_cons : forall p c s, contains p s = true -> contains p (String c s) = true.
Proof. intros. simpl. destruct (prefixb p (String c s)); [reflexivity | assumption]. Qed.

Lemma contains_app_l : forall p x s, contains p s = true -> contains p (x ++ s) = true.
Proof. induction x; simpl; intros; [assumption |]. destruct (prefixb p (String a (x ++ s))); [reflexivity | auto]. Qed.

Lemma contains_mid : forall p x y, contains p (x ++ p ++ y) = true.
Proof. intros. apply contains_app_l, contains_prefix, prefixb_app. Qed.

Lemma contains_false_inv : forall p c s,
  contains p (String c s) = false -> prefixb p (String c s) = false /\ contains p s = false.
Proof. intros p c s H. simpl in H. destruct (prefixb p (String c s)); [discriminate | auto]. Qed.

Lemma contains_false_prefix : forall p s, contains p s = false -> prefixb p s = false.
Proof. intros p s H. destruct (prefixb p s) eqn:E; [| reflexivity]. apply contains_prefix in E. congruence. Qed.

(* ------------------------------------------------------------------ replace *)

Lemma replace_skip : forall old new x s,
  replace_from old new (String.length x) (x ++ s) = replace_from old new 0 s.
Proof. induction x; simpl; intros; [reflexivity | apply IHx]. Qed.

Lemma replace_no_occurrence : forall old new s, contains old s = false -> replace_from old new 0 s = s.
Proof.
  induction s; intros H; [reflexivity |].
  apply contains_false_inv in H. destruct H as [H1 H2].
  simpl replace_from. rewrite H1. now rewrite IHs.
Qed.

Lemma replace_step : forall old new c r,
  replace_from old new 0 (String c r) =
  if prefixb old (String c r) then new ++ replace_from old new (String.length old - 1) r
  else String c (replace_from old new 0 r).
Proof. reflexivity. Qed.

Lemma replace_hit : forall a o new s,
  replace_from (String a o) new 0 (String a o ++ s) = new ++ replace_from (String a o) new 0 s.
Proof.
  intros. change (String a o ++ s) with (String a (o ++ s)). rewrite replace_step.
  change (String a (o ++ s)) with (String a o ++ s). rewrite prefixb_app.
  replace (String.length (String a o) - 1)%nat with (String.length o) by (simpl; lia).
  now rewrite replace_skip.
Qed.

Lemma replace_spaces : forall a o new n s,
  a <> SPc ->
  replace_from (String a o) new 0 (spaces n ++ s) = spaces n ++ replace_from (String a o) new 0 s.
Proof.
  induction n; intros s Ha; [reflexivity |].
  simpl. destruct (Ascii.eqb a SPc) eqn:E; [apply Ascii.eqb_eq in E; contradiction |].
  now rewrite IHn.
Qed.

Lemma remove_char_app : forall d a b, remove_char d (a ++ b) = remove_char d a ++ remove_char d b.
Proof. induction a; simpl; intros; [reflexivity |]. destruct (Ascii.eqb a d); rewrite IHa; reflexivity. Qed.

Lemma remove_char_absent : forall d s,
  all_chars (fun c => negb (Ascii.eqb c d)) s = true -> remove_char d s = s.
Proof.
  induction s; simpl; intros H; [reflexivity |].
  apply andb_true_iff in H. destruct H as [H1 H2].
  destruct (Ascii.eqb a d); [discriminate | now rewrite IHs].
Qed.

Lemma all_chars_weaken : forall (p q : ascii -> bool) s,
  (forall c, p c = true -> q c = true) -> all_chars p s = true -> all_chars q s = true.
Proof.
  induction s; simpl; intros Hpq H; [reflexivity |].
  apply andb_true_iff in H. destruct H. rewrite (Hpq _ H), IHs; auto.
Qed.

Lemma ws_free_no_char : forall d s, is_ws d = true -> ws_free s = true ->
  all_chars (fun c => negb (Ascii.eqb c d)) s = true.
Proof.
  intros d s Hd. apply all_chars_weaken. intros c Hc.
  destruct (Ascii.eqb c d) eqn:E; [apply Ascii.eqb_eq in E; subst; rewrite Hd in Hc; discriminate | reflexivity].
Qed.

Lemma remove_nl_spaces : forall n, remove_char NLc (spaces n) = spaces n.
Proof. induction n; simpl; [reflexivity | now rewrite IHn]. Qed.

Lemma remove_char_all_ws : forall d s, all_ws s = true -> all_ws (remove_char d s) = true.
Proof.
  induction s; simpl; intros H; [reflexivity |].
  apply andb_true_iff in H. destruct H. destruct (Ascii.eqb a d); simpl; [auto | rewrite H; auto].
Qed.

(* ------------------------------------------------------------------ re.sub(r'\s\s+', '', s) *)

Lemma rm2_token : forall t rest, ws_free t = true -> rm2_from false (t ++ rest) = t ++ rm2_from false rest.
Proof.
  induction t; intros rest H; [reflexivity |].
  simpl in H. apply andb_true_iff in H. destruct H as [H1 H2]. apply negb_true_iff in H1.
  simpl. rewrite H1. now rewrite IHt.
Qed.

(* inside a run every further blank is dropped; the run ends at the first non-blank *)
Lemma rm2_run : forall w c r, all_ws w = true -> is_ws c = false ->
  rm2_from true (w ++ String c r) = String c (rm2_from false r).
Proof.
  induction w; intros c r H Hc.
  - simpl. now rewrite Hc.
  - simpl in H. apply andb_true_iff in H. destruct H as [H1 H2]. simpl. rewrite H1. now apply IHw.
Qed.

Lemma rm2_run_end : forall w, all_ws w = true -> rm2_from true w = "".
Proof.
  induction w; intros H; [reflexivity |].
  simpl in H. apply andb_true_iff in H. destruct H as [H1 H2]. simpl. rewrite H1. auto.
Qed.

Lemma rm2_step : forall c r,
  rm2_from false (String c r) =
  if is_ws c then
    match r with
    | String d _ => if is_ws d then rm2_from true r else String c (rm2_from false r)
    | "" => String c ""
    end
  else String c (rm2_from false r).
Proof. reflexivity. Qed.

(* a run of at least two blanks disappears *)
Lemma rm2_long_run : forall a b w c r, is_ws a = true -> is_ws b = true -> all_ws w = true -> is_ws c = false ->
  rm2_from false (String a (String b (w ++ String c r))) = String c (rm2_from false r).
Proof.
  intros. rewrite rm2_step, H, H0.
  change (String b (w ++ String c r)) with ((String b w) ++ String c r).
  apply rm2_run; [simpl; now rewrite H0 | assumption].
Qed.

Lemma rm2_spaces : forall n c r, (2 <= n)%nat -> is_ws c = false ->
  rm2_from false (spaces n ++ String c r) = String c (rm2_from false r).
Proof.
  intros n c r Hn Hc. destruct n as [|[|n]]; try lia.
  simpl spaces. simpl append. apply rm2_long_run; auto using all_ws_spaces.
Qed.

(* a trailing blank tail never produces anything but blanks *)
Lemma rm2_all_ws : forall b w, all_ws w = true -> all_ws (rm2_from b w) = true.
Proof.
  intros b w. revert b. induction w; intros b H; [reflexivity |].
  simpl in H. apply andb_true_iff in H. destruct H as [H1 H2].
  simpl. rewrite H1. destruct b; [auto |].
  destruct w; [simpl; now rewrite H1 |].
  simpl in H2. apply andb_true_iff in H2. destruct H2 as [H3 H4]. rewrite H3.
  apply IHw. simpl. now rewrite H3.
Qed.

(* ------------------------------------------------------------------ strip *)

Lemma rstrip_ws : forall w, all_ws w = true -> rstrip w = "".
Proof.
  induction w; intros H; [reflexivity |].
  simpl in H. apply andb_true_iff in H. destruct H as [H1 H2].
  simpl. rewrite (IHw H2), H1. reflexivity.
Qed.

Lemma rstrip_app_ws : forall x w, all_ws w = true -> rstrip (x ++ w) = rstrip x.
Proof.
  induction x; intros w H; simpl; [now apply rstrip_ws | now rewrite IHx].
Qed.

Lemma rstrip_token : forall t, ws_free t = true -> rstrip t = t.
Proof.
  induction t; intros H; [reflexivity |].
  simpl in H. apply andb_true_iff in H. destruct H as [H1 H2]. apply negb_true_iff in H1.
  simpl. rewrite (IHt H2), H1. reflexivity.
Qed.

Lemma rstrip_app_token : forall x t, ws_free t = true -> t <> "" -> rstrip (x ++ t) = x ++ t.
Proof.
  induction x; intros t H Hne; simpl; [now apply rstrip_token |].
  rewrite (IHx t H Hne). destruct (x ++ t) eqn:E.
  - destruct x; simpl in E; [contradiction | discriminate].
  - simpl. now rewrite andb_false_r.
Qed.

Lemma lstrip_token_head : forall c r, is_ws c = false -> lstrip (String c r) = String c r.
Proof. intros. simpl. now rewrite H. Qed.

Lemma ws_free_head : forall t, ws_free t = true -> t <> "" -> exists c r, t = String c r /\ is_ws c = false.
Proof.
  intros [|c r] H Hne; [contradiction |]. simpl in H. apply andb_true_iff in H. destruct H as [H _].
  apply negb_true_iff in H. eauto.
Qed.

(* ------------------------------------------------------------------ split *)

Lemma split_char_none : forall d s,
  all_chars (fun c => negb (Ascii.eqb c d)) s = true -> split_char d s = [s].
Proof.
  induction s; intros H; [reflexivity |].
  simpl in H. apply andb_true_iff in H. destruct H as [H1 H2]. apply negb_true_iff in H1.
  simpl. rewrite H1, (IHs H2). reflexivity.
Qed.

Lemma split_char_app : forall d a b,
  all_chars (fun c => negb (Ascii.eqb c d)) a = true ->
  split_char d (a ++ String d b) = a :: split_char d b.
Proof.
  induction a; intros b H.
  - simpl. now rewrite Ascii.eqb_refl.
  - simpl in H. apply andb_true_iff in H. destruct H as [H1 H2]. apply negb_true_iff in H1.
    simpl. rewrite H1, (IHa b H2). reflexivity.
Qed.

(* ------------------------------------------------------------------ a rendered scalar line is read back *)

Definition head_not_space (s : string) : Prop :=
  match s with "" => False | String c _ => c <> SPc end.

Lemma is_ws_SP : is_ws SPc = true. Proof. reflexivity. Qed.
Lemma is_ws_NL : is_ws NLc = true. Proof. reflexivity. Qed.

(* what remains of the line after the label has been cut out and the blanks in front removed *)
Lemma cut_label : forall name indent pad rest,
  head_not_space name ->
  contains (name ++ ":") (spaces pad ++ rest) = false ->
  replace_all (name ++ ":") "" (spaces indent ++ name ++ ":" ++ spaces pad ++ rest)
  = spaces (indent + pad) ++ rest.
Proof.
  intros name indent pad rest Hn Hc. unfold replace_all.
  destruct name as [|a o]; [contradiction |]. simpl in Hn.
  change ((String a o) ++ ":") with (String a (o ++ ":")) in *.
  rewrite replace_spaces by assumption.
  replace (String a o ++ ":" ++ spaces pad ++ rest) with (String a (o ++ ":") ++ (spaces pad ++ rest))
    by (simpl; now rewrite app_assoc_s).
  rewrite replace_hit. simpl append at 1. rewrite replace_no_occurrence by assumption.
  rewrite spaces_plus. now rewrite app_assoc_s.
Qed.

(* text that re.sub(r'\s\s+', '', .) leaves alone, whatever follows *)
Definition solid (core : string) : Prop := forall t, rm2_from false (core ++ t) = core ++ rm2_from false t.

Lemma solid_token : forall t, ws_free t = true -> solid t.
Proof. intros t H x. now apply rm2_token. Qed.

Lemma solid_join : forall a b, ws_free a = true -> ws_free b = true -> b <> "" -> solid (a ++ " " ++ b).
Proof.
  intros a b Ha Hb Hne t.
  destruct (ws_free_head b Hb Hne) as (c & r & -> & Hc).
  rewrite !app_assoc_s. rewrite rm2_token by assumption. f_equal.
  change (" " ++ String c r ++ t) with (String SPc (String c (r ++ t))).
  rewrite rm2_step, is_ws_SP, Hc.
  change (String c (r ++ t)) with (String c r ++ t). rewrite rm2_token by assumption. reflexivity.
Qed.

Lemma rm2_leading_spaces : forall n c x, (2 <= n)%nat -> is_ws c = false ->
  rm2_from false (spaces n ++ String c x) = rm2_from false (String c x).
Proof. intros. rewrite rm2_spaces by assumption. rewrite rm2_step, H0. reflexivity. Qed.

Lemma strip_core : forall c r t, is_ws c = false -> rstrip (String c r) = String c r -> all_ws t = true ->
  strip (String c r ++ t) = String c r.
Proof.
  intros c r t Hc Hr Ht. unfold strip.
  change (String c r ++ t) with (String c (r ++ t)). rewrite lstrip_token_head by assumption.
  change (String c (r ++ t)) with (String c r ++ t). now rewrite rstrip_app_ws.
Qed.

(* the text the client splits: the value region of a rendered line, label and padding gone *)
Lemma value_region : forall name indent pad core trail,
  head_not_space name ->
  (2 <= indent + pad)%nat ->
  contains (name ++ ":") (spaces pad ++ core ++ trail) = false ->
  solid core -> (exists c r, core = String c r /\ is_ws c = false) -> rstrip core = core ->
  all_chars (fun c => negb (Ascii.eqb c NLc)) core = true ->
  all_ws trail = true ->
  strip (rm2 (remove_char NLc (replace_all (name ++ ":") ""
           (spaces indent ++ name ++ ":" ++ spaces pad ++ core ++ trail)))) = core.
Proof.
  intros name indent pad core trail Hn Hw Hc Hs (c & r & -> & Hcw) Hr Hnl Ht.
  rewrite cut_label by assumption.
  rewrite !remove_char_app, remove_nl_spaces, (remove_char_absent _ _ Hnl).
  unfold rm2. change (String c r ++ remove_char NLc trail) with (String c (r ++ remove_char NLc trail)).
  rewrite rm2_leading_spaces by assumption.
  change (String c (r ++ remove_char NLc trail)) with (String c r ++ remove_char NLc trail).
  rewrite Hs. apply strip_core; auto. apply rm2_all_ws, remove_char_all_ws, Ht.
Qed.

Section Roundtrip.
  Variables (name tok unit trail : string) (indent pad : nat).
  Hypothesis Hname : head_not_space name.
  Hypothesis Htok : ws_free tok = true.
  Hypothesis Htok_ne : tok <> "".
  Hypothesis Hunit : ws_free unit = true.
  Hypothesis Hunit_ne : unit <> "".
  Hypothesis Htrail : all_ws trail = true.
  Hypothesis Hwidth : (2 <= indent + pad)%nat.

  Lemma no_nl : forall t, ws_free t = true -> all_chars (fun c => negb (Ascii.eqb c NLc)) t = true.
  Proof. intros. apply ws_free_no_char; [reflexivity | assumption]. Qed.

  Lemma no_sp : forall t, ws_free t = true -> all_chars (fun c => negb (Ascii.eqb c SPc)) t = true.
  Proof. intros. apply ws_free_no_char; [reflexivity | assumption]. Qed.

  (* with a unit *)
  Lemma roundtrip_unit :
    contains (name ++ ":") (spaces pad ++ (tok ++ " " ++ unit) ++ trail) = false ->
    field_of_line name false (render_scalar indent name pad tok (Some unit) trail)
    = MR (parse_number tok) (Some unit).
  Proof.
    intros Hc. unfold field_of_line, render_scalar.
    replace (spaces indent ++ name ++ ":" ++ spaces pad ++ tok ++ (" " ++ unit) ++ trail)
      with (spaces indent ++ name ++ ":" ++ spaces pad ++ (tok ++ " " ++ unit) ++ trail)
      by (now rewrite !app_assoc_s).
    rewrite value_region; auto.
    - change (tok ++ " " ++ unit) with (tok ++ String SPc unit).
      rewrite split_char_app by (apply no_sp; assumption).
      rewrite split_char_none by (apply no_sp; assumption). reflexivity.
    - apply solid_join; assumption.
    - destruct (ws_free_head tok Htok Htok_ne) as (c & r & -> & Hcw). exists c, (r ++ " " ++ unit). auto.
    - replace (tok ++ " " ++ unit) with ((tok ++ " ") ++ unit) by (now rewrite !app_assoc_s).
      now apply rstrip_app_token.
    - rewrite !all_chars_app, (no_nl tok Htok), (no_nl unit Hunit). reflexivity.
  Qed.

  (* without a unit: "count" for a label starting with Number, nothing otherwise *)
  Lemma roundtrip_bare :
    contains (name ++ ":") (spaces pad ++ tok ++ trail) = false ->
    field_of_line name false (render_scalar indent name pad tok None trail)
    = MR (parse_number tok) (if prefixb "Number" name then Some "count" else None).
  Proof.
    intros Hc. unfold field_of_line, render_scalar.
    change (tok ++ "" ++ trail) with (tok ++ trail).
    rewrite value_region; auto.
    - rewrite split_char_none by (apply no_sp; assumption). reflexivity.
    - now apply solid_token.
    - apply ws_free_head; assumption.
    - now apply rstrip_token.
    - now apply no_nl.
  Qed.

End Roundtrip.

  (* the marker of the field finds the rendered line *)
Lemma marker_finds_line : forall name tok trail indent pad u k,
    (1 <= pad)%nat ->
    contains (field_marker indent name) (render_scalar (k + indent) name pad tok u trail) = true.
  Proof.
    intros name tok trail indent pad u k Hp. unfold field_marker, render_scalar.
    destruct pad as [|p]; [lia |].
    rewrite spaces_plus. simpl spaces. rewrite !app_assoc_s.
    replace (spaces indent ++ name ++ ":" ++ String SPc (spaces p) ++ tok ++ match u with Some u0 => " " ++ u0 | None => "" end ++ trail)
      with ((spaces indent ++ name ++ ": ") ++ (spaces p ++ tok ++ match u with Some u0 => " " ++ u0 | None => "" end ++ trail))
      by (rewrite !app_assoc_s; reflexivity).
    apply contains_mid.
  Qed.

(* ------------------------------------------------------------------ set.pop() *)

Lemma mem_str_In : forall x l, mem_str x l = true <-> In x l.
Proof.
  induction l; simpl; [split; [discriminate | tauto] |].
  rewrite orb_true_iff, IHl, String.eqb_eq. split; intros [H | H]; auto.
Qed.

Lemma dedup_In : forall x l, In x (dedup l) <-> In x l.
Proof.
  induction l; simpl; [tauto |].
  destruct (mem_str a l) eqn:E.
  - rewrite IHl. split; [auto |]. intros [-> | H]; [now apply mem_str_In | assumption].
  - simpl. rewrite IHl. tauto.
Qed.

Lemma matching_lines_In : forall m l lines,
  In l (matching_lines m lines) <-> In l lines /\ contains m l = true.
Proof. intros. unfold matching_lines. rewrite dedup_In, filter_In. tauto. Qed.

(* if every matching line reads as r, so does the line set.pop() returns, whichever it is *)
Lemma any_choice : forall name is_str indent lines r,
  (forall l, In l lines -> contains (field_marker indent name) l = true -> field_of_line name is_str l = r) ->
  forall k x, get_result_field k name is_str indent lines = Some x -> x = r.
Proof.
  intros name is_str indent lines r H k x Hk. unfold get_result_field, field_candidates in Hk.
  apply nth_error_In in Hk. apply in_map_iff in Hk. destruct Hk as (l & <- & Hl).
  apply matching_lines_In in Hl. destruct Hl. auto.
Qed.

Lemma some_choice : forall name is_str indent lines l,
  In l lines -> contains (field_marker indent name) l = true ->
  exists x, get_result_field 0 name is_str indent lines = Some x.
Proof.
  intros. unfold get_result_field, field_candidates.
  assert (Hin : In l (matching_lines (field_marker indent name) lines)) by (apply matching_lines_In; auto).
  destruct (matching_lines (field_marker indent name) lines); [contradiction | simpl; eauto].
Qed.

(* ------------------------------------------------------------------ table rows *)

Lemma split_ws_skip : forall w s, all_ws w = true -> split_ws (w ++ s) = split_ws s.
Proof.
  induction w; intros s H; [reflexivity |].
  simpl in H. apply andb_true_iff in H. destruct H as [H1 H2]. simpl. rewrite H1. auto.
Qed.

Lemma split_ws_all_ws : forall w, all_ws w = true -> split_ws w = [].
Proof. intros. rewrite <- (app_nil_r_s w). now rewrite split_ws_skip. Qed.

(* rest is empty or starts with a blank *)
Definition breaks (rest : string) : Prop :=
  match rest with "" => True | String d _ => is_ws d = true end.

Lemma split_ws_step : forall c r,
  split_ws (String c r) =
  if is_ws c then split_ws r
  else match r with
       | "" => [String c ""]
       | String d _ => if is_ws d then String c "" :: split_ws r else cons_head c (split_ws r)
       end.
Proof. reflexivity. Qed.

Lemma split_ws_token : forall t rest, ws_free t = true -> t <> "" -> breaks rest ->
  split_ws (t ++ rest) = t :: split_ws rest.
Proof.
  induction t; intros rest H Hne Hb; [contradiction |].
  simpl in H. apply andb_true_iff in H. destruct H as [H1 H2]. apply negb_true_iff in H1.
  change (String a t ++ rest) with (String a (t ++ rest)). rewrite split_ws_step, H1.
  destruct t as [|b t'].
  - simpl append. destruct rest as [|d rest']; [reflexivity |]. simpl in Hb. now rewrite Hb.
  - assert (Hb' : is_ws b = false).
    { simpl in H2. apply andb_true_iff in H2. destruct H2 as [H2 _]. now apply negb_true_iff in H2. }
    rewrite IHt by (auto; discriminate).
    change (String b t' ++ rest) with (String b (t' ++ rest)). cbv iota. rewrite Hb'. reflexivity.
Qed.

(* cells of a row: (token, what follows it); separators between tokens are non-empty blanks *)
Fixpoint cells_ok (cells : list (string * string)) : bool :=
  match cells with
  | [] => true
  | (t, s) :: r =>
      ws_free t && negb (is_empty t) && all_ws s
      && (match r with [] => true | _ => negb (is_empty s) end) && cells_ok r
  end.

Lemma breaks_render : forall sep r, all_ws sep = true ->
  (match r with [] => true | _ => negb (is_empty sep) end) = true -> cells_ok r = true ->
  breaks (render_row sep r).
Proof.
  intros sep r Hs Hne Hr. destruct r as [|[t s] r].
  - simpl. destruct sep; simpl; [trivial |]. simpl in Hs. apply andb_true_iff in Hs. tauto.
  - simpl in Hne. destruct sep; [discriminate |]. simpl. simpl in Hs. apply andb_true_iff in Hs. tauto.
Qed.

(* str.split() of a rendered row gives back its tokens, in order *)
Lemma split_ws_row : forall cells lead, all_ws lead = true -> cells_ok cells = true ->
  split_ws (render_row lead cells) = map fst cells.
Proof.
  induction cells as [|[t s] r IH]; intros lead Hl Hc.
  - simpl. now apply split_ws_all_ws.
  - simpl in Hc. repeat (apply andb_true_iff in Hc; destruct Hc as [Hc ?]).
    simpl render_row. rewrite split_ws_skip by assumption.
    rewrite split_ws_token.
    + simpl. f_equal. apply IH; assumption.
    + assumption.
    + destruct t; [discriminate | discriminate].
    + apply breaks_render; assumption.
Qed.

(* ------------------------------------------------------------------ the add-on style tables *)

Definition PIPE : ascii := "|"%char.
Definition no_pipe (s : string) : bool := all_chars (fun c => negb (Ascii.eqb c PIPE)) s.
Definition unpipe_cells (cells : list (string * string)) : list (string * string) :=
  map (fun ts => (fst ts, remove_char PIPE (snd ts))) cells.

(* a printed row: what precedes the first figure, then (figure, what follows it) *)
Definition row : Type := (string * list (string * string))%type.
Definition render (r : row) : string := render_row (fst r) (snd r).
Definition row_tokens (r : row) : list string := map fst (snd r).

(* figures are blank- and bar-free and non-empty; once the bars are gone they are separated by blanks *)
Definition row_ok (r : row) : bool :=
  all_ws (remove_char PIPE (fst r)) && forallb (fun ts => no_pipe (fst ts)) (snd r)
  && cells_ok (unpipe_cells (snd r)).

Lemma unpipe_render : forall cells lead,
  forallb (fun ts => no_pipe (fst ts)) cells = true ->
  remove_char PIPE (render_row lead cells) = render_row (remove_char PIPE lead) (unpipe_cells cells).
Proof.
  induction cells as [|[t s] r IH]; intros lead H; [reflexivity |].
  simpl in H. apply andb_true_iff in H. destruct H as [H1 H2].
  simpl. rewrite !remove_char_app, (remove_char_absent _ _ H1). now rewrite IH.
Qed.

Lemma map_fst_unpipe : forall cells, map fst (unpipe_cells cells) = map fst cells.
Proof. induction cells as [|[t s] r IH]; simpl; [reflexivity | now rewrite IH]. Qed.

Lemma row_split : forall r, row_ok r = true ->
  split_ws (remove_char PIPE (render r)) = row_tokens r.
Proof.
  intros [lead cells] H. unfold row_ok in H. simpl in H.
  apply andb_true_iff in H. destruct H as [H H3]. apply andb_true_iff in H. destruct H as [H1 H2].
  unfold render, row_tokens. simpl. rewrite unpipe_render by assumption.
  rewrite split_ws_row by assumption. apply map_fst_unpipe.
Qed.

Lemma skipn_exact : forall (A : Type) (pre l : list A) n, List.length pre = n -> skipn n (pre ++ l) = l.
Proof. intros A pre l n <-. induction pre; simpl; auto. Qed.

Lemma max_len_const : forall ls m, ls <> [] -> (forall l, In l ls -> List.length l = m) -> max_len ls = m.
Proof.
  induction ls as [|a ls IH]; intros m Hne H; [contradiction |].
  simpl. rewrite (H a) by (left; reflexivity).
  destruct ls as [|b ls']; [simpl; lia |].
  rewrite (IH m); [lia | discriminate | intros; apply H; now right].
Qed.

Lemma pad_row_id : forall k n l, List.length l = n -> pad_row k n l = l.
Proof. intros k n l <-. destruct k; simpl; [reflexivity | now rewrite Nat.ltb_irrefl]. Qed.

Lemma map_id_in : forall (A : Type) (f : A -> A) l, (forall x, In x l -> f x = x) -> map f l = l.
Proof. induction l; simpl; intros H; [reflexivity |]. rewrite H by auto. rewrite IHl; auto. Qed.

Lemma filter_all : forall (A : Type) (f : A -> bool) l, (forall x, In x l -> f x = true) -> filter f l = l.
Proof. induction l; simpl; intros H; [reflexivity |]. rewrite H by auto. rewrite IHl; auto. Qed.

Lemma cells_first_token : forall cells, cells_ok cells = true -> cells <> [] ->
  existsb (fun t => negb (is_empty t)) (map fst cells) = true.
Proof.
  intros [|[t s] r] H Hne; [contradiction |]. simpl in H.
  apply andb_true_iff in H. destruct H as [H _]. apply andb_true_iff in H. destruct H as [H _].
  apply andb_true_iff in H. destruct H as [H _]. apply andb_true_iff in H. destruct H as [_ H].
  simpl. now rewrite H.
Qed.

Lemma addons_rows_rendered : forall pre (rows : list row) m,
  List.length pre = 5%nat -> rows <> [] -> (1 <= m)%nat ->
  (forall r, In r rows -> row_ok r = true /\ List.length (snd r) = m) ->
  addons_rows (pre ++ map render rows) = Some (map (fun r => map parse_number (row_tokens r)) rows).
Proof.
  intros pre rows m Hpre Hne Hm H. unfold addons_rows.
  rewrite skipn_exact by assumption. rewrite map_map.
  assert (E : map (fun x => split_ws (remove_char "|" (render x))) rows = map row_tokens rows).
  { apply map_ext_in. intros r Hr. apply row_split. now apply H. }
  rewrite E. clear E.
  assert (Hnn : map row_tokens rows <> []) by (destruct rows; [contradiction | discriminate]).
  destruct (map row_tokens rows) eqn:Et; [contradiction |].
  rewrite <- Et. clear Hnn.
  assert (Hlen : forall x, In x (map row_tokens rows) -> List.length x = m).
  { intros x Hx. apply in_map_iff in Hx. destruct Hx as (r & <- & Hr). unfold row_tokens. rewrite map_length. now apply H. }
  rewrite (max_len_const _ m); [| destruct rows; [contradiction | discriminate] | assumption].
  rewrite map_id_in by (intros; apply pad_row_id; auto).
  rewrite filter_all.
  - now rewrite map_map.
  - intros x Hx. apply in_map_iff in Hx. destruct Hx as (r & <- & Hr). destruct (H r Hr) as [Hok Hl].
    unfold row_ok in Hok. apply andb_true_iff in Hok. destruct Hok as [_ Hc].
    unfold row_tokens. rewrite <- map_fst_unpipe. apply cells_first_token; [assumption |].
    destruct (snd r); [simpl in Hl; lia | discriminate].
Qed.

(* ------------------------------------------------------------------ the prefilter used by the kernel check *)

Lemma prefixb_app_inv : forall x y s, prefixb (x ++ y) s = true -> exists s', s = x ++ s' /\ prefixb y s' = true.
Proof.
  induction x; intros y s H; [exists s; auto |].
  destruct s as [|b s]; [discriminate |]. simpl in H.
  destruct (Ascii.eqb a b) eqn:E; [| discriminate]. apply Ascii.eqb_eq in E. subst b.
  destruct (IHx y s H) as (s' & -> & Hp). exists s'. auto.
Qed.

Lemma contains_app_r : forall x y s, contains (x ++ y) s = true -> contains y s = true.
Proof.
  induction s; intros H.
  - simpl in H. destruct (prefixb (x ++ y) "") eqn:E; [| discriminate].
    apply prefixb_app_inv in E. destruct E as (s' & E & Hp). rewrite E. now apply contains_app_l, contains_prefix.
  - simpl in H. destruct (prefixb (x ++ y) (String a s)) eqn:E.
    + apply prefixb_app_inv in E. destruct E as (s' & E & Hp). rewrite E. now apply contains_app_l, contains_prefix.
    + apply contains_cons. auto.
Qed.

Lemma filter_prefilter : forall (A : Type) (f p : A -> bool) l,
  (forall x, f x = true -> p x = true) -> filter f (filter p l) = filter f l.
Proof.
  induction l; intros H; [reflexivity |]. simpl.
  destruct (p a) eqn:Ep; simpl.
  - destruct (f a); now rewrite IHl.
  - destruct (f a) eqn:Ef; [rewrite (H a Ef) in Ep; discriminate | now apply IHl].
Qed.

Lemma field_marker_relevant : forall indent name l,
  contains (field_marker indent name) l = true -> relevant_line l = true.
Proof.
  intros indent name l H. unfold relevant_line, field_marker in *.
  rewrite <- app_assoc_s in H. apply contains_app_r in H. now rewrite H.
Qed.

Lemma eq_marker_relevant : forall name l, contains (eq_marker name) l = true -> relevant_line l = true.
Proof.
  intros name l H. unfold relevant_line, eq_marker in *.
  rewrite <- app_assoc_s in H. apply contains_app_r in H. rewrite H. apply orb_true_r.
Qed.

(* dropping the lines that have neither ": " nor " = " changes no field *)
Lemma candidates_prefilter : forall f lines,
  candidates_of f (filter relevant_line lines) = candidates_of f lines.
Proof.
  intros f lines. unfold candidates_of, field_candidates, eq_candidates, matching_lines.
  destruct (fs_kind f) as [|[|[|k]]]; rewrite filter_prefilter; try reflexivity;
    intros x Hx; first [exact (field_marker_relevant _ _ _ Hx) | exact (eq_marker_relevant _ _ Hx)].
Qed.

(* ------------------------------------------------------------------ as_csv *)

Definition unit_text (u : option string) : string := match u with Some x => x | None => "" end.

Lemma csv_fields_In : forall (V : Type) cat (fs : list (string * option (V * option string))) r,
  In r (csv_fields cat fs) <->
  exists name v u, In (name, Some (v, u)) fs /\ r = CSV cat (escape_commas name) None v (unit_text u).
Proof.
  induction fs as [|[name [[v u]|]] fs IH]; intros r; simpl.
  - split; [tauto | intros (? & ? & ? & [] & _)].
  - rewrite IH. split.
    + intros [<- | (n & v' & u' & Hin & ->)]; [exists name, v, u; auto | exists n, v', u'; auto].
    + intros (n & v' & u' & [E | Hin] & ->); [inversion E; subst; auto | right; exists n, v', u'; auto].
  - rewrite IH. split.
    + intros (n & v' & u' & Hin & ->). exists n, v', u'; auto.
    + intros (n & v' & u' & [E | Hin] & ->); [discriminate | exists n, v', u'; auto].
Qed.

Lemma csv_column_cons : forall (V : Type) cat nm un i (r : list V) rs,
  csv_column cat nm un i (r :: rs) =
  match nth_error r 0, nth_error r (S i), csv_column cat nm un i rs with
  | Some y, Some v, Some rest => Some (CSV cat nm (Some y) v un :: rest)
  | _, _, _ => None
  end.
Proof. reflexivity. Qed.

Lemma csv_columns_cons : forall (V : Type) cat i h hs (rows : list (list V)),
  csv_columns cat i (h :: hs) rows =
  let (nm, un) := header_name_unit h in
  match csv_column cat nm un i rows, csv_columns cat (S i) hs rows with
  | Some a, Some b => Some (a ++ b)%list
  | _, _ => None
  end.
Proof. reflexivity. Qed.

Lemma csv_column_spec : forall (V : Type) cat nm un i (rows : list (list V)) l,
  csv_column cat nm un i rows = Some l ->
  List.length l = List.length rows /\
  forall j r, nth_error rows j = Some r ->
    exists y v, nth_error r 0 = Some y /\ nth_error r (S i) = Some v /\
                nth_error l j = Some (CSV cat nm (Some y) v un).
Proof.
  induction rows as [|r0 rows IH]; intros l H.
  - simpl in H. inversion H. split; [reflexivity |]. intros j r Hj. destruct j; simpl in Hj; discriminate.
  - rewrite csv_column_cons in H. destruct (nth_error r0 0) as [y|] eqn:Ey; destruct (nth_error r0 (S i)) as [v|] eqn:Ev;
      destruct (csv_column cat nm un i rows) as [rest|] eqn:Er; simpl in H; try discriminate.
    injection H as <-. destruct (IH rest eq_refl) as [Hl Hc]. split; [simpl; now rewrite Hl |].
    intros [|j] r Hj; simpl in Hj.
    + inversion Hj; subst r. exists y, v. auto.
    + apply Hc in Hj. exact Hj.
Qed.

Lemma csv_column_defined : forall (V : Type) cat nm un i (rows : list (list V)),
  (forall r, In r rows -> (S i < List.length r)%nat) -> exists l, csv_column cat nm un i rows = Some l.
Proof.
  induction rows as [|r0 rows IH]; intros H; [simpl; eauto |].
  rewrite csv_column_cons. assert (H0 : (S i < List.length r0)%nat) by (apply H; now left).
  destruct (nth_error r0 0) eqn:E0; [| apply nth_error_None in E0; lia].
  destruct (nth_error r0 (S i)) eqn:E1; [| apply nth_error_None in E1; lia].
  destruct IH as [l ->]; [intros; apply H; now right | eauto].
Qed.

Lemma csv_columns_spec : forall (V : Type) cat (hs : list string) i (rows : list (list V)) l,
  csv_columns cat i hs rows = Some l ->
  List.length l = (List.length hs * List.length rows)%nat /\
  forall k h, nth_error hs k = Some h -> forall j r, nth_error rows j = Some r ->
    exists y v, nth_error r 0 = Some y /\ nth_error r (S (i + k)) = Some v /\
                nth_error l (k * List.length rows + j)
                = Some (CSV cat (fst (header_name_unit h)) (Some y) v (snd (header_name_unit h))).
Proof.
  induction hs as [|h0 hs IH]; intros i rows l H.
  - simpl in H. inversion H. split; [reflexivity |]. intros k h Hk. destruct k; simpl in Hk; discriminate.
  - rewrite csv_columns_cons in H. destruct (header_name_unit h0) as [nm un] eqn:Eh.
    destruct (csv_column cat nm un i rows) as [a|] eqn:Ea; destruct (csv_columns cat (S i) hs rows) as [b|] eqn:Eb;
      simpl in H; try discriminate.
    injection H as <-. apply csv_column_spec in Ea. destruct Ea as [La Ca].
    destruct (IH _ _ _ Eb) as [Lb Cb]. split; [rewrite app_length, La, Lb; simpl; lia |].
    intros [|k] h Hk j r Hj; simpl in Hk.
    + inversion Hk; subst h. rewrite Eh. simpl. rewrite Nat.add_0_r.
      destruct (Ca j r Hj) as (y & v & Hy & Hv & Hn). exists y, v. repeat split; auto.
      rewrite nth_error_app1; [assumption |]. rewrite La. apply nth_error_Some. congruence.
    + destruct (Cb k h Hk j r Hj) as (y & v & Hy & Hv & Hn). exists y, v. repeat split; auto.
      * now replace (S (i + S k)) with (S (S i + k)) by lia.
      * rewrite nth_error_app2 by (rewrite La; simpl; lia).
        rewrite La. replace (S k * List.length rows + j - List.length rows)%nat with (k * List.length rows + j)%nat
          by (simpl; lia). assumption.
Qed.

Lemma csv_columns_defined : forall (V : Type) cat (hs : list string) i (rows : list (list V)),
  (forall r, In r rows -> (i + List.length hs < List.length r)%nat) -> exists l, csv_columns cat i hs rows = Some l.
Proof.
  induction hs as [|h0 hs IH]; intros i rows H; [simpl; eauto |].
  rewrite csv_columns_cons. destruct (header_name_unit h0) as [nm un].
  destruct (csv_column_defined V cat nm un i rows) as [a ->]; [intros r Hr; apply H in Hr; simpl in Hr; lia |].
  destruct (IH (S i) rows) as [b ->]; [intros r Hr; apply H in Hr; simpl in Hr; lia | eauto].
Qed.

(* ------------------------------------------------------------------ the .json next to the report *)

Lemma rounds_to_sound : forall q m e, rounds_to q m e = true ->
  (Qabs (q - mflt_Q m e) <= (1 # 2) * pow10Q e + float_tol * Qabs q)%Q.
Proof. intros q m e H. unfold rounds_to in H. now apply Qle_bool_iff in H. Qed.

(* ------------------------------------------------------------------ client fields against writer labels *)

Lemma no_foreign_match_table_labels : forall fields labels others,
  no_foreign_match_table fields labels others = true ->
  forall f l, In f fields -> In l labels ->
  contains (marker_of f) (label_prefix l) = true -> own_label f l = true.
Proof.
  intros fields labels others H f l Hf Hl Hc. unfold no_foreign_match_table in H.
  rewrite forallb_forall in H. specialize (H f Hf). apply andb_true_iff in H. destruct H as [H _].
  rewrite forallb_forall in H. specialize (H l Hl). rewrite Hc in H. exact H.
Qed.

Lemma no_foreign_match_table_others : forall fields labels others,
  no_foreign_match_table fields labels others = true ->
  forall f o, In f fields -> In o others -> contains (marker_of f) o = false.
Proof.
  intros fields labels others H f o Hf Ho. unfold no_foreign_match_table in H.
  rewrite forallb_forall in H. specialize (H f Hf). apply andb_true_iff in H. destruct H as [_ H].
  rewrite forallb_forall in H. specialize (H o Ho). now apply negb_true_iff in H.
Qed.

(* ------------------------------------------------------------------ statements assembled for Props/C10.v *)

(* what the writers print for a chiller run with 'Units:Cooling Produced, kW': SUMMARY shows the current unit,
   SURFACE EQUIPMENT the preferred one *)
Lemma choice_matters :
  exists name lines k1 k2 r1 r2,
    get_result_field k1 name false 4 lines = Some r1 /\
    get_result_field k2 name false 4 lines = Some r2 /\ r1 <> r2.
Proof.
  exists "Average Cooling Production",
         [ "      Average Cooling Production:                          9568.24 kW" ++ NL;
           "      Average Cooling Production:                          9568.24 MW" ++ NL ],
         0%nat, 1%nat,
         (MR (MFlt 956824 (-2)) (Some "kW")), (MR (MFlt 956824 (-2)) (Some "MW")).
  repeat split; try (vm_compute; reflexivity). discriminate.
Qed.

Lemma same_print_same_answer :
  forall name indent lines tok unit,
  head_not_space name -> ws_free tok = true -> tok <> "" -> ws_free unit = true -> unit <> "" ->
  (forall l, In l lines -> contains (field_marker indent name) l = true ->
     exists ind pad trail, all_ws trail = true /\ (2 <= ind + pad)%nat /\
       contains (name ++ ":") (spaces pad ++ (tok ++ " " ++ unit) ++ trail) = false /\
       l = render_scalar ind name pad tok (Some unit) trail) ->
  forall k x, get_result_field k name false indent lines = Some x -> x = MR (parse_number tok) (Some unit).
Proof.
  intros name indent lines tok unit Hn Ht Htn Hu Hun H.
  apply any_choice. intros l Hl Hc.
  destruct (H l Hl Hc) as (ind & pad & trail & Htr & Hw & Hno & ->).
  now apply roundtrip_unit.
Qed.

Lemma csv_table_spec :
  forall (V : Type) cat h0 (hs : list string) (rows : list (list V)) l,
  csv_table cat (h0 :: hs) rows = Some l ->
  List.length l = (List.length hs * List.length rows)%nat /\
  forall k h, nth_error hs k = Some h -> forall j r, nth_error rows j = Some r ->
    exists y v, nth_error r 0 = Some y /\ nth_error r (S k) = Some v /\
                nth_error l (k * List.length rows + j)
                = Some (CSV cat (fst (header_name_unit h)) (Some y) v (snd (header_name_unit h))).
Proof. intros V cat h0 hs rows l H. exact (csv_columns_spec V cat hs 0 rows l H). Qed.

Lemma csv_table_defined :
  forall (V : Type) cat h0 (hs : list string) (rows : list (list V)),
  (forall r, In r rows -> (List.length hs < List.length r)%nat) ->
  exists l, csv_table cat (h0 :: hs) rows = Some l.
Proof. intros V cat h0 hs rows H. exact (csv_columns_defined V cat hs 0 rows H). Qed.

Lemma bicycle_line_not_found :
  exists lab v, strip lab = "Economic Model" /\
                eq_candidates "Economic Model" [spaces 6 ++ lab ++ " = " ++ v ++ NL] = [].
Proof. exists "Economic Model ", "BICYCLE". split; vm_compute; reflexivity. Qed.

Lemma ws_equal_lines_may_parse_differently :
  exists a b, normalize_ws a = normalize_ws b /\
              field_of_line "X" false a <> field_of_line "X" false b.
Proof.
  exists "    X:   5  m", "    X:   5 m". split; [reflexivity | vm_compute; discriminate].
Qed.

(* ------------------------------------------------------------------ equal-sign fields *)

Lemma split_step : forall sep c r,
  split_from sep 0 (String c r) =
  if prefixb sep (String c r) then "" :: split_from sep (String.length sep - 1) r
  else cons_head c (split_from sep 0 r).
Proof. reflexivity. Qed.

Lemma split_skip : forall sep x s, split_from sep (String.length x) (x ++ s) = split_from sep 0 s.
Proof. induction x; simpl; intros; [reflexivity | apply IHx]. Qed.

Lemma split_no_occurrence : forall sep s, contains sep s = false -> split_from sep 0 s = [s].
Proof.
  induction s; intros H; [reflexivity |].
  apply contains_false_inv in H. destruct H as [H1 H2].
  rewrite split_step, H1, (IHs H2). reflexivity.
Qed.

Lemma split_hit : forall a o s,
  split_from (String a o) 0 (String a o ++ s) = "" :: split_from (String a o) 0 s.
Proof.
  intros. change (String a o ++ s) with (String a (o ++ s)). rewrite split_step.
  change (String a (o ++ s)) with (String a o ++ s). rewrite prefixb_app.
  replace (String.length (String a o) - 1)%nat with (String.length o) by (simpl; lia).
  now rewrite split_skip.
Qed.

Lemma three_blanks : forall j x, exists y, spaces (S j) ++ String SPc (String SPc x) = String SPc (String SPc (String SPc y)).
Proof. intros [|[|j]] x; simpl; eauto. Qed.

Lemma split_leading_spaces : forall a m n rest, a <> SPc ->
  let sep := String SPc (String SPc (String a m)) in
  split_from sep 0 (spaces n ++ sep ++ rest) = spaces n :: split_from sep 0 rest.
Proof.
  intros a m n rest Ha sep. induction n.
  - change (spaces 0 ++ sep ++ rest) with (sep ++ rest). unfold sep. rewrite split_hit. reflexivity.
  - destruct (three_blanks n (String a m ++ rest)) as [y Hy].
    assert (E : spaces (S n) ++ sep ++ rest = String SPc (String SPc (String SPc y))) by (unfold sep; simpl in *; exact Hy).
    change (spaces (S n) ++ sep ++ rest) with (String SPc (spaces n ++ sep ++ rest)) in *.
    rewrite split_step. rewrite E.
    assert (F : prefixb sep (String SPc (String SPc (String SPc y))) = false).
    { unfold sep. simpl. destruct (Ascii.eqb a SPc) eqn:Q; [apply Ascii.eqb_eq in Q; contradiction | reflexivity]. }
    rewrite F, IHn. reflexivity.
Qed.

(* a printed 'label = value' line is read back as the text after the equal sign, up to the end of line *)
Lemma eq_roundtrip : forall name v n,
  head_not_space name ->
  all_chars (fun c => negb (Ascii.eqb c NLc)) v = true ->
  contains (eq_marker name) (v ++ NL) = false ->
  eq_of_line (eq_marker name) (spaces n ++ eq_marker name ++ v ++ NL) = MR (MStr v) None.
Proof.
  intros name v n Hn Hv Hc. unfold eq_of_line, split_str.
  destruct name as [|a m]; [contradiction |]. simpl in Hn.
  unfold eq_marker in *. change ("  " ++ String a m ++ " = ") with (String SPc (String SPc (String a (m ++ " = ")))) in *.
  rewrite split_leading_spaces by assumption. simpl nth.
  rewrite split_no_occurrence by assumption. simpl nth.
  rewrite remove_char_app, (remove_char_absent _ _ Hv). simpl. now rewrite app_nil_r_s.
Qed.

Lemma eq_marker_finds_line : forall name v n,
  contains (eq_marker name) (spaces n ++ eq_marker name ++ v) = true.
Proof. intros. apply contains_mid. Qed.

(* ------------------------------------------------------------------ rows of the two production profiles *)

Lemma resplit1_step : forall c r,
  resplit1 (String c r) =
  if is_ws c then
    match r with
    | String d _ => if is_ws d then resplit1 r else "" :: resplit1 r
    | "" => "" :: resplit1 r
    end
  else cons_head c (resplit1 r).
Proof. reflexivity. Qed.

Lemma resplit1_nonempty : forall s, exists h t, resplit1 s = h :: t.
Proof.
  induction s; [simpl; eauto |]. rewrite resplit1_step. destruct IHs as (h & t & E).
  destruct (is_ws a).
  - destruct s; [eauto |]. destruct (is_ws a0); eauto.
  - rewrite E. simpl. eauto.
Qed.

(* a blank run in front of a figure opens a new (so far empty) piece *)
Lemma resplit1_blanks : forall w c r, all_ws w = true -> w <> "" -> is_ws c = false ->
  resplit1 (w ++ String c r) = "" :: resplit1 (String c r).
Proof.
  induction w; intros c r H Hne Hc; [contradiction |].
  simpl in H. apply andb_true_iff in H. destruct H as [H1 H2].
  change (String a w ++ String c r) with (String a (w ++ String c r)). rewrite resplit1_step, H1.
  destruct w as [|b w'].
  - change ("" ++ String c r) with (String c r). cbv iota. now rewrite Hc.
  - assert (Hb : is_ws b = true) by (simpl in H2; apply andb_true_iff in H2; tauto).
    change (String b w' ++ String c r) with (String b (w' ++ String c r)). cbv iota. rewrite Hb.
    change (String b (w' ++ String c r)) with (String b w' ++ String c r).
    apply IHw; [assumption | discriminate | assumption].
Qed.

Lemma resplit1_token : forall t rest, ws_free t = true ->
  resplit1 (t ++ rest) = (t ++ hd "" (resplit1 rest)) :: tl (resplit1 rest).
Proof.
  induction t; intros rest H.
  - simpl. destruct (resplit1_nonempty rest) as (h & tl0 & ->). reflexivity.
  - simpl in H. apply andb_true_iff in H. destruct H as [H1 H2]. apply negb_true_iff in H1.
    change (String a t ++ rest) with (String a (t ++ rest)). rewrite resplit1_step, H1, (IHt rest H2). reflexivity.
Qed.

(* cells of a production-profile row: like cells_ok, and nothing after the last figure *)
Fixpoint cells_end (cells : list (string * string)) : bool :=
  match cells with
  | [] => false
  | [(_, s)] => is_empty s
  | _ :: r => cells_end r
  end.

Lemma resplit1_row : forall cells lead,
  all_ws lead = true -> lead <> "" -> cells_ok cells = true -> cells_end cells = true ->
  resplit1 (render_row lead cells) = "" :: map fst cells.
Proof.
  induction cells as [|[t s] r IH]; intros lead Hl Hne Hc He; [discriminate |].
  simpl in Hc.
  apply andb_true_iff in Hc. destruct Hc as [Hc Hr]. apply andb_true_iff in Hc. destruct Hc as [Hc Hs2].
  apply andb_true_iff in Hc. destruct Hc as [Hc Hs]. apply andb_true_iff in Hc. destruct Hc as [Ht Htn].
  destruct (ws_free_head t Ht) as (c & r0 & -> & Hcw); [destruct t; [discriminate | discriminate] |].
  simpl render_row. change (String c r0 ++ render_row s r) with (String c (r0 ++ render_row s r)).
  rewrite resplit1_blanks by assumption. f_equal.
  change (String c (r0 ++ render_row s r)) with (String c r0 ++ render_row s r).
  rewrite resplit1_token by assumption.
  destruct r as [|p r'].
  - simpl in He. destruct s; [| discriminate]. simpl. now rewrite app_nil_r_s.
  - rewrite IH; auto.
    + simpl. now rewrite app_nil_r_s.
    + destruct s; [discriminate | discriminate].
Qed.

Definition prow_ok (r : row) : bool :=
  all_ws (fst r) && negb (is_empty (fst r)) && cells_ok (snd r) && cells_end (snd r).

(* the rows of the HEATING/COOLING/ELECTRICITY profiles: every printed row with at least two figures comes
   back, in order, figure by figure *)
Lemma data_rows_rendered : forall (rows : list row),
  (forall r, In r rows -> prow_ok r = true /\ (2 <= List.length (snd r))%nat) ->
  data_rows (map render rows) = map (fun r => map parse_number (row_tokens r)) rows.
Proof.
  intros rows H. unfold data_rows. rewrite map_map.
  assert (E : map (fun x => tl (resplit1 (render x))) rows = map row_tokens rows).
  { apply map_ext_in. intros r Hr. destruct (H r Hr) as [Hok _]. unfold prow_ok in Hok.
    apply andb_true_iff in Hok. destruct Hok as [Hok He]. apply andb_true_iff in Hok. destruct Hok as [Hok Hc].
    apply andb_true_iff in Hok. destruct Hok as [Hl Hn].
    unfold render. rewrite resplit1_row; auto. destruct (fst r); [discriminate | discriminate]. }
  rewrite E. rewrite filter_all; [now rewrite map_map |].
  intros x Hx. apply in_map_iff in Hx. destruct Hx as (r & <- & Hr). destruct (H r Hr) as [_ Hl].
  unfold row_tokens. rewrite map_length. apply Nat.ltb_lt. lia.
Qed.
