(* Proofs/RedrillProofs.v - lemmas about Model/Redrill.v *)
From Coq Require Import QArith Qabs Qminmax List ZArith Bool Lia Lqa PeanoNat.
From Verif Require Import Base.Flat Proofs.FlatFacts Model.Redrill.
Import ListNotations.
Open Scope Q_scope.

(* ---- first_below = np.argmax of the mask ---- *)

Lemma first_below_prefix lim l : forall i, first_below lim l = Some i -> Forall (fun x => lim <= x) (firstn i l).
Proof.
  induction l as [|x r IH]; intros i H; cbn in H. discriminate.
  destruct (Qltb_spec x lim). injection H as <-. constructor.
  destruct (first_below lim r) as [j|] eqn:E; [|discriminate]. injection H as <-.
  cbn. constructor. lra. apply IH. reflexivity.
Qed.

Lemma first_below_none lim l : first_below lim l = None -> Forall (fun x => lim <= x) l.
Proof.
  induction l as [|x r IH]; intros H; cbn in H. constructor.
  destruct (Qltb_spec x lim). discriminate.
  destruct (first_below lim r); [discriminate|]. constructor. lra. apply IH. reflexivity.
Qed.

Lemma first_below_lt lim l : forall i, first_below lim l = Some i -> (i < length l)%nat.
Proof.
  induction l as [|x r IH]; intros i E; cbn in E. discriminate.
  destruct (Qltb x lim). injection E as <-. cbn. lia.
  destruct (first_below lim r) eqn:E'; [|discriminate]. injection E as <-. cbn. specialize (IH _ eq_refl). lia.
Qed.

Lemma first_below_hit lim l : forall i, first_below lim l = Some i -> nth i l 0 < lim.
Proof.
  induction l as [|x r IH]; intros i E; cbn in E. discriminate.
  destruct (Qltb_spec x lim). injection E as <-. cbn. assumption.
  destruct (first_below lim r) eqn:E'; [|discriminate]. injection E as <-. cbn. apply IH. reflexivity.
Qed.

(* ---- tile / firstn ---- *)

Lemma Forall_tile (A : Type) (Pr : A -> Prop) l k : Forall Pr l -> Forall Pr (tile l k).
Proof. intros H. induction k; cbn. constructor. apply Forall_app. split; assumption. Qed.

Lemma Forall_firstn (A : Type) (Pr : A -> Prop) n (l : list A) : Forall Pr l -> Forall Pr (firstn n l).
Proof. revert l. induction n; intros l H; cbn. constructor. destruct H; constructor; auto. Qed.

Lemma tile_length (A : Type) (l : list A) k : length (tile l k) = (k * length l)%nat.
Proof. induction k; cbn. reflexivity. rewrite app_length, IHk. reflexivity. Qed.

Lemma nth_firstn_lt (A : Type) (d : A) : forall m (l : list A) j, (j < m)%nat -> nth j (firstn m l) d = nth j l d.
Proof.
  induction m; intros l j H. lia. destruct l as [|x l]; cbn. reflexivity.
  destruct j; cbn. reflexivity. apply IHm. lia.
Qed.

Lemma mod_sub_self j m : (m <> 0)%nat -> (m <= j)%nat -> ((j - m) mod m = j mod m)%nat.
Proof.
  intros Hm Hj. replace j with ((j - m) + 1 * m)%nat at 2 by lia. rewrite Nat.mod_add by assumption. reflexivity.
Qed.

Lemma nth_tile (A : Type) (d : A) (l : list A) : (length l <> 0)%nat ->
  forall k j, (j < k * length l)%nat -> nth j (tile l k) d = nth (j mod length l) l d.
Proof.
  intros Hl. induction k; intros j Hj. lia. cbn [tile].
  destruct (Nat.lt_ge_cases j (length l)) as [H|H].
  - rewrite app_nth1 by assumption. rewrite Nat.mod_small by assumption. reflexivity.
  - rewrite app_nth2 by assumption. rewrite IHk by (cbn in Hj; lia). rewrite mod_sub_self by assumption. reflexivity.
Qed.

(* ---- the step ---- *)

Definition index_of (P : list Q) (maxdd : Q) : nat := argmax_below (drawdown_limit maxdd P) P.

Lemma redrill_index P T maxdd : rd_index (redrill P T maxdd) = index_of P maxdd.
Proof.
  unfold redrill, index_of. cbv zeta. destruct (Nat.eqb_spec (argmax_below (drawdown_limit maxdd P) P) 0) as [E|E]; cbn.
  symmetry. exact E. reflexivity.
Qed.

Lemma redrill_unchanged P T maxdd : index_of P maxdd = 0%nat ->
  redrill P T maxdd = {| rd_P := P; rd_T := T; rd_count := 0; rd_index := 0 |}.
Proof. intros H. unfold redrill. cbv zeta. unfold index_of in H. rewrite H. reflexivity. Qed.

Lemma redrill_changed P T maxdd : index_of P maxdd <> 0%nat ->
  let idx := index_of P maxdd in let r := (length P / idx)%nat in
  let Pn := firstn (length P) (tile (firstn idx P) (S r)) in
  redrill P T maxdd = {| rd_P := Pn; rd_T := firstn (length Pn) (tile (firstn idx T) (S r)); rd_count := r; rd_index := idx |}.
Proof.
  intros H. unfold redrill. cbv zeta. unfold index_of in *.
  destruct (Nat.eqb_spec (argmax_below (drawdown_limit maxdd P) P) 0); [contradiction|reflexivity].
Qed.

Lemma index_lt P maxdd : index_of P maxdd <> 0%nat -> (index_of P maxdd < length P)%nat.
Proof.
  unfold index_of, argmax_below. destruct (first_below _ P) eqn:E; [|lia]. intros _. eapply first_below_lt. exact E.
Qed.

(* the index is the first step at which the production temperature is below the limit *)
Theorem index_spec P maxdd : index_of P maxdd <> 0%nat ->
  nth (index_of P maxdd) P 0 < drawdown_limit maxdd P /\
  Forall (fun x => drawdown_limit maxdd P <= x) (firstn (index_of P maxdd) P).
Proof.
  unfold index_of, argmax_below. destruct (first_below _ P) eqn:E; [|lia]. intros _. split.
  eapply first_below_hit. exact E. apply first_below_prefix. exact E.
Qed.

Lemma cover_length (n idx : nat) : (idx <> 0)%nat -> (n <= S (n / idx) * idx)%nat.
Proof. intros Hi. pose proof (Nat.div_mod n idx Hi). pose proof (Nat.mod_upper_bound n idx Hi). nia. Qed.

Theorem redrill_length P T maxdd :
  length (rd_P (redrill P T maxdd)) = length P /\
  (length T = length P -> length (rd_T (redrill P T maxdd)) = length P).
Proof.
  destruct (Nat.eq_dec (index_of P maxdd) 0) as [E|E].
  - rewrite redrill_unchanged by assumption. cbn. split; [reflexivity|intros H; exact H].
  - rewrite redrill_changed by assumption. cbv zeta. cbn [rd_P rd_T].
    pose proof (index_lt P maxdd E) as Hlt. pose proof (cover_length (length P) _ E) as Hc.
    assert (HP : length (firstn (length P) (tile (firstn (index_of P maxdd) P) (S (length P / index_of P maxdd)))) = length P).
    { rewrite firstn_length, tile_length, firstn_length_le by lia. apply Nat.min_l. lia. }
    split; [exact HP|]. intros HT. rewrite HP.
    rewrite firstn_length, tile_length, firstn_length_le by lia. apply Nat.min_l. lia.
Qed.

(* every production temperature of the result is at least (1 - maxdrawdown) x the initial one *)
Theorem redrill_floor P T maxdd : 0 <= hd 0 P -> 0 <= maxdd <= 1 ->
  Forall (fun x => drawdown_limit maxdd P <= x) (rd_P (redrill P T maxdd)).
Proof.
  intros H0 [Hm0 Hm1].
  destruct (Nat.eq_dec (index_of P maxdd) 0) as [E|E].
  - rewrite redrill_unchanged by assumption. cbn [rd_P].
    unfold index_of, argmax_below in E. destruct (first_below (drawdown_limit maxdd P) P) as [i|] eqn:F.
    + subst i. destruct P as [|x r]; cbn in F. discriminate.
      destruct (Qltb_spec x (drawdown_limit maxdd (x :: r))) as [Hlt|]. 2:{ destruct (first_below _ r); discriminate. }
      exfalso. unfold drawdown_limit in Hlt. cbn [hd] in *. nra.
    + apply first_below_none. exact F.
  - rewrite redrill_changed by assumption. cbv zeta. cbn [rd_P].
    apply Forall_firstn. apply Forall_tile. apply (index_spec P maxdd E).
Qed.

(* the result repeats the first cycle: element j is element (j mod index) of the original series *)
Theorem redrill_cycle P T maxdd : index_of P maxdd <> 0%nat -> length T = length P ->
  forall j, (j < length P)%nat ->
    nth j (rd_P (redrill P T maxdd)) 0 = nth (j mod index_of P maxdd) P 0 /\
    nth j (rd_T (redrill P T maxdd)) 0 = nth (j mod index_of P maxdd) T 0.
Proof.
  intros E HT j Hj. destruct (redrill_length P T maxdd) as [HlP _].
  rewrite redrill_changed in * by assumption. cbv zeta in *. cbn [rd_P rd_T] in *.
  pose proof (index_lt P maxdd E) as Hlt. pose proof (cover_length (length P) _ E) as Hc.
  pose proof (Nat.mod_upper_bound j _ E) as Hm.
  rewrite HlP. rewrite !nth_firstn_lt by assumption.
  rewrite !nth_tile by (rewrite firstn_length_le by lia; lia).
  rewrite !firstn_length_le by lia. rewrite !nth_firstn_lt by assumption. split; reflexivity.
Qed.

(* every reported redrilling that falls inside the series restarts the profile from its beginning *)
Theorem redrill_restarts P T maxdd : index_of P maxdd <> 0%nat -> length T = length P ->
  forall k, (k * index_of P maxdd < length P)%nat ->
    nth (k * index_of P maxdd) (rd_P (redrill P T maxdd)) 0 = hd 0 P /\
    nth (k * index_of P maxdd) (rd_T (redrill P T maxdd)) 0 = hd 0 T.
Proof.
  intros E HT k Hk. destruct (redrill_cycle P T maxdd E HT _ Hk) as [H1 H2].
  rewrite H1, H2, Nat.mod_mul by assumption. destruct P, T; split; reflexivity.
Qed.

(* the reported count, and where the reported redrillings fall *)
Theorem redrill_count P T maxdd : index_of P maxdd <> 0%nat ->
  let idx := index_of P maxdd in let r := rd_count (redrill P T maxdd) in
  r = (length P / idx)%nat /\ (1 <= r)%nat /\ ((r - 1) * idx < length P)%nat /\
  ((r * idx < length P)%nat <-> (length P mod idx <> 0)%nat) /\
  ((length P mod idx = 0)%nat -> (r * idx = length P)%nat).
Proof.
  intros E. cbv zeta. rewrite redrill_changed by assumption. cbv zeta. cbn [rd_count].
  pose proof (index_lt P maxdd E) as Hlt.
  pose proof (Nat.div_mod (length P) _ E) as Hd. pose proof (Nat.mod_upper_bound (length P) _ E) as Hm.
  set (idx := index_of P maxdd) in *. set (q := (length P / idx)%nat) in *. set (m := (length P mod idx)%nat) in *.
  assert (1 <= q)%nat by (destruct q; [nia|lia]).
  split; [reflexivity|]. split; [assumption|]. split; [nia|]. split; [split; intros; nia|nia].
Qed.

Theorem redrill_unchanged_when_never_below P T maxdd : index_of P maxdd = 0%nat ->
  rd_P (redrill P T maxdd) = P /\ rd_T (redrill P T maxdd) = T /\ rd_count (redrill P T maxdd) = 0%nat.
Proof. intros E. rewrite redrill_unchanged by assumption. cbn. repeat split. Qed.

(* ---- what the pinned code does outside the hypotheses ---- *)

(* when the cycle divides the series length the last reported redrilling falls at index = length: it has no
   restart in the series (2 reported, 1 restart) *)
Theorem redrill_count_refuted :
  exists P T maxdd, 0 <= hd 0 P /\ 0 < maxdd <= 1 /\ length T = length P /\ index_of P maxdd <> 0%nat /\
    ~ (rd_count (redrill P T maxdd) * index_of P maxdd < length P)%nat.
Proof.
  exists [100; 95; 80; 70], [100; 95; 80; 70], (1 # 10).
  split. cbn. lra. split. lra. split. reflexivity.
  split. vm_compute. discriminate. vm_compute. lia.
Qed.

(* a negative initial production temperature lies below its own "limit" and is never redrilled *)
Theorem redrill_floor_negative_refuted :
  exists P T maxdd, hd 0 P < 0 /\ 0 < maxdd <= 1 /\
    ~ Forall (fun x => drawdown_limit maxdd P <= x) (rd_P (redrill P T maxdd)).
Proof.
  exists [-(3); -(3)], [2; 2], (1 # 10). split. cbn. lra. split. lra.
  intros H. vm_compute in H. inversion H as [|x l Hx Hl]; subst. apply Hx. reflexivity.
Qed.

(* ---- soundness of the checkers ---- *)

Lemma all_ge_sound lo l : all_ge lo l = true -> Forall (fun x => lo <= x) l.
Proof.
  induction l as [|x r IH]; cbn; intros H. constructor.
  destruct (Qleb_spec lo x); [|discriminate]. constructor. assumption. apply IH. exact H.
Qed.

Lemma all_le_sound hi l : all_le hi l = true -> Forall (fun x => x <= hi) l.
Proof.
  induction l as [|x r IH]; cbn; intros H. constructor.
  destruct (Qleb_spec x hi); [|discriminate]. constructor. assumption. apply IH. exact H.
Qed.

Theorem floor_ok_sound maxdd P : floor_ok 0 maxdd P = true -> Forall (fun x => drawdown_limit maxdd P <= x) P.
Proof.
  unfold floor_ok, slack. cbv zeta. intros H. apply all_ge_sound in H.
  eapply Forall_impl; [|exact H]. cbn. intros x Hx. lra.
Qed.

Lemma prefix_eq_sound : forall a b, prefix_eq a b = true ->
  forall j, (j < length a)%nat -> (j < length b)%nat -> nth j a 0 == nth j b 0.
Proof.
  induction a as [|x a IH]; intros b H j Ha Hb; cbn in Ha. lia.
  destruct b as [|y b]; cbn in Hb. lia. cbn in H.
  destruct (Qeqb x y) eqn:E; [|discriminate]. apply Qeqb_true in E.
  destruct j; cbn. exact E. apply IH; [assumption|lia|lia].
Qed.

Lemma nth_skipn_q : forall i (l : list Q) j, nth j (skipn i l) 0 = nth (i + j) l 0.
Proof.
  induction i; intros l j; cbn. reflexivity. destruct l; cbn. destruct j; reflexivity. apply IHi.
Qed.

Theorem periodic_sound idx l : periodic idx l = true ->
  forall j, (j + idx < length l)%nat -> nth (j + idx) l 0 == nth j l 0.
Proof.
  unfold periodic. intros H j Hj.
  pose proof (prefix_eq_sound _ _ H j) as Hs. rewrite skipn_length in Hs.
  rewrite nth_skipn_q in Hs. rewrite Nat.add_comm. apply Hs; lia.
Qed.

(* ---- soundness of the monotone-within-cycles checker and of the model-2 range checker ---- *)

Lemma mod_succ_case p m : (m <> 0)%nat ->
  (S p mod m = if Nat.eqb (S (p mod m)) m then 0 else S (p mod m))%nat.
Proof.
  intros Hm. pose proof (Nat.div_mod p m Hm) as Hp. pose proof (Nat.mod_upper_bound p m Hm) as Hu.
  destruct (Nat.eqb_spec (S (p mod m)) m) as [E|E].
  - replace (S p) with (0 + (S (p / m)) * m)%nat by nia. rewrite Nat.mod_add by assumption. apply Nat.mod_0_l. assumption.
  - replace (S p) with (S (p mod m) + (p / m) * m)%nat by nia. rewrite Nat.mod_add by assumption. apply Nat.mod_small. lia.
Qed.

(* [prev] sits at position p-1, the elements of l at p, p+1, ...; c is p mod m *)
Lemma noninc_cycles_sound tol m : (m <> 0)%nat ->
  forall l p c prev, c = (p mod m)%nat -> noninc_cycles tol m c prev l = true ->
  forall j, (j < length l)%nat -> ((p + j) mod m <> 0)%nat ->
    nth (S j) (prev :: l) 0 <= nth j (prev :: l) 0 + slack tol (nth j (prev :: l) 0).
Proof.
  intros Hm. induction l as [|x r IH]; intros p c prev Hc H j Hj Hmod; cbn in Hj. lia.
  cbn [noninc_cycles] in H.
  assert (Hc' : (if Nat.eqb (S c) m then 0 else S c)%nat = (S p mod m)%nat) by (subst c; symmetry; apply mod_succ_case; assumption).
  destruct j as [|j].
  - rewrite Nat.add_0_r in Hmod. destruct (Nat.eqb_spec c 0) as [E|E]; [congruence|].
    cbn [nth]. destruct (Qleb_spec x (prev + slack tol prev)); [assumption|discriminate].
  - assert (Hr : noninc_cycles tol m (if Nat.eqb (S c) m then 0 else S c)%nat x r = true).
    { destruct (Nat.eqb c 0); [exact H|]. destruct (Qleb x (prev + slack tol prev)); [exact H|discriminate]. }
    change (nth (S (S j)) (prev :: x :: r) 0) with (nth (S j) (x :: r) 0).
    change (nth (S j) (prev :: x :: r) 0) with (nth j (x :: r) 0).
    apply (IH (S p) _ x Hc' Hr j). lia. replace (S p + j)%nat with (p + S j)%nat by lia. exact Hmod.
Qed.

Definition cycle_of (idx : nat) (l : list Q) : nat := if Nat.eqb idx 0 then length l else idx.

(* the checker accepts only series that, inside every cycle, never rise by more than the stated slack (none for tol = 0) *)
Theorem noninc_between_sound tol idx l : noninc_between tol idx l = true ->
  forall j, (S j < length l)%nat -> (S j mod cycle_of idx l <> 0)%nat ->
    nth (S j) l 0 <= nth j l 0 + slack tol (nth j l 0).
Proof.
  unfold noninc_between, cycle_of. destruct l as [|x r]; intros H j Hj Hmod; cbn [length] in *. lia.
  set (m := if Nat.eqb idx 0 then S (length r) else idx) in *.
  assert (Hm : (m <> 0)%nat) by (unfold m; destruct (Nat.eqb_spec idx 0); lia).
  assert (Hc : (if Nat.eqb idx 1 then 0 else 1)%nat = (1 mod m)%nat).
  { unfold m. destruct (Nat.eqb_spec idx 1) as [->|E1]. reflexivity.
    destruct (Nat.eqb_spec idx 0) as [E0|E0].
    - destruct r as [|y r]; [cbn in Hj; lia|]. symmetry. apply Nat.mod_small. cbn. lia.
    - symmetry. apply Nat.mod_small. lia. }
  apply (noninc_cycles_sound tol m Hm r 1%nat _ x Hc H j). lia. exact Hmod.
Qed.

Theorem lhs_range_ok_sound Trock Tinj l : lhs_range_ok 0 Trock Tinj l = true ->
  Forall (fun x => x == Trock \/ (Tinj <= x /\ x <= Trock)) l.
Proof.
  induction l as [|x r IH]; cbn [lhs_range_ok]; intros H. constructor.
  destruct (Qeqb x Trock || (Qleb (Tinj - slack 0 Tinj) x && Qleb x (Trock + slack 0 Trock))) eqn:E; [|discriminate].
  constructor; [|apply IH; exact H].
  apply orb_true_iff in E. destruct E as [E|E]. left. apply Qeqb_true. exact E.
  apply andb_true_iff in E. destruct E as [E1 E2]. apply Qleb_true in E1, E2. unfold slack in *. right. lra.
Qed.

(* ---- a second call on the same object (district heating) ---- *)

(* repaired code: whatever count an earlier call left, the result is that of a fresh call *)
Theorem redrill_call_fresh prev P T maxdd : redrill_call prev P T maxdd = redrill P T maxdd.
Proof. reflexivity. Qed.

Theorem redrill_call_count prev P T maxdd :
  rd_count (redrill_call prev P T maxdd) = rd_count (redrill P T maxdd) /\
  (index_of P maxdd = 0%nat -> rd_count (redrill_call prev P T maxdd) = 0%nat).
Proof.
  split. reflexivity. intros E. unfold redrill_call. rewrite redrill_unchanged by assumption. reflexivity.
Qed.

Theorem redrill_call_series prev P T maxdd :
  rd_P (redrill_call prev P T maxdd) = rd_P (redrill P T maxdd) /\
  rd_T (redrill_call prev P T maxdd) = rd_T (redrill P T maxdd) /\
  rd_index (redrill_call prev P T maxdd) = rd_index (redrill P T maxdd).
Proof. repeat split. Qed.

(* pinned code (before fix 825a507): series recomputed, count carried over *)
Theorem redrill_call_pinned_series prev P T maxdd :
  rd_P (redrill_call_pinned prev P T maxdd) = rd_P (redrill P T maxdd) /\
  rd_T (redrill_call_pinned prev P T maxdd) = rd_T (redrill P T maxdd) /\
  rd_index (redrill_call_pinned prev P T maxdd) = rd_index (redrill P T maxdd).
Proof.
  unfold redrill_call_pinned. cbv zeta. destruct (Nat.eqb_spec (rd_index (redrill P T maxdd)) 0) as [E|E]; cbn; auto.
Qed.

Theorem redrill_call_pinned_count_partial prev P T maxdd : prev = 0%nat \/ index_of P maxdd <> 0%nat ->
  rd_count (redrill_call_pinned prev P T maxdd) = rd_count (redrill P T maxdd).
Proof.
  intros H. unfold redrill_call_pinned. cbv zeta. rewrite redrill_index.
  destruct (Nat.eqb_spec (index_of P maxdd) 0) as [E|E]; [|reflexivity].
  destruct H as [->|H]; [|contradiction]. rewrite redrill_unchanged by assumption. reflexivity.
Qed.

(* a count left by the first call was reported although the second call's profile never falls below the limit *)
Theorem redrill_call_pinned_stale_count_refuted :
  exists prev P T maxdd, 0 <= hd 0 P /\ 0 < maxdd <= 1 /\ index_of P maxdd = 0%nat /\
    rd_P (redrill_call_pinned prev P T maxdd) = P /\ rd_count (redrill_call_pinned prev P T maxdd) <> 0%nat /\
    rd_count (redrill_call prev P T maxdd) = 0%nat.
Proof.
  exists 1%nat, [100; 99; 98], [105; 104; 103], (1 # 10).
  split. cbn. lra. split. lra. split. reflexivity. split. reflexivity. split. vm_compute. discriminate. reflexivity.
Qed.

