(* Proofs/MonteCarloProofs.v - lemmas about Model/MonteCarlo.v (C13, lock part also used by C14) *)
From Coq Require Import List Arith Bool QArith Qminmax Qround Lia Lqa.
From Verif Require Import Model.MonteCarlo.
Import ListNotations.
Open Scope nat_scope.

(* ---------------------------------------------------------------- spans *)
Lemma span_length s p d : length (span s p d) = d.
Proof. unfold span. rewrite map_length, seq_length. reflexivity. Qed.

Lemma span_nth s p d k dflt : k < d -> nth k (span s p d) dflt = (s, p + k).
Proof.
  intros H. unfold span.
  rewrite nth_indep with (d' := (fun k => (s, p + k)) 0) by (rewrite map_length, seq_length; exact H).
  rewrite map_nth with (f := fun k => (s, p + k)). rewrite seq_nth by exact H. reflexivity.
Qed.

Lemma span_inj s p s' p' d : 0 < d -> span s p d = span s' p' d -> s = s' /\ p = p'.
Proof.
  intros Hd E. assert (H : nth 0 (span s p d) (0, 0) = nth 0 (span s' p' d) (0, 0)) by (rewrite E; reflexivity).
  rewrite !span_nth in H by exact Hd. inversion H. split; lia.
Qed.

(* ---------------------------------------------------------------- fresh seed per task *)
Lemma run_sched_fresh seeds d : forall sched ws t,
  run_sched FreshPerTask seeds d ws t sched = map (fun i => span (seeds i) 0 d) (seq t (length sched)).
Proof.
  induction sched as [|w r IH]; intros ws t; cbn [run_sched length seq map]; [reflexivity|].
  f_equal. apply IH.
Qed.

Lemma run_pool_fresh_length seeds d g0 sched : length (run_pool FreshPerTask seeds d g0 sched) = length sched.
Proof. unfold run_pool. rewrite run_sched_fresh, map_length, seq_length. reflexivity. Qed.

Lemma run_pool_fresh_nth seeds d g0 sched i : i < length sched ->
  nth i (run_pool FreshPerTask seeds d g0 sched) [] = span (seeds i) 0 d.
Proof.
  intros H. unfold run_pool. rewrite run_sched_fresh.
  rewrite nth_indep with (d' := (fun i => span (seeds i) 0 d) 0) by (rewrite map_length, seq_length; exact H).
  rewrite map_nth with (f := fun i => span (seeds i) 0 d). rewrite seq_nth by exact H. reflexivity.
Qed.

(* no raw draw (stream, position) is consumed twice, whatever the number of workers and the schedule *)
Lemma fresh_no_reuse seeds d g0 sched :
  (forall i j, i < length sched -> j < length sched -> seeds i = seeds j -> i = j) ->
  forall i j ki kj, i < length sched -> j < length sched -> ki < d -> kj < d ->
    nth ki (nth i (run_pool FreshPerTask seeds d g0 sched) []) (0, 0)
    = nth kj (nth j (run_pool FreshPerTask seeds d g0 sched) []) (0, 0) ->
    i = j /\ ki = kj.
Proof.
  intros Hinj i j ki kj Hi Hj Hki Hkj E.
  rewrite !run_pool_fresh_nth in E by assumption.
  rewrite !span_nth in E by assumption. inversion E. split; [apply Hinj; assumption | lia].
Qed.

Lemma fresh_vectors_distinct seeds d g0 sched :
  0 < d ->
  (forall i j, i < length sched -> j < length sched -> seeds i = seeds j -> i = j) ->
  forall i j, i < length sched -> j < length sched -> i <> j ->
    nth i (run_pool FreshPerTask seeds d g0 sched) [] <> nth j (run_pool FreshPerTask seeds d g0 sched) [].
Proof.
  intros Hd Hinj i j Hi Hj Hne E. apply Hne.
  rewrite !run_pool_fresh_nth in E by assumption.
  apply span_inj in E; [|exact Hd]. apply Hinj; tauto.
Qed.

(* ---------------------------------------------------------------- fork-copy *)
Lemma run_sched_length disc seeds d : forall sched ws t, length (run_sched disc seeds d ws t sched) = length sched.
Proof. induction sched as [|w r IH]; intros; cbn [run_sched length]; [reflexivity|]. f_equal. apply IH. Qed.

Lemma run_sched_fork seeds d s p0 : forall sched ws t (c : nat -> nat),
  (forall w, ws w = G s (p0 + d * c w)) ->
  forall i, i < length sched ->
    nth i (run_sched ForkCopy seeds d ws t sched) []
    = span s (p0 + d * (c (nth i sched 0) + count_occ Nat.eq_dec (firstn i sched) (nth i sched 0))) d.
Proof.
  induction sched as [|w r IH]; intros ws t c Hc i Hi; cbn [length] in Hi; [lia|].
  destruct i as [|i]; cbn [run_sched nth firstn count_occ].
  - unfold run_task, take_draws. cbn [fst]. rewrite Hc. cbn [g_stream g_pos]. f_equal. lia.
  - rewrite (IH _ (S t) (fun v => if Nat.eqb v w then S (c w) else c v)).
    + f_equal. destruct (Nat.eq_dec w (nth i r 0)) as [E|E].
      * subst w. rewrite Nat.eqb_refl. lia.
      * destruct (Nat.eqb_spec (nth i r 0) w); [congruence|]. lia.
    + intros v. unfold run_task, take_draws, upd. cbn [snd]. rewrite Hc. cbn [g_stream g_pos].
      destruct (Nat.eqb v w); [f_equal; lia | apply Hc].
    + lia.
Qed.

(* task i of a pool of forked copies re-reads the parent's stream at an offset that depends only on its rank *)
Lemma forkcopy_nth seeds d g0 sched i : i < length sched ->
  nth i (run_pool ForkCopy seeds d g0 sched) [] = span (g_stream g0) (g_pos g0 + d * rank sched i) d.
Proof.
  intros H. unfold run_pool, rank.
  rewrite (run_sched_fork seeds d (g_stream g0) (g_pos g0) sched _ 0 (fun _ => 0)).
  - reflexivity.
  - intros _. destruct g0 as [s p]. cbn [g_stream g_pos]. f_equal. lia.
  - exact H.
Qed.

Lemma forkcopy_same_rank_same_draws seeds d g0 sched i j :
  i < length sched -> j < length sched -> rank sched i = rank sched j ->
  nth i (run_pool ForkCopy seeds d g0 sched) [] = nth j (run_pool ForkCopy seeds d g0 sched) [].
Proof. intros Hi Hj E. rewrite !forkcopy_nth by assumption. rewrite E. reflexivity. Qed.

Lemma forkcopy_dup_iff seeds d g0 sched i j :
  0 < d -> i < length sched -> j < length sched ->
  (nth i (run_pool ForkCopy seeds d g0 sched) [] = nth j (run_pool ForkCopy seeds d g0 sched) []
   <-> rank sched i = rank sched j).
Proof.
  intros Hd Hi Hj. split.
  - rewrite !forkcopy_nth by assumption. intros E. apply span_inj in E; [|exact Hd]. nia.
  - apply forkcopy_same_rank_same_draws; assumption.
Qed.

Lemma first_occurrence w : forall l, In w l ->
  exists i, i < length l /\ nth i l 0 = w /\ count_occ Nat.eq_dec (firstn i l) w = 0.
Proof.
  induction l as [|a r IH]; intros H; [contradiction|].
  destruct (Nat.eq_dec a w) as [E|E].
  - exists 0. cbn. split; [lia|]. split; [exact E | reflexivity].
  - destruct H as [H|H]; [congruence|]. destruct (IH H) as (i & Hi & Hn & Hc).
    exists (S i). cbn [length nth firstn count_occ]. split; [lia|]. split; [exact Hn|].
    destruct (Nat.eq_dec a w); [congruence | exact Hc].
Qed.

(* as soon as two different workers each run a task, two tasks get identical draws *)
Lemma forkcopy_duplicates seeds d g0 sched w1 w2 :
  w1 <> w2 -> In w1 sched -> In w2 sched ->
  exists i j, i <> j /\ i < length sched /\ j < length sched /\
    nth i (run_pool ForkCopy seeds d g0 sched) [] = nth j (run_pool ForkCopy seeds d g0 sched) [].
Proof.
  intros Hne H1 H2.
  destruct (first_occurrence w1 sched H1) as (i & Hi & Ni & Ci).
  destruct (first_occurrence w2 sched H2) as (j & Hj & Nj & Cj).
  exists i, j. split; [intros E; subst j; congruence|]. split; [exact Hi|]. split; [exact Hj|].
  apply forkcopy_same_rank_same_draws; try assumption.
  unfold rank. rewrite Ni, Nj, Ci, Cj. reflexivity.
Qed.

(* ---------------------------------------------------------------- supports *)
Open Scope Q_scope.

Lemma uniform_support lo hi u : lo <= hi -> 0 <= u -> u < 1 ->
  lo <= uniform_t lo hi u /\ uniform_t lo hi u <= hi.
Proof. intros H0 H1 H2. unfold uniform_t. split; nra. Qed.

Lemma uniform_support_strict lo hi u : lo < hi -> 0 <= u -> u < 1 -> uniform_t lo hi u < hi.
Proof. intros H0 H1 H2. unfold uniform_t. nra. Qed.

Section Triangular.
  Variable sqrtf : Q -> Q.
  Hypothesis sqrt_nonneg : forall x, 0 <= x -> 0 <= sqrtf x.
  Hypothesis sqrt_mono : forall x y, 0 <= x -> x <= y -> sqrtf x <= sqrtf y.
  Hypothesis sqrt_square : forall a, 0 <= a -> sqrtf (a * a) == a.

  Lemma triangular_support l m r u : l <= m -> m <= r -> l < r -> 0 <= u -> u <= 1 ->
    l <= triangular_t sqrtf l m r u /\ triangular_t sqrtf l m r u <= r.
  Proof.
    intros Hl Hm Hlr Hu0 Hu1. unfold triangular_t.
    remember (r - l) as base eqn:Eb. remember (m - l) as lb eqn:El.
    assert (Eb' : base == r - l) by (rewrite Eb; reflexivity).
    assert (El' : lb == m - l) by (rewrite El; reflexivity).
    clear Eb El.
    assert (Hb : 0 < base) by lra.
    assert (Hlb : 0 <= lb) by lra.
    assert (Hq : (lb / base) * base == lb) by (field; lra).
    destruct (Qle_bool u (lb / base)) eqn:E.
    - apply Qle_bool_iff in E.
      assert (Hub : u * base <= lb) by nra.
      assert (Hlbb : 0 <= lb * base) by nra.
      assert (H1 : 0 <= u * (lb * base)) by nra.
      assert (H2 : u * (lb * base) <= lb * lb).
      { assert (Ht : u * (lb * base) == (u * base) * lb) by ring. rewrite Ht. nra. }
      pose proof (sqrt_nonneg _ H1) as S0.
      pose proof (sqrt_mono _ _ H1 H2) as S1.
      rewrite (sqrt_square lb Hlb) in S1. split; lra.
    - assert (E' : lb / base < u).
      { apply Qnot_le_lt. intros C. apply Qle_bool_iff in C. congruence. }
      assert (Hub : lb < u * base) by nra.
      assert (Hrm : 0 <= r - m) by lra.
      assert (Hrmb : 0 <= (r - m) * base) by nra.
      assert (Hu' : 0 <= 1 - u) by lra.
      assert (H1 : 0 <= (1 - u) * ((r - m) * base)) by nra.
      assert (Hle : (1 - u) * base <= r - m) by nra.
      assert (H2 : (1 - u) * ((r - m) * base) <= (r - m) * (r - m)).
      { assert (Ht : (1 - u) * ((r - m) * base) == ((1 - u) * base) * (r - m)) by ring. rewrite Ht. nra. }
      pose proof (sqrt_nonneg _ H1) as S0.
      pose proof (sqrt_mono _ _ H1 H2) as S1.
      rewrite (sqrt_square (r - m) Hrm) in S1. split; lra.
  Qed.
End Triangular.

Lemma binomial_support p us : (binomial_t p us <= length us)%nat.
Proof. induction us as [|u r IH]; cbn [binomial_t length]; [lia|]. destruct (Qle_bool p u); lia. Qed.

Lemma lognormal_support (expf : Q -> Q) : (forall z, 0 < expf z) -> forall z, 0 < lognormal_t expf z.
Proof. intros H z. apply H. Qed.

(* the boolean support test used on the rows of real runs is sound *)
Lemma in_support_uniform a b x : in_support DUniform [a; b] x = true -> Qmin a b <= x /\ x <= Qmax a b.
Proof. cbn. intros H. apply andb_true_iff in H. destruct H as [H1 H2]. split; apply Qle_bool_iff; assumption. Qed.

Lemma in_support_triangular l m r x : in_support DTriangular [l; m; r] x = true -> l <= x /\ x <= r.
Proof. cbn. intros H. apply andb_true_iff in H. destruct H as [H1 H2]. split; apply Qle_bool_iff; assumption. Qed.

Lemma in_support_lognormal a b x : in_support DLognormal [a; b] x = true -> 0 < x.
Proof.
  cbn. intros H. apply negb_true_iff in H. apply Qnot_le_lt. intros C. apply Qle_bool_iff in C. congruence.
Qed.

Lemma in_support_binomial n p x : in_support DBinomial [n; p] x = true ->
  0 <= x /\ x <= n /\ exists k : Z, x == inject_Z k.
Proof.
  cbn. intros H. apply andb_true_iff in H. destruct H as [H H3]. apply andb_true_iff in H. destruct H as [H1 H2].
  split; [apply Qle_bool_iff; exact H1|]. split; [apply Qle_bool_iff; exact H2|].
  exists (Qfloor x). unfold is_integer in H3. apply Qeq_bool_iff in H3. symmetry. exact H3.
Qed.

Close Scope Q_scope.

(* ---------------------------------------------------------------- guarded append *)
Lemma setp_same ph t p : setp ph t p t = p.
Proof. unfold setp. rewrite Nat.eqb_refl. reflexivity. Qed.
Lemma setp_other ph t p u : u <> t -> setp ph t p u = ph u.
Proof. intros H. unfold setp. destruct (Nat.eqb_spec u t); [contradiction | reflexivity]. Qed.

Lemma owned_by_true l t : owned_by l t = true <-> l = Some t.
Proof.
  destruct l as [o|]; cbn; [|split; discriminate].
  split; intros H; [apply Nat.eqb_eq in H; congruence | inversion H; apply Nat.eqb_refl].
Qed.

(* rows in the file = the work packages that ended in DoneOk, each exactly once: under EVERY schedule, both variants *)
Definition file_inv (st : lstate) : Prop :=
  NoDup (file st) /\ forall t, In t (file st) <-> phases st t = PDoneOk.

Lemma file_inv_idle l0 : file_inv (LS l0 (fun _ => PIdle) []).
Proof. split; [constructor|]. intros t. cbn. split; [contradiction | discriminate]. Qed.

Lemma file_inv_init : file_inv linit.
Proof. apply file_inv_idle. Qed.

Lemma file_inv_step early st t a : file_inv st -> file_inv (lstep_gen early st t a).
Proof.
  intros Same. pose proof Same as [Hnd Hin].
  assert (Keep : forall p l, p <> PDoneOk -> phases st t <> PDoneOk ->
            file_inv (LS l (setp (phases st) t p) (file st))).
  { intros p l Hp Ht. split; [exact Hnd|]. intros u. cbn [file phases].
    destruct (Nat.eq_dec u t) as [->|Hu].
    - rewrite setp_same. rewrite Hin. split; intros; congruence.
    - rewrite setp_other by exact Hu. apply Hin. }
  assert (Add : forall l, phases st t <> PDoneOk -> file_inv (LS l (setp (phases st) t PDoneOk) (file st ++ [t]))).
  { intros l Ht. assert (Hnot : ~ In t (file st)) by (rewrite Hin; exact Ht).
    split; cbn [file phases].
    + clear - Hnd Hnot. induction (file st) as [|x r IH]; cbn.
      * constructor; [intros []|constructor].
      * inversion Hnd; subst. constructor.
        -- rewrite in_app_iff. intros [H|[H|[]]]; [contradiction|]. subst. apply Hnot. left. reflexivity.
        -- apply IH; [assumption|]. intros H. apply Hnot. right. exact H.
    + intros u. rewrite in_app_iff. destruct (Nat.eq_dec u t) as [->|Hu].
      * rewrite setp_same. split; [reflexivity|]. intros _. right. left. reflexivity.
      * rewrite setp_other by exact Hu. rewrite <- Hin.
        split; [intros [H|[H|[]]]; [exact H | congruence] | intros H; left; exact H]. }
  unfold lstep_gen, lstep_pass. destruct (phases st t) eqn:P; destruct a; try exact Same.
  - destruct (free_for (lock st) t); [apply Keep; congruence | exact Same].
  - apply Keep; congruence.
  - apply Keep; congruence.
  - apply Keep; congruence.
  - destruct (owned_by (lock st) t); apply Keep; congruence.
  - destruct (owned_by (lock st) t); [apply Add; congruence|].
    destruct early; [apply Add; congruence | apply Keep; congruence].
Qed.

Lemma file_inv_run early : forall sched st, file_inv st -> file_inv (lrun_gen early st sched).
Proof.
  induction sched as [|[t a] r IH]; intros st H; cbn [lrun_gen]; [exact H|]. apply IH. apply file_inv_step. exact H.
Qed.

Lemma lock_file_sound_from early l0 sched :
  let st := lrun_gen early (LS l0 (fun _ => PIdle) []) sched in
  NoDup (file st) /\ forall t, In t (file st) <-> phases st t = PDoneOk.
Proof. apply file_inv_run. apply file_inv_idle. Qed.

Lemma lock_file_sound early sched :
  NoDup (file (lrun_gen early linit sched)) /\
  forall t, In t (file (lrun_gen early linit sched)) <-> phases (lrun_gen early linit sched) t = PDoneOk.
Proof. apply (lock_file_sound_from early None sched). Qed.

(* the current code (row flushed while the lock is believed held): without a time-out no row is lost, whatever the
   interleaving - mutual exclusion is not needed any more *)
Lemma no_loss_step st t a : a <> Timeout -> (forall u, phases st u <> PDoneLost) ->
  forall u, phases (lstep st t a) u <> PDoneLost.
Proof.
  intros Ha H. unfold lstep, lstep_gen, lstep_pass.
  assert (Set_ : forall p l f, p <> PDoneLost -> forall u, phases (LS l (setp (phases st) t p) f) u <> PDoneLost).
  { intros p l f Hp u. cbn [phases]. destruct (Nat.eq_dec u t) as [->|Hu]; [rewrite setp_same; exact Hp | rewrite setp_other by exact Hu; apply H]. }
  destruct (phases st t) eqn:P; destruct a; try congruence; try exact H.
  - destruct (free_for (lock st) t); [apply Set_; discriminate | exact H].
  - apply Set_; discriminate.
  - apply Set_; discriminate.
  - destruct (owned_by (lock st) t); apply Set_; discriminate.
  - destruct (owned_by (lock st) t); apply Set_; discriminate.
Qed.

Lemma no_timeout_no_loss : forall sched st, (forall u, phases st u <> PDoneLost) ->
  Forall (fun s => snd s <> Timeout) sched -> forall u, phases (lrun st sched) u <> PDoneLost.
Proof.
  induction sched as [|[t a] r IH]; intros st H F; [exact H|].
  inversion F as [|? ? Ha Fr]; subst. cbn [snd] in Ha.
  change (lrun st ((t, a) :: r)) with (lrun (lstep st t a) r). apply IH; [apply no_loss_step; assumption | exact Fr].
Qed.

(* from any content of the lock file (e.g. a stale lock left by a killed run), with take-overs allowed *)
Lemma flush_no_loss_from l0 sched : Forall (fun s => snd s <> Timeout) sched ->
  let st := lrun (LS l0 (fun _ => PIdle) []) sched in
  forall t, finished (phases st t) = true -> In t (file st).
Proof.
  intros F st t Ft. apply (proj2 (lock_file_sound_from true l0 sched)).
  pose proof (no_timeout_no_loss sched (LS l0 (fun _ => PIdle) []) (fun u => ltac:(discriminate)) F t) as Hn.
  change (phases st t = PDoneOk). change (phases st t <> PDoneLost) in Hn.
  destruct (phases st t); try discriminate; [reflexivity | congruence].
Qed.

Lemma step_not_timeout sched : Forall (fun s => snd s = Step) sched -> Forall (fun s : nat * action => snd s <> Timeout) sched.
Proof. apply Forall_impl. intros s E. rewrite E. discriminate. Qed.

Lemma flush_no_loss sched : Forall (fun s => snd s = Step) sched ->
  forall t, finished (phases (lrun linit sched) t) = true -> In t (file (lrun linit sched)).
Proof. intros F. apply (flush_no_loss_from None sched (step_not_timeout sched F)). Qed.

(* mutual exclusion, as a property of a schedule: before every step at most one task is between its
   successful check and its release, and nobody times out *)
Definition mutex_state (st : lstate) : Prop :=
  forall t u, critical (phases st t) = true -> critical (phases st u) = true -> t = u.

Fixpoint mutex_run_gen (early : bool) (st : lstate) (sched : list (nat * action)) : Prop :=
  match sched with
  | [] => True
  | (t, a) :: r => a = Step /\ mutex_state st /\ mutex_run_gen early (lstep_gen early st t a) r
  end.
Definition mutex_run := mutex_run_gen true.
Definition mutex_run_pinned := mutex_run_gen false.

Definition hold_inv (st : lstate) : Prop :=
  (forall t, phases st t = PWritten \/ phases st t = PHolding -> lock st = Some t) /\
  (forall t, phases st t <> PDoneLost).

Lemma hold_inv_step early st t : hold_inv st -> mutex_state st -> hold_inv (lstep_gen early st t Step).
Proof.
  intros [Hl Hn] Hm. unfold lstep_gen, lstep_pass.
  assert (Other : forall p l, (p = PWritten \/ p = PHolding -> l = Some t) -> p <> PDoneLost ->
            (forall u, u <> t -> phases st u = PWritten \/ phases st u = PHolding -> l = Some u) ->
            hold_inv (LS l (setp (phases st) t p) (file st))).
  { intros p l Hp Hd Ho. split; intros u; cbn [lock phases]; destruct (Nat.eq_dec u t) as [->|Hu];
      rewrite ?setp_same; rewrite ?setp_other by exact Hu; auto. }
  destruct (phases st t) eqn:P; try (split; assumption).
  - (* idle: check *)
    destruct (free_for (lock st) t); [|split; assumption].
    apply Other; [intros [H|H]; discriminate | discriminate | intros u _ Hu; apply Hl; exact Hu].
  - (* checked: write *)
    apply Other; [reflexivity | discriminate |].
    intros u Hu Hp. exfalso. apply Hu. apply Hm; [destruct Hp as [E|E]; rewrite E; reflexivity | rewrite P; reflexivity].
  - (* written: verify *)
    assert (E : owned_by (lock st) t = true) by (apply owned_by_true; apply Hl; left; exact P).
    rewrite E. apply Other; [intros _; apply Hl; left; exact P | discriminate | intros u _ Hu; apply Hl; exact Hu].
  - (* holding: release *)
    assert (E : owned_by (lock st) t = true) by (apply owned_by_true; apply Hl; right; exact P).
    rewrite E. split; intros u; cbn [lock phases]; destruct (Nat.eq_dec u t) as [->|Hu];
      rewrite ?setp_same; rewrite ?setp_other by exact Hu; try discriminate; try apply Hn.
    + intros [H|H]; discriminate.
    + intros Hp. exfalso. apply Hu. apply Hm; [destruct Hp as [E'|E']; rewrite E'; reflexivity | rewrite P; reflexivity].
Qed.

Lemma hold_inv_run early : forall sched st, hold_inv st -> mutex_run_gen early st sched -> hold_inv (lrun_gen early st sched).
Proof.
  induction sched as [|[t a] r IH]; intros st H M; cbn [lrun_gen]; [exact H|].
  cbn [mutex_run_gen] in M. destruct M as (-> & Hm & M). apply IH; [|exact M]. apply hold_inv_step; assumption.
Qed.

Lemma hold_inv_init : hold_inv linit.
Proof. split; intros t; cbn; [intros [H|H]; discriminate | discriminate]. Qed.

(* with mutual exclusion every finished work package has its row in the file (both variants) *)
Lemma mutex_no_loss early sched : mutex_run_gen early linit sched ->
  forall t, finished (phases (lrun_gen early linit sched) t) = true -> In t (file (lrun_gen early linit sched)).
Proof.
  intros M t F. pose proof (hold_inv_run early sched linit hold_inv_init M) as [_ Hn].
  apply (proj2 (lock_file_sound early sched)). specialize (Hn t).
  destruct (phases (lrun_gen early linit sched) t); try discriminate; [reflexivity | congruence].
Qed.

(* the protocol itself does not give mutual exclusion.  Code before 1d8733c: two work packages finish, one row *)
Lemma lock_loses_row_pinned :
  let st := lrun_pinned linit double_acquire_schedule in
  Forall (fun s => snd s = Step) double_acquire_schedule /\
  phases st 0 = PDoneLost /\ phases st 1 = PDoneOk /\ file st = [1].
Proof. cbn. repeat split; repeat constructor. Qed.

(* current code, same interleaving: both rows *)
Lemma lock_keeps_rows : file (lrun linit double_acquire_schedule) = [0; 1].
Proof. reflexivity. Qed.

(* the time-out still drops a row *)
Lemma lock_timeout_loses_row :
  let st := lrun linit timeout_schedule in
  phases st 0 = PDoneLost /\ phases st 1 = PDoneOk /\ file st = [1].
Proof. cbn. repeat split. Qed.

(* a stale lock is taken over and every work package of the run leaves its row (current code) *)
Lemma stale_lock_keeps_rows : file (lrun (lstale 7) (stale_serial_schedule 3)) = [0; 1; 2].
Proof. reflexivity. Qed.

(* ---------------------------------------------------------------- pass phrases *)
(* a contender whose pass phrase differs from the one in the lock file is refused, in every state *)
Lemma other_pass_refused pass early st a b :
  pass a <> pass b -> lock st = Some (pass a) -> phases st b = PIdle -> lstep_pass pass early st b Step = st.
Proof.
  intros Hne Hl Hb. unfold lstep_pass. rewrite Hb, Hl. cbn [free_for].
  destruct (Nat.eqb_spec (pass a) (pass b)); [contradiction | reflexivity].
Qed.

(* distinct pass phrases: 1 is still polling while 0 holds; one shared pass phrase: both are inside the critical section *)
Lemma shared_pass_no_exclusion :
  let d := lrun_pass (fun t => t) true linit overlap_schedule in
  let s := lrun_pass (fun _ => 7) true linit overlap_schedule in
  (phases d 0 = PHolding /\ phases d 1 = PIdle) /\ (phases s 0 = PHolding /\ phases s 1 = PHolding).
Proof. cbn. repeat split. Qed.
