(* Proofs/MCSettingsProofs.v - lemmas about Model/MCSettings.v and the dispatch of Model/MonteCarlo.v (C13) *)
From Coq Require Import List Arith Bool QArith String Ascii Lia.
From Verif Require Import Model.MonteCarlo Model.MCRows Model.MCSettings.
Import ListNotations.
Open Scope nat_scope.
Open Scope string_scope.

(* ---------------------------------------------------------------- reader loop: INPUT / OUTPUT lines in file order *)
Definition is_output_line (line : string) : bool :=
  match split_char "," (strip line) with p0 :: _ :: _ => negb (prefix "INPUT" p0) && prefix "OUTPUT" p0 | _ => false end.
Definition output_field (line : string) : string :=
  match split_char "," (strip line) with _ :: p1 :: _ => strip p1 | _ => "" end.

Lemma read_line_lists acc l acc' : read_line acc l = Some acc' ->
  s_inputs acc' = (s_inputs acc ++ (if is_input_line l then [input_fields l] else []))%list /\
  s_outputs acc' = (s_outputs acc ++ (if is_output_line l then [output_field l] else []))%list.
Proof.
  unfold read_line, is_input_line, is_output_line, input_fields, output_field.
  destruct (split_char "," (strip l)) as [|p0 [|p1 rest]]; try discriminate.
  intros H. inversion H; subst; clear H.
  destruct (prefix "INPUT" p0); cbn [negb andb s_inputs s_outputs]; [rewrite app_nil_r; split; reflexivity|].
  destruct (prefix "OUTPUT" p0); cbn [s_inputs s_outputs]; [rewrite app_nil_r; split; reflexivity|].
  destruct (prefix "ITERATIONS" p0), (prefix "MC_OUTPUT_FILE" p0), (prefix "PYTHON_PATH" p0), (prefix "HTML_PATH" p0);
    cbn [s_inputs s_outputs]; rewrite !app_nil_r; split; reflexivity.
Qed.

Lemma read_lines_lists : forall lines acc s, read_lines acc lines = Some s ->
  s_inputs s = (s_inputs acc ++ map input_fields (filter is_input_line lines))%list /\
  s_outputs s = (s_outputs acc ++ map output_field (filter is_output_line lines))%list.
Proof.
  induction lines as [|l r IH]; intros acc s H; cbn [read_lines] in H.
  - inversion H; subst. cbn. rewrite !app_nil_r. split; reflexivity.
  - destruct (read_line acc l) as [acc'|] eqn:E; [|discriminate].
    destruct (read_line_lists _ _ _ E) as [E1 E2]. destruct (IH _ _ H) as [H1 H2].
    rewrite H1, H2, E1, E2. cbn [filter]. rewrite <- !app_assoc.
    destruct (is_input_line l), (is_output_line l); cbn [map app]; split; reflexivity.
Qed.

Lemma read_settings_order lines s : read_settings lines = Some s ->
  s_inputs s = map input_fields (filter is_input_line lines) /\
  s_outputs s = map output_field (filter is_output_line lines).
Proof. intros H. apply read_lines_lists in H. exact H. Qed.

(* a line without a comma (a blank line, for one) makes the reader fail *)
Lemma read_settings_blank_line pre post : read_settings (pre ++ String (ascii_of_nat 10) "" :: post) = None.
Proof.
  unfold read_settings. generalize settings0. induction pre as [|l r IH]; intros acc; cbn [app read_lines].
  - reflexivity.
  - destruct (read_line acc l); [apply IH | reflexivity].
Qed.

(* ---------------------------------------------------------------- one sampled entry per INPUT line *)
Lemma prefix_head a s c r : prefix (String a s) (String c r) = true -> a = c.
Proof. cbn. destruct (ascii_dec a c); [trivial | discriminate]. Qed.

Lemma dispatch_at_most_one w : List.length (dispatch w) <= 1.
Proof.
  unfold dispatch. destruct (MonteCarlo.lstrip w) as [|c r].
  - cbn. lia.
  - destruct (prefix "normal" (String c r)) eqn:N; destruct (prefix "uniform" (String c r)) eqn:U;
    destruct (prefix "triangular" (String c r)) eqn:T; destruct (prefix "lognormal" (String c r)) eqn:L;
    destruct (prefix "binomial" (String c r)) eqn:B; cbn [List.length app]; try lia; exfalso;
    repeat match goal with H : prefix (String _ _) (String _ _) = true |- _ => apply prefix_head in H end; congruence.
Qed.

Definition recognised (wf : string * list Q) : bool := Nat.eqb (List.length (dispatch (fst wf))) 1.
Definition the_call (wf : string * list Q) : dist * list Q :=
  let k := hd DNormal (dispatch (fst wf)) in (k, call_args k (snd wf)).

Lemma expected_calls_in_order inputs : forallb recognised inputs = true ->
  expected_calls inputs = map the_call inputs.
Proof.
  unfold expected_calls. induction inputs as [|wf r IH]; cbn [forallb flat_map map]; [reflexivity|].
  intros H. apply andb_true_iff in H. destruct H as [Hw Hr]. rewrite (IH Hr). unfold recognised in Hw.
  unfold the_call at 2. destruct (dispatch (fst wf)) as [|k [|k' t]] eqn:E; cbn in Hw; try discriminate. reflexivity.
Qed.

(* ---------------------------------------------------------------- '#' *)
Lemma find_first {A} (f : A -> bool) pre l post :
  forallb (fun x => negb (f x)) pre = true -> f l = true -> find f (pre ++ l :: post) = Some l.
Proof.
  induction pre as [|x r IH]; cbn [forallb app find]; intros H Hl.
  - rewrite Hl. reflexivity.
  - apply andb_true_iff in H. destruct H as [H1 H2]. apply negb_true_iff in H1. rewrite H1. apply IH; assumption.
Qed.

(* the FIRST line of the base file that starts with the name supplies the value *)
Lemma replace_mean_first_occurrence fields pre l post i x v rest :
  first_hash fields 0 = Some i ->
  forallb (fun y => negb (prefix (hd "" fields) y)) pre = true -> prefix (hd "" fields) l = true ->
  split_char "," l = x :: v :: rest ->
  replace_mean fields (pre ++ l :: post) = Some (set_nth i v fields).
Proof.
  intros Hi Hpre Hl Hs. unfold replace_mean. rewrite Hi, (find_first _ pre l post Hpre Hl), Hs. reflexivity.
Qed.

Lemma replace_mean_no_hash fields base : first_hash fields 0 = None -> replace_mean fields base = Some fields.
Proof. intros H. unfold replace_mean. rewrite H. reflexivity. Qed.

Lemma simulated_line_last name : forall pre l post,
  forallb (fun y => negb (names_param name y)) post = true -> names_param name l = true ->
  simulated_line name (pre ++ l :: post) = Some l.
Proof.
  intros pre l post Hpost Hl.
  assert (Hp : simulated_line name post = None).
  { induction post as [|y r IH]; [reflexivity|]. cbn [forallb] in Hpost. apply andb_true_iff in Hpost. destruct Hpost as [H1 H2].
    apply negb_true_iff in H1. cbn [simulated_line]. rewrite (IH H2), H1. reflexivity. }
  induction pre as [|y r IH]; cbn [app simulated_line].
  - rewrite Hp, Hl. reflexivity.
  - rewrite IH. reflexivity.
Qed.

(* when one line only of the base file starts with the name, and it is the one that defines the parameter, the mean is read
   from the line the simulator takes the value from *)
Lemma mean_source_is_simulated_line name pre l post :
  forallb (fun y => negb (prefix name y)) pre = true -> forallb (fun y => negb (names_param name y)) post = true ->
  prefix name l = true -> names_param name l = true ->
  mean_source_line name (pre ++ l :: post) = Some l /\ simulated_line name (pre ++ l :: post) = Some l.
Proof.
  intros H1 H2 H3 H4. split; [apply find_first; assumption | apply simulated_line_last; assumption].
Qed.

Definition NL1 : string := String (ascii_of_nat 10) "".

(* ... otherwise not: a parameter given twice (the simulator uses the last value, C12), and a longer parameter name that
   starts with the same text earlier in the file (the layout of the shipped examples) *)
Lemma mean_not_simulated_value_duplicate :
  let base := ["Reservoir Temperature, 150" ++ NL1; "Reservoir Temperature, 160" ++ NL1] in
  replace_mean ["Reservoir Temperature"; " normal"; " #"; " 5"] base
    = Some ["Reservoir Temperature"; " normal"; " 150" ++ NL1; " 5"]
  /\ simulated_value "Reservoir Temperature" base = Some "160".
Proof. split; vm_compute; reflexivity. Qed.

Lemma mean_not_simulated_value_prefix :
  let base := ["Reservoir Volume Option,4,  --- Should be 1 2 3 or 4" ++ NL1; "Reservoir Volume,1e9,  --- [m3]" ++ NL1] in
  replace_mean ["Reservoir Volume"; " normal"; " #"; " 5e7"] base = Some ["Reservoir Volume"; " normal"; "4"; " 5e7"]
  /\ simulated_value "Reservoir Volume" base = Some "1e9".
Proof. split; vm_compute; reflexivity. Qed.

Lemma mean_not_simulated_value :
  (exists fields base i v, first_hash fields 0 = Some i /\ replace_mean fields base = Some (set_nth i v fields) /\
     simulated_value (hd "" fields) base = Some "160" /\ v = " 150" ++ NL1) /\
  (exists fields base i v, first_hash fields 0 = Some i /\ replace_mean fields base = Some (set_nth i v fields) /\
     simulated_value (hd "" fields) base = Some "1e9" /\ v = "4").
Proof.
  split.
  - exists ["Reservoir Temperature"; " normal"; " #"; " 5"],
           ["Reservoir Temperature, 150" ++ NL1; "Reservoir Temperature, 160" ++ NL1], 2, (" 150" ++ NL1).
    repeat split; vm_compute; reflexivity.
  - exists ["Reservoir Volume"; " normal"; " #"; " 5e7"],
           ["Reservoir Volume Option,4,  --- Should be 1 2 3 or 4" ++ NL1; "Reservoir Volume,1e9,  --- [m3]" ++ NL1], 2, "4".
    repeat split; vm_compute; reflexivity.
Qed.
