(* Proofs/ReportProofs.v - facts about the table model Model/Report.v, for every number of years, label offset,
   stride, row template and series. *)
From Coq Require Import String Ascii QArith ZArith List Bool Lia.
From Verif Require Import Model.Fmt Model.Float Model.Report Proofs.FmtProofs.
Import ListNotations.

Lemma mapM_length {A B} (f : A -> option B) l r : mapM f l = Some r -> length r = length l.
Proof.
  revert r. induction l as [|x l IH]; intros r H; simpl in H.
  - inversion H. reflexivity.
  - destruct (f x); [|discriminate]. destruct (mapM f l); [|discriminate]. inversion H. simpl. f_equal. apply IH. reflexivity.
Qed.

Lemma mapM_nth {A B} (f : A -> option B) l r : mapM f l = Some r ->
  forall i x, nth_error l i = Some x -> exists y, f x = Some y /\ nth_error r i = Some y.
Proof.
  revert r. induction l as [|a l IH]; intros r H i x Hi.
  - destruct i; discriminate.
  - simpl in H. destruct (f a) eqn:Fa; [|discriminate]. destruct (mapM f l) eqn:M; [|discriminate]. inversion H; subst.
    destruct i; simpl in *.
    + inversion Hi; subst. exists b. auto.
    + eapply IH; eauto.
Qed.

Lemma mapM_none {A B} (f : A -> option B) l : mapM f l = None <-> exists x, In x l /\ f x = None.
Proof.
  induction l as [|a l IH]; simpl.
  - split; [discriminate|intros (x & [] & _)].
  - destruct (f a) eqn:Fa.
    + destruct (mapM f l) eqn:M.
      * split; [discriminate|]. intros (x & [->|Hx] & Hn); [congruence|].
        assert (N : @None (list B) = None) by reflexivity. destruct IH as [_ IH]. 
        assert (Some l0 = None) by (apply IH; exists x; auto). discriminate.
      * split; [|reflexivity]. intros _. destruct IH as [IH _]. destruct (IH eq_refl) as (x & Hx & Hn). exists x. auto.
    + split; [|reflexivity]. intros _. exists a. auto.
Qed.

(* one row per year, in order *)
Lemma table_length n off k segs cols rows : table n off k segs cols = Some rows -> length rows = n.
Proof. unfold table. intros H. apply mapM_length in H. rewrite seq_length in H. exact H. Qed.

Lemma table_nth n off k segs cols rows : table n off k segs cols = Some rows ->
  forall i, (i < n)%nat -> table_row segs off k cols i = nth_error rows i /\ nth_error rows i <> None.
Proof.
  unfold table. intros H i Hi.
  assert (E : nth_error (seq 0 n) i = Some i).
  { rewrite (nth_error_nth' _ 0%nat) by (rewrite seq_length; exact Hi). rewrite seq_nth by exact Hi. reflexivity. }
  destruct (mapM_nth _ _ _ H i i E) as (y & Hy & Hr). rewrite Hy, Hr. split; [reflexivity|discriminate].
Qed.

(* row i shows the year label i+off and the series entries at index i*k, in column order *)
Lemma table_row_reads segs off k cols i s : table_row segs off k cols i = Some s ->
  exists vs, mapM (fun c => nth_error c (i * k)) cols = Some vs /\ length vs = length cols /\
             (forall j c, nth_error cols j = Some c -> exists v, nth_error c (i * k) = Some v /\ nth_error vs j = Some v) /\
             render_line segs (year_cell (i + off) :: map Num vs) = Some s.
Proof.
  unfold table_row, row_cells. destruct (mapM _ cols) as [vs|] eqn:M; [|discriminate].
  intros H. exists vs. split; [reflexivity|]. split; [eapply mapM_length; eauto|]. split; [|exact H].
  intros j c Hj. eapply mapM_nth in M; eauto.
Qed.

(* the writer fails (IndexError) exactly when some series is too short for some row *)
Lemma row_cells_none off k cols i : row_cells off k cols i = None <-> exists c, In c cols /\ (length c <= i * k)%nat.
Proof.
  unfold row_cells. destruct (mapM _ cols) as [vs|] eqn:M.
  - split; [discriminate|]. intros (c & Hc & Hl).
    assert (N : mapM (fun c => nth_error c (i * k)) cols = None).
    { apply mapM_none. exists c. split; [exact Hc|]. apply nth_error_None. exact Hl. }
    congruence.
  - split; [|reflexivity]. intros _. apply mapM_none in M. destruct M as (c & Hc & Hn). exists c. split; [exact Hc|].
    apply nth_error_None. exact Hn.
Qed.

Lemma table_none n off k segs cols : table n off k segs cols = None <-> exists i, (i < n)%nat /\ table_row segs off k cols i = None.
Proof.
  unfold table. rewrite mapM_none. split.
  - intros (i & Hi & Hn). apply in_seq in Hi. exists i. split; [lia|exact Hn].
  - intros (i & Hi & Hn). exists i. split; [apply in_seq; lia|exact Hn].
Qed.

(* OPEX column of the cash-flow profile *)
Lemma opex_col_nth cy n coam ii : (ii < cy + n)%nat ->
  nth_error (opex_col cy n coam) ii = Some (if (ii <? cy)%nat then Fin 0 else coam).
Proof.
  intros H. unfold opex_col. destruct (ii <? cy)%nat eqn:E.
  - apply Nat.ltb_lt in E. rewrite nth_error_app1 by (rewrite repeat_length; exact E).
    rewrite (nth_error_nth' _ (Fin 0)) by (rewrite repeat_length; exact E). rewrite nth_repeat. reflexivity.
  - apply Nat.ltb_ge in E. rewrite nth_error_app2 by (rewrite repeat_length; exact E). rewrite repeat_length.
    rewrite (nth_error_nth' _ coam) by (rewrite repeat_length; lia). rewrite nth_repeat. reflexivity.
Qed.

Lemma opex_col_length cy n coam : length (opex_col cy n coam) = (cy + n)%nat.
Proof. unfold opex_col. rewrite app_length, !repeat_length. reflexivity. Qed.

Lemma cashflow_rows n cy pos segs coam cols rows : cashflow_table n cy pos segs coam cols = Some rows ->
  length rows = (cy + n)%nat /\
  forall ii, (ii < cy + n)%nat ->
    exists vs s, nth_error rows ii = Some s /\
      mapM (fun c => nth_error c ii) (firstn pos cols ++ opex_col cy n coam :: skipn pos cols) = Some vs /\
      render_line segs (year_cell ii :: map Num vs) = Some s /\
      (pos <= length cols -> nth_error vs pos = Some (if (ii <? cy)%nat then Fin 0 else coam))%nat.
Proof.
  unfold cashflow_table. intros H. split; [eapply table_length; eauto|].
  intros ii Hii. destruct (table_nth _ _ _ _ _ _ H ii Hii) as [R NN].
  destruct (nth_error rows ii) as [s|] eqn:Es; [|congruence].
  destruct (table_row_reads _ _ _ _ _ _ R) as (vs & M & L & C & RL).
  rewrite Nat.mul_1_r in M. rewrite Nat.add_0_r in RL.
  exists vs, s. split; [reflexivity|]. split; [exact M|]. split; [exact RL|].
  intros Hp.
  assert (E : nth_error (firstn pos cols ++ opex_col cy n coam :: skipn pos cols) pos = Some (opex_col cy n coam)).
  { rewrite nth_error_app2 by (rewrite firstn_length; lia). rewrite firstn_length, Nat.min_l by exact Hp.
    rewrite Nat.sub_diag. reflexivity. }
  destruct (C pos _ E) as (v & V1 & V2). rewrite Nat.mul_1_r in V1.
  rewrite opex_col_nth in V1 by exact Hii. congruence.
Qed.

(* a scalar line: label, figure, one space, unit *)
Lemma append_empty s : (s ++ "")%string = s.
Proof. induction s; simpl; [reflexivity|f_equal; exact IHs]. Qed.

Lemma scalar_line label k w p v u :
  render_line [Lit label; Fld k w p; Lit " "; Str] [Num v; Txt u]
  = Some (label ++ render_fld k w p v ++ " " ++ u)%string.
Proof. cbn [render_line render_str cat]. rewrite append_empty. reflexivity. Qed.

(* the year label of a row reads back as exactly i+off *)
Lemma year_label_exact n w : exists z, parse_dec (fmt_f (Fin (inject_Z (Z.of_nat n))) w 0) = Some z /\ (z == inject_Z (Z.of_nat n))%Q.
Proof. exists (shown (inject_Z (Z.of_nat n)) 0). split; [apply fmt_f_parse_back|apply shown_nat]. Qed.

(* the whole statement about a profile table at once *)
Lemma table_rows_spec n off k segs cols rows : table n off k segs cols = Some rows ->
  length rows = n /\
  forall i, (i < n)%nat ->
    exists vs s, nth_error rows i = Some s /\ length vs = length cols /\
      (forall j c, nth_error cols j = Some c -> exists v, nth_error c (i * k) = Some v /\ nth_error vs j = Some v) /\
      render_line segs (year_cell (i + off) :: map Num vs) = Some s.
Proof.
  intros H. split; [eapply table_length; eauto|]. intros i Hi.
  destruct (table_nth _ _ _ _ _ _ H i Hi) as [R NN].
  destruct (nth_error rows i) as [s|] eqn:Es; [|congruence].
  destruct (table_row_reads _ _ _ _ _ _ R) as (vs & M & L & C & RL).
  exists vs, s. auto.
Qed.

Lemma table_fails_iff n off k segs cols :
  table n off k segs cols = None <->
  exists i, (i < n)%nat /\ ((exists c, In c cols /\ (length c <= i * k)%nat) \/
                            (exists cs, row_cells off k cols i = Some cs /\ render_line segs cs = None)).
Proof.
  rewrite table_none. split; intros (i & Hi & H); exists i; (split; [exact Hi|]).
  - unfold table_row in H. destruct (row_cells off k cols i) as [cs|] eqn:E.
    + right. exists cs. auto.
    + left. apply (proj1 (row_cells_none off k cols i)). exact E.
  - unfold table_row. destruct H as [H|(cs & E & R)].
    + apply (proj2 (row_cells_none off k cols i)) in H. rewrite H. reflexivity.
    + rewrite E. exact R.
Qed.

(* ---------- tables whose cells are expressions of the float model ---------- *)
Lemma etable_length n off k segs cols rows : etable n off k segs cols = Some rows -> length rows = n.
Proof. unfold etable. intros H. apply mapM_length in H. rewrite seq_length in H. exact H. Qed.

Lemma etable_nth n off k segs cols rows : etable n off k segs cols = Some rows ->
  forall i, (i < n)%nat -> etable_row segs off k cols i = nth_error rows i /\ nth_error rows i <> None.
Proof.
  unfold etable. intros H i Hi.
  assert (E : nth_error (seq 0 n) i = Some i).
  { rewrite (nth_error_nth' _ 0%nat) by (rewrite seq_length; exact Hi). rewrite seq_nth by exact Hi. reflexivity. }
  destruct (mapM_nth _ _ _ H i i E) as (y & Hy & Hr). rewrite Hy, Hr. split; [reflexivity|discriminate].
Qed.

(* one row per year in order; row i shows the year label i+off and, in column j, the value the float model gives to the
   column's expression with every SRow leaf read at index i*k *)
Lemma etable_rows_spec n off k segs cols rows : etable n off k segs cols = Some rows ->
  length rows = n /\
  forall i, (i < n)%nat ->
    exists vs s, nth_error rows i = Some s /\ length vs = length cols /\
      (forall j e, nth_error cols j = Some e -> exists v, seval (Some (i * k)%nat) e = Some v /\ nth_error vs j = Some v) /\
      render_line segs (year_cell (i + off) :: map (fun x => Num (fl_fval x)) vs) = Some s.
Proof.
  intros H. split; [eapply etable_length; eauto|]. intros i Hi.
  destruct (etable_nth _ _ _ _ _ _ H i Hi) as [R NN].
  destruct (nth_error rows i) as [s|] eqn:Es; [|congruence].
  unfold etable_row, erow_cells in R. destruct (mapM _ cols) as [vs|] eqn:M; [|discriminate].
  exists vs, s. split; [reflexivity|]. split; [eapply mapM_length; eauto|]. split; [|exact R].
  intros j e Hj. eapply mapM_nth in M; eauto.
Qed.

(* a column that is just a series reads it at i*k: IndexError (None) exactly when the series is too short *)
Lemma plain_col_reads c idx : seval (Some idx) (plain_col c) = match nth_error c idx with Some x => not_bad x | None => None end.
Proof. reflexivity. Qed.

Lemma plain_col_index_error c idx : (length c <= idx)%nat -> seval (Some idx) (plain_col c) = None.
Proof. intros H. rewrite plain_col_reads. apply nth_error_None in H. rewrite H. reflexivity. Qed.

(* ---------- the unit clause ---------- *)
Local Open Scope Q_scope.
Lemma unit_current p : printed_unit UCur p = q_cur p.
Proof. reflexivity. Qed.

Lemma unit_preferred_partial p : q_cur p = q_pref p -> printed_unit UPref p = q_cur p.
Proof. intros H. simpl. symmetry. exact H. Qed.

Lemma unit_preferred_refuted : exists p newu f, printed_unit UPref (convert_output p newu f) <> q_cur (convert_output p newu f).
Proof.
  exists {| q_val := 5; q_cur := "MW"; q_pref := "MW" |}, "kW"%string, 1000. vm_compute. discriminate.
Qed.

(* value x 100 with a literal '%' states the fraction itself *)
Lemma percent_literal_ok p : q_cur p = ""%string ->
  same_quantity (understood (line_states 100 (ULit "%") p)) (q_val p, q_cur p).
Proof.
  intros H. unfold same_quantity, understood, line_states. simpl. split; [field|symmetry; exact H].
Qed.

(* value x 100 next to the unit of the unscaled quantity states a hundred times the quantity *)
Lemma percent_current_refuted : exists p, q_cur p = ""%string /\
  ~ same_quantity (understood (line_states 100 UCur p)) (q_val p, q_cur p).
Proof.
  exists {| q_val := 5#100; q_cur := ""; q_pref := "" |}. split; [reflexivity|].
  unfold same_quantity. vm_compute. intros [H _]. discriminate H.
Qed.

Lemma percent_current_partial p : q_cur p = ""%string -> q_val p == 0 ->
  same_quantity (understood (line_states 100 UCur p)) (q_val p, q_cur p).
Proof.
  intros H Z. unfold same_quantity, understood, line_states. simpl. rewrite H. simpl. split; [rewrite Z; reflexivity|reflexivity].
Qed.

(* a line that prints the value itself with its CurrentUnits states the quantity, whatever the conversion pass did *)
Lemma plain_current_ok p newu f :
  same_quantity (line_states 1 UCur (convert_output p newu f)) (q_val (convert_output p newu f), q_cur (convert_output p newu f)).
Proof. unfold same_quantity, line_states. simpl. split; [ring|reflexivity]. Qed.
