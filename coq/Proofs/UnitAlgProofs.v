(* Proofs/UnitAlgProofs.v - the algebra of affine unit conversions (Model/UnitAlg.v) *)
From Coq Require Import QArith List ZArith Bool String Lia Lqa Field.
From Verif Require Import Base.Flat Model.UnitAlg.
Import ListNotations.
Open Scope Q_scope.

Lemma to_from_base u b : ~ pu_fac u == 0 -> to_base u (from_base u b) == b.
Proof. intros H. unfold to_base, from_base. field. exact H. Qed.

Lemma from_to_base u x : ~ pu_fac u == 0 -> from_base u (to_base u x) == x.
Proof. intros H. unfold to_base, from_base. field. exact H. Qed.

(* a converted value denotes the same physical quantity *)
Lemma convert_denote u v x : ~ pu_fac v == 0 -> to_base v (convert u v x) == to_base u x.
Proof. intros H. unfold convert. apply to_from_base. exact H. Qed.

Lemma convert_roundtrip u v x :
  ~ pu_fac u == 0 -> ~ pu_fac v == 0 -> convert v u (convert u v x) == x.
Proof. intros Hu Hv. unfold convert, to_base, from_base. field. split; assumption. Qed.

Lemma convert_compose u v w x :
  ~ pu_fac v == 0 -> ~ pu_fac w == 0 -> convert v w (convert u v x) == convert u w x.
Proof. intros Hv Hw. unfold convert, to_base, from_base. field. split; assumption. Qed.

Lemma convert_id u x : ~ pu_fac u == 0 -> convert u u x == x.
Proof. intros H. unfold convert. apply from_to_base. exact H. Qed.

Lemma convert_compat u v x y : x == y -> convert u v x == convert u v y.
Proof. intros E. unfold convert, to_base, from_base. rewrite E. reflexivity. Qed.

Lemma convert_injective u v x y :
  ~ pu_fac u == 0 -> ~ pu_fac v == 0 -> convert u v x == convert u v y -> x == y.
Proof.
  intros Hu Hv E.
  rewrite <- (convert_roundtrip u v x Hu Hv), <- (convert_roundtrip u v y Hu Hv).
  apply convert_compat. exact E.
Qed.

(* units without offset: one multiplicative factor, "the exact conversion factor" *)
Lemma convert_linear u v x :
  pu_off u == 0 -> pu_off v == 0 -> ~ pu_fac v == 0 -> convert u v x == x * conv_factor u v.
Proof.
  intros Ou Ov Hv. unfold convert, to_base, from_base, conv_factor. rewrite Ou, Ov. field. exact Hv.
Qed.

Lemma linear_true u : linear u = true -> pu_off u == 0.
Proof. unfold linear. apply Qeq_bool_iff. Qed.

(* two spellings of one unit are interchangeable *)
Lemma pu_same_spec u v :
  pu_same u v = true -> pu_dim u = pu_dim v /\ pu_fac u == pu_fac v /\ pu_off u == pu_off v.
Proof.
  unfold pu_same. rewrite !andb_true_iff. intros [[D F] O].
  apply Nat.eqb_eq in D. apply Qeq_bool_iff in F. apply Qeq_bool_iff in O. auto.
Qed.

Lemma pu_same_refl u : pu_same u u = true.
Proof.
  unfold pu_same. rewrite Nat.eqb_refl. cbn.
  assert (A : Qeq_bool (pu_fac u) (pu_fac u) = true) by (apply Qeq_bool_iff; reflexivity).
  assert (B : Qeq_bool (pu_off u) (pu_off u) = true) by (apply Qeq_bool_iff; reflexivity).
  rewrite A, B. reflexivity.
Qed.

Lemma to_base_same u v x : pu_same u v = true -> to_base u x == to_base v x.
Proof. intros S. apply pu_same_spec in S. destruct S as [_ [F O]]. unfold to_base. rewrite F, O. reflexivity. Qed.

Lemma from_base_same u v b : pu_same u v = true -> from_base u b == from_base v b.
Proof. intros S. apply pu_same_spec in S. destruct S as [_ [F O]]. unfold from_base. rewrite F, O. reflexivity. Qed.

Lemma convert_same_target u v v' x : pu_same v v' = true -> convert u v x == convert u v' x.
Proof. intros S. unfold convert. apply from_base_same. exact S. Qed.

Lemma convert_same_source u u' v x : pu_same u u' = true -> convert u v x == convert u' v x.
Proof.
  intros S. unfold convert, from_base. rewrite (to_base_same u u' x S). reflexivity.
Qed.

Lemma same_dim_of_same u v w : pu_same u v = true -> same_dim u w = same_dim v w.
Proof. intros S. apply pu_same_spec in S. destruct S as [D _]. unfold same_dim. rewrite D. reflexivity. Qed.

Lemma fac_nonzero_same u v : pu_same u v = true -> ~ pu_fac u == 0 -> ~ pu_fac v == 0.
Proof. intros S H E. apply pu_same_spec in S. destruct S as [_ [F _]]. apply H. rewrite F. exact E. Qed.
