(* Proofs/C05RangeProofs.v - the ranges the current source accepts (Gen/C05Ranges.v, regenerated on every run)
   lie inside the hypotheses of the bottom-hole temperature theorems. *)
From Coq Require Import QArith Qminmax List ZArith Bool Lia Lqa PeanoNat.
From Verif Require Import Base.Flat Proofs.FlatFacts Model.Gradient Proofs.GradientProofs Gen.C05Ranges.
Import ListNotations.
Open Scope Q_scope.

Definition in_ranges (i : bht_input) : Prop :=
  In (bi_n i) numseg_allowed /\
  tsurf_min <= bi_Ts i <= tsurf_max /\ tmax_min <= bi_Tmax i <= tmax_max /\
  (forall km, bi_depth_km i = Some km -> depth_km_min <= km <= depth_km_max) /\
  (forall v, In (Some v) (bi_thick i) -> thickness_km_min <= v <= thickness_km_max).

(* what the proofs need of the table *)
Definition ranges_ok : bool :=
  forallb (fun n => Nat.leb 1 n && Nat.leb n 4) numseg_allowed &&
  Qltb tmax_max prefill && Qltb 0 depth_km_min && Qleb depth_km_max 100 && Qltb 0 thickness_km_min &&
  Qeqb default_depth_km default_depth.

Lemma ranges_ok_true : ranges_ok = true.
Proof. vm_compute. reflexivity. Qed.

Theorem ranges_imply_input_ok i : in_ranges i -> bi_Ts i < bi_Tmax i -> input_ok i.
Proof.
  intros [Hn [_ [[_ HTmax] [Hd Ht]]]] HT.
  pose proof ranges_ok_true as R. unfold ranges_ok in R.
  do 5 (apply andb_true_iff in R; destruct R as [R ?]).
  rewrite forallb_forall in R. specialize (R _ Hn). apply andb_true_iff in R. destruct R as [R1 R2].
  apply Nat.leb_le in R1, R2.
  repeat match goal with H : Qltb _ _ = true |- _ => apply Qltb_true in H | H : Qleb _ _ = true |- _ => apply Qleb_true in H end.
  unfold input_ok. split; [lia|]. split; [exact HT|]. split; [lra|]. split.
  - destruct (bi_depth_km i) as [km|]; [|exact I]. specialize (Hd km eq_refl). lra.
  - intros v Hv. specialize (Ht v Hv). lra.
Qed.
