(* Proofs/FrictionProofs.v - lemmas about Model/Friction.v *)
From Coq Require Import QArith Qabs List ZArith Bool Lia Lqa.
From Verif Require Import Base.Flat Proofs.FlatFacts Model.Friction.
Import ListNotations.
Open Scope Q_scope.

Lemma pow5_pos d : 0 < d -> 0 < pow5 d.
Proof.
  intros H. unfold pow5.
  assert (0 < d * d) by nra. assert (0 < d * d * d) by nra. assert (0 < d * d * d * d) by nra. nra.
Qed.

Lemma pow4_le d1 d2 : 0 < d1 -> d1 <= d2 -> d1 * d1 * d1 * d1 <= d2 * d2 * d2 * d2.
Proof.
  intros H0 H. assert (A : d1 * d1 <= d2 * d2) by nra.
  assert (0 <= d1 * d1) by nra. assert (0 <= d2 * d2) by nra.
  setoid_replace (d1 * d1 * d1 * d1) with ((d1 * d1) * (d1 * d1)) by ring.
  setoid_replace (d2 * d2 * d2 * d2) with ((d2 * d2) * (d2 * d2)) by ring.
  nra.
Qed.

Lemma Qdiv_le_antimono a x y : 0 <= a -> 0 < y -> y <= x -> a / x <= a / y.
Proof.
  intros Ha Hy Hyx. assert (Hx : 0 < x) by lra.
  apply Qle_shift_div_l; [exact Hy|].
  assert (Hc : 0 <= a / x) by (apply Qle_shift_div_l; lra).
  assert (Hfull : a / x * x == a) by (field; lra).
  apply Qle_trans with (a / x * x); [nra|rewrite Hfull; lra].
Qed.

(* Darcy-Weisbach with v = q/(rho*pi/4*d^2):  DP = f * 8 q^2 depth / (pi^2 rho d^5) / 1000 *)
Lemma dp_of_closed f q rho pi depth d :
  ~ rho == 0 -> ~ pi == 0 -> ~ d == 0 ->
  dp_of f q rho pi depth d == f * (8 * q * q * depth / (pi * pi * rho * 1000)) / pow5 d.
Proof.
  intros Hr Hp Hd. unfold dp_of, dp_friction, velocity, pow5. field. repeat split; assumption.
Qed.

(* laminar flow: DP = 128 mu q depth / (pi rho D^4) / 1000, exactly *)
Lemma dp_laminar_closed q rho mu pi depth d :
  ~ q == 0 -> ~ rho == 0 -> ~ mu == 0 -> ~ pi == 0 -> ~ d == 0 ->
  dp_laminar q rho mu pi depth d == 128 * mu * q * depth / (pi * rho * 1000) / (d * d * d * d).
Proof.
  intros Hq Hr Hm Hp Hd. unfold dp_laminar, dp_of, dp_friction, velocity, f_laminar, reynolds. field.
  repeat split; assumption.
Qed.

Lemma dp_laminar_mono q rho mu pi depth d1 d2 :
  0 < q -> 0 < rho -> 0 < mu -> 0 < pi -> 0 <= depth -> 0 < d1 -> d1 <= d2 ->
  dp_laminar q rho mu pi depth d2 <= dp_laminar q rho mu pi depth d1.
Proof.
  intros Hq Hr Hm Hp Hdepth Hd1 Hd.
  rewrite !dp_laminar_closed by lra.
  assert (Hpr : 0 < pi * rho * 1000) by nra.
  assert (Hn : 0 <= 128 * mu * q * depth) by (assert (0 < mu * q) by nra; nra).
  assert (HC : 0 <= 128 * mu * q * depth / (pi * rho * 1000)) by (apply Qle_shift_div_l; lra).
  apply Qdiv_le_antimono; [exact HC| |apply pow4_le; assumption].
  assert (0 < d1 * d1) by nra. assert (0 < d1 * d1 * d1) by nra. nra.
Qed.

(* any friction factors f1 (at d1) and f2 (at d2 >= d1) with f2 * d1^5 <= f1 * d2^5 *)
Lemma dp_of_mono_growth f1 f2 q rho pi depth d1 d2 :
  0 < rho -> 0 < pi -> 0 <= depth -> 0 < d1 -> 0 < d2 ->
  f2 * pow5 d1 <= f1 * pow5 d2 ->
  dp_of f2 q rho pi depth d2 <= dp_of f1 q rho pi depth d1.
Proof.
  intros Hr Hp Hdepth Hd1 Hd2 Hg.
  rewrite !dp_of_closed by lra.
  pose proof (pow5_pos d1 Hd1) as P1. pose proof (pow5_pos d2 Hd2) as P2.
  set (K := 8 * q * q * depth / (pi * pi * rho * 1000)).
  assert (HK : 0 <= K).
  { unfold K. assert (0 < pi * pi) by nra. assert (Hqq : 0 <= q * q) by nra.
    apply Qle_shift_div_l; [nra|].
    setoid_replace (8 * q * q * depth) with (8 * ((q * q) * depth)) by ring.
    assert (0 <= (q * q) * depth) by (apply Qmult_le_0_compat; assumption). lra. }
  set (a := pow5 d1) in *. set (b := pow5 d2) in *.
  apply Qle_shift_div_l; [exact P1|].
  setoid_replace (f2 * K / b * a) with (K * (f2 * a) / b) by (field; lra).
  apply Qle_shift_div_r; [exact P2|]. nra.
Qed.

(* the model's friction factor with an arbitrary turbulent correlation satisfying the growth bound *)
Lemma well_dp_mono colebrook q rho mu pi depth :
  0 < rho -> 0 < pi -> 0 <= depth ->
  (forall d1 d2, 0 < d1 -> d1 <= d2 ->
      well_f colebrook q mu pi d2 * pow5 d1 <= well_f colebrook q mu pi d1 * pow5 d2) ->
  forall d1 d2, 0 < d1 -> d1 <= d2 ->
    dp_of (well_f colebrook q mu pi d2) q rho pi depth d2 <= dp_of (well_f colebrook q mu pi d1) q rho pi depth d1.
Proof.
  intros Hr Hp Hdepth Hg d1 d2 Hd1 Hd. apply dp_of_mono_growth; try assumption; [lra|]. apply Hg; assumption.
Qed.

(* the laminar branch satisfies the growth bound by itself: f = 16 pi mu d / q grows like D, slower than D^5 *)
Lemma laminar_growth q mu pi d1 d2 :
  0 < q -> 0 < mu -> 0 < pi -> 0 < d1 -> d1 <= d2 ->
  f_laminar (reynolds q mu pi d2) * pow5 d1 <= f_laminar (reynolds q mu pi d1) * pow5 d2.
Proof.
  intros Hq Hm Hp Hd1 Hd. assert (Hd2 : 0 < d2) by lra.
  assert (E : forall d, 0 < d -> f_laminar (reynolds q mu pi d) == 16 * mu * pi / q * d).
  { intros d Hdd. unfold f_laminar, reynolds. field. repeat split; lra. }
  rewrite (E d1 Hd1), (E d2 Hd2).
  assert (HC : 0 <= 16 * mu * pi / q) by (apply Qle_shift_div_l; [lra|]; assert (0 < mu * pi) by nra; nra).
  set (C := 16 * mu * pi / q) in *.
  assert (P : d2 * pow5 d1 <= d1 * pow5 d2).
  { unfold pow5. pose proof (pow4_le d1 d2 Hd1 Hd) as P4.
    setoid_replace (d2 * (d1 * d1 * d1 * d1 * d1)) with ((d1 * d2) * (d1 * d1 * d1 * d1)) by ring.
    setoid_replace (d1 * (d2 * d2 * d2 * d2 * d2)) with ((d1 * d2) * (d2 * d2 * d2 * d2)) by ring.
    assert (0 < d1 * d2) by nra. nra. }
  setoid_replace (C * d2 * pow5 d1) with (C * (d2 * pow5 d1)) by ring.
  setoid_replace (C * d1 * pow5 d2) with (C * (d1 * pow5 d2)) by ring.
  nra.
Qed.

(* soundness of the checker run on the implementation's friction factors *)
Lemma growth_ok_sound f1 f2 q rho pi depth d1 d2 :
  growth_ok d1 f1 d2 f2 = true ->
  0 < rho -> 0 < pi -> 0 <= depth -> 0 < d1 -> 0 < d2 ->
  dp_of f2 q rho pi depth d2 <= dp_of f1 q rho pi depth d1.
Proof.
  unfold growth_ok. intros H Hr Hp Hdepth Hd1 Hd2. apply Qleb_true in H.
  apply dp_of_mono_growth; assumption.
Qed.

(* ---------- velocity, Reynolds number, regime switch ---------- *)
Lemma velocity_mass_balance q rho pi d :
  ~ rho == 0 -> ~ pi == 0 -> ~ d == 0 -> velocity q rho pi d * rho * (pi / 4 * (d * d)) == q.
Proof. intros Hr Hp Hd. unfold velocity. field. repeat split; assumption. Qed.

(* the code's 4q/(mu pi D) is the textbook rho v D / mu *)
Lemma reynolds_textbook q rho mu pi d :
  ~ rho == 0 -> ~ mu == 0 -> ~ pi == 0 -> ~ d == 0 ->
  reynolds q mu pi d == rho * velocity q rho pi d * d / mu.
Proof. intros Hr Hm Hp Hd. unfold reynolds, velocity. field. repeat split; assumption. Qed.

Lemma reynolds_antimono q mu pi d1 d2 :
  0 <= q -> 0 < mu -> 0 < pi -> 0 < d1 -> d1 <= d2 -> reynolds q mu pi d2 <= reynolds q mu pi d1.
Proof.
  intros Hq Hm Hp Hd1 Hd. unfold reynolds.
  assert (Hmp : 0 < mu * pi) by nra.
  apply Qdiv_le_antimono; [lra| nra | nra].
Qed.

Lemma velocity_antimono q rho pi d1 d2 :
  0 <= q -> 0 < rho -> 0 < pi -> 0 < d1 -> d1 <= d2 -> velocity q rho pi d2 <= velocity q rho pi d1.
Proof.
  intros Hq Hr Hp Hd1 Hd. unfold velocity.
  assert (Hqr : 0 <= q / rho) by (apply Qle_shift_div_l; lra).
  assert (H11 : 0 < d1 * d1) by nra. assert (H12 : d1 * d1 <= d2 * d2) by nra.
  apply Qdiv_le_antimono; [exact Hqr| |].
  - assert (0 < pi / 4) by (apply Qlt_shift_div_l; lra). nra.
  - assert (0 < pi / 4) by (apply Qlt_shift_div_l; lra). nra.
Qed.

(* which branch the code takes: strictly below 2300 laminar, AT and above 2300 the turbulent correlation *)
Lemma well_f_laminar_branch colebrook q mu pi d :
  reynolds q mu pi d < 2300 -> well_f colebrook q mu pi d = f_laminar (reynolds q mu pi d).
Proof. intros H. unfold well_f. apply Qltb_true in H. now rewrite H. Qed.

Lemma well_f_turbulent_branch colebrook q mu pi d :
  2300 <= reynolds q mu pi d -> well_f colebrook q mu pi d = colebrook ((1 # 10000) / d) (reynolds q mu pi d).
Proof. intros H. unfold well_f. apply Qltb_false in H. now rewrite H. Qed.

(* enlarging the diameter never takes a laminar well back to the turbulent branch *)
Lemma laminar_stays_laminar q mu pi d1 d2 :
  0 <= q -> 0 < mu -> 0 < pi -> 0 < d1 -> d1 <= d2 -> reynolds q mu pi d1 < 2300 -> reynolds q mu pi d2 < 2300.
Proof. intros Hq Hm Hp Hd1 Hd H. pose proof (reynolds_antimono q mu pi d1 d2 Hq Hm Hp Hd1 Hd). lra. Qed.

(* the laminar factor just below the switch stays above 64/2300: the code's f is not continuous at Re = 2300 unless
   the turbulent correlation happens to return 64/2300 there *)
Lemma laminar_factor_above_limit re : 0 < re -> re < 2300 -> 64 / 2300 < f_laminar re.
Proof.
  intros H0 H. unfold f_laminar. apply Qlt_shift_div_l; [exact H0|].
  setoid_replace (64 / 2300 * re) with ((64 # 2300) * re) by field. lra.
Qed.

(* series: ONE branch for all time steps, decided by the average Reynolds number *)
Lemma friction_series_laminar q pi d mu fturb :
  laminar_regime q pi d mu = true -> friction_series q pi d mu fturb = map (fun m => f_laminar (reynolds q m pi d)) mu.
Proof. intros H. unfold friction_series. now rewrite H. Qed.

Lemma friction_series_turbulent q pi d mu fturb :
  laminar_regime q pi d mu = false -> friction_series q pi d mu fturb = fturb.
Proof. intros H. unfold friction_series. now rewrite H. Qed.

Lemma regime_decided_by_average :
  exists q pi d mu fturb, laminar_regime q pi d mu = true /\ 2300 <= reynolds q (nth 0 mu 0) pi d /\
    nth 0 (friction_series q pi d mu fturb) 0 == f_laminar (reynolds q (nth 0 mu 0) pi d).
Proof.
  exists 1, (355 # 113), (6 # 10), [(8 # 10000); (12 # 10000)], [(4 # 100); (4 # 100)].
  split; [vm_compute; reflexivity|]. split; vm_compute; [discriminate|reflexivity].
Qed.

(* the pressure loss of a step is Darcy-Weisbach on the step's own friction factor and density *)
Lemma dp_series_nth q pi depth d : forall f rho i, (i < length f)%nat -> (i < length rho)%nat ->
  nth i (dp_series q pi depth d f rho) 0 = dp_of (nth i f 0) q (nth i rho 0) pi depth d.
Proof.
  induction f as [|x f IH]; intros rho i Hf Hr; [cbn in Hf; lia|].
  destruct rho as [|r rho]; [cbn in Hr; lia|]. destruct i as [|j]; [reflexivity|].
  cbn [dp_series nth]. apply IH; cbn in Hf, Hr; lia.
Qed.

Lemma dp_of_formula f q rho pi depth d :
  dp_of f q rho pi depth d = f * (rho * (velocity q rho pi d * velocity q rho pi d) / 2) * (depth / d) / 1000.
Proof. reflexivity. Qed.
