(* Proofs/EnergyProofs.v - lemmas about Model/Energy.v (C02) *)
From Coq Require Import QArith Qabs Qminmax Qround List ZArith Bool Lia Lqa Setoid.
From Verif Require Import Base.Flat Proofs.FlatFacts Model.Energy.
Import ListNotations.
Open Scope Q_scope.

(* ------------------------------------------------------------------------------------------------ *)
(* lists *)

Lemma nth_map_Q (f : Q -> Q) l t : (t < length l)%nat -> nth t (map f l) 0 = f (nth t l 0).
Proof. intros H. rewrite (nth_indep _ 0 (f 0)) by (rewrite map_length; exact H). apply map_nth. Qed.

Lemma map2_length f : forall a b, length (map2 f a b) = Nat.min (length a) (length b).
Proof. induction a as [|x a IH]; intros [|y b]; cbn; try reflexivity. rewrite IH. reflexivity. Qed.

Lemma map2_nth f : forall a b t, (t < length a)%nat -> (t < length b)%nat ->
  nth t (map2 f a b) 0 = f (nth t a 0) (nth t b 0).
Proof.
  induction a as [|x a IH]; intros [|y b] t Ha Hb; cbn in *; try lia.
  destruct t as [|t]. reflexivity. apply IH; lia.
Qed.

Lemma same_len_true a b : same_len a b = true <-> length a = length b.
Proof. unfold same_len. apply Nat.eqb_eq. Qed.

(* ------------------------------------------------------------------------------------------------ *)
(* heat extracted, per step *)

Lemma heat_extracted_length n m cp tinj tprod : length (heat_extracted n m cp tinj tprod) = length tprod.
Proof. apply map_length. Qed.

Lemma heat_extracted_nth n m cp tinj tprod t : (t < length tprod)%nat ->
  nth t (heat_extracted n m cp tinj tprod) 0 == n * m * cp * (nth t tprod 0 - tinj) / 1000000.
Proof. intros H. unfold heat_extracted. rewrite nth_map_Q by exact H. reflexivity. Qed.

Theorem heat_extracted_spec n m cp tinj tprod :
  length (heat_extracted n m cp tinj tprod) = length tprod /\
  forall t, (t < length tprod)%nat ->
    nth t (heat_extracted n m cp tinj tprod) 0 == n * m * cp * (nth t tprod 0 - tinj) / 1000000.
Proof. split. apply heat_extracted_length. intros t. apply heat_extracted_nth. Qed.

(* ------------------------------------------------------------------------------------------------ *)
(* electricity_heat_production: the balance of every branch, every step *)

Definition conserved (eu : enduse) (eff : Q) (o : ehp_out) (t : nat) : Prop :=
  match eu with
  | EU_ELEC => arr_at (o_hete o) t == nth t (o_he o) 0
  | EU_HEAT => True
  | _ => ~ eff == 0 -> arr_at (o_hete o) t + nth t (o_hp o) 0 / eff == nth t (o_he o) 0
  end.

Theorem ehp_balance eu avail etau n m cp tprod tinj reinj tchp eff chpf o :
  ehp eu avail etau n m cp tprod tinj reinj tchp eff chpf = Ok o ->
  length (o_he o) = length tprod /\
  forall t, (t < length tprod)%nat ->
    nth t (o_he o) 0 == n * m * cp * (nth t tprod 0 - tinj) / 1000000 /\ conserved eu eff o t.
Proof.
  unfold ehp. destruct (same_len avail etau); cbn [negb]; [|discriminate].
  destruct (list_max _) as [mx|]; [|discriminate]. destruct (Qltb mx 0); [discriminate|].
  destruct eu.
  - intros E; inversion E; subst; clear E. cbn. split. apply heat_extracted_length.
    intros t Ht. split. apply heat_extracted_nth; exact Ht. reflexivity.
  - intros E; inversion E; subst; clear E. cbn. split. apply heat_extracted_length.
    intros t Ht. split. apply heat_extracted_nth; exact Ht. exact I.
  - destruct (same_len tprod reinj) eqn:EL; cbn [negb]; [|discriminate]. apply same_len_true in EL.
    intros E; inversion E; subst; clear E. cbn. split. apply heat_extracted_length.
    intros t Ht. split. apply heat_extracted_nth; exact Ht. intros He.
    rewrite map2_nth by lia. rewrite nth_map_Q by lia. rewrite heat_extracted_nth by exact Ht.
    unfold heat_of. field. exact He.
  - intros E; inversion E; subst; clear E. cbn. split. apply heat_extracted_length.
    intros t Ht. split. apply heat_extracted_nth; exact Ht. intros He.
    rewrite nth_map_Q by lia. rewrite heat_extracted_nth by exact Ht.
    unfold heat_of. field. exact He.
  - intros E; inversion E; subst; clear E. cbn. split. apply heat_extracted_length.
    intros t Ht. split. apply heat_extracted_nth; exact Ht. intros He.
    rewrite !nth_map_Q by lia. rewrite heat_extracted_nth by exact Ht. field. exact He.
Qed.

(* what each cogeneration branch delivers, per step *)
Theorem ehp_branches eu avail etau n m cp tprod tinj reinj tchp eff chpf o :
  ehp eu avail etau n m cp tprod tinj reinj tchp eff chpf = Ok o ->
  forall t, (t < length tprod)%nat ->
  match eu with
  | EU_ELEC | EU_HEAT => o_hp o = []
  | EU_TOP => length reinj = length tprod /\
              nth t (o_hp o) 0 == eff * (n * m * cp * (nth t reinj 0 - tinj) / 1000000) /\
              arr_at (o_hete o) t == n * m * cp * (nth t tprod 0 - nth t reinj 0) / 1000000
  | EU_BOT => nth t (o_hp o) 0 == eff * (n * m * cp * (nth t tprod 0 - tchp) / 1000000) /\
              arr_at (o_hete o) t == n * m * cp * (tchp - tinj) / 1000000
  | EU_PAR => nth t (o_hp o) 0 == eff * chpf * nth t (o_he o) 0 /\
              arr_at (o_hete o) t == (1 - chpf) * nth t (o_he o) 0 /\
              ((t < length avail)%nat ->
               nth t (o_el o) 0 == nth t avail 0 * nth t etau 0 * n * m * (1 - chpf))
  end.
Proof.
  unfold ehp. destruct (same_len avail etau) eqn:ELA; cbn [negb]; [|discriminate]. apply same_len_true in ELA.
  destruct (list_max _) as [mx|]; [|discriminate]. destruct (Qltb mx 0); [discriminate|].
  destruct eu.
  - intros E; inversion E; subst; reflexivity.
  - intros E; inversion E; subst; reflexivity.
  - destruct (same_len tprod reinj) eqn:EL; cbn [negb]; [|discriminate]. apply same_len_true in EL.
    intros E; inversion E; subst; clear E. cbn. intros t Ht. split. lia. split.
    + rewrite nth_map_Q by lia. field.
    + rewrite map2_nth by lia. unfold heat_of. reflexivity.
  - intros E; inversion E; subst; clear E. cbn. intros t Ht. split.
    + rewrite nth_map_Q by lia. field.
    + unfold heat_of. reflexivity.
  - intros E; inversion E; subst; clear E. cbn. intros t Ht. split; [|split].
    + rewrite nth_map_Q by lia. rewrite heat_extracted_nth by exact Ht. field.
    + rewrite nth_map_Q by lia. rewrite heat_extracted_nth by exact Ht. field.
    + intros Ha. rewrite map2_nth by lia. reflexivity.
Qed.

(* net = gross - pumping *)
Theorem net_series_spec el pump net :
  net_series el pump = Some net ->
  length net = length el /\ length pump = length el /\
  forall t, (t < length el)%nat -> nth t net 0 == nth t el 0 - nth t pump 0.
Proof.
  unfold net_series. destruct (same_len el pump) eqn:E; [|discriminate]. apply same_len_true in E.
  intros H; inversion H; subst; clear H. split. rewrite map2_length. lia. split. lia.
  intros t Ht. rewrite map2_nth by lia. reflexivity.
Qed.

(* heat pump / chiller / direct use *)
Theorem heatpump_spec cop eff he t : ~ cop == 1 -> (t < length he)%nat ->
  nth t (heatpump_elec cop he) 0 == nth t he 0 / (cop - 1) /\
  nth t (heatpump_heat cop eff he) 0 == (nth t he 0 + nth t (heatpump_elec cop he) 0) * eff /\
  nth t (heatpump_heat cop eff he) 0 == cop * nth t (heatpump_elec cop he) 0 * eff.
Proof.
  intros Hc Ht. unfold heatpump_elec, heatpump_heat. rewrite !nth_map_Q by exact Ht.
  assert (~ cop - 1 == 0) by lra. repeat split; field; assumption.
Qed.

Theorem chiller_spec cop eff hp t : (t < length hp)%nat ->
  nth t (chiller_cooling cop eff hp) 0 == nth t hp 0 * cop * eff.
Proof. intros Ht. unfold chiller_cooling. rewrite nth_map_Q by exact Ht. reflexivity. Qed.

Theorem scale_series_spec c s t : (t < length s)%nat -> nth t (scale_series c s) 0 == nth t s 0 * c.
Proof. intros Ht. unfold scale_series. rewrite nth_map_Q by exact Ht. reflexivity. Qed.

(* ------------------------------------------------------------------------------------------------ *)
(* integrate_time_series_slice *)

(* sum of the m trapezoids that start at sample a *)
Fixpoint trap_from (s : list Q) (a m : nat) : Q :=
  match m with
  | O => 0
  | S m' => (nth a s 0 + nth (S a) s 0) / 2 + trap_from s (S a) m'
  end.

(* the value the code computes, written with indices instead of slices *)
Definition integrate_closed (s : list Q) (i k : nat) (util : Q) : Q :=
  let start := (i * k)%nat in
  match (length s - start)%nat with
  | O => 0
  | 1%nat =>
      let a := nth start s 0 in
      let extr := if Nat.ltb 0 (start - 1) then a + (a - nth (start - 1) s 0) else a in
      (a + extr) / 2 * 8760 * 1000 * util
  | S (S r) =>
      let m := Nat.min k (S r) in
      trap_from s start m * (8760 / natQ m) * 1000 * util
  end.

Lemma natQ_pos m : (0 < m)%nat -> 0 < natQ m.
Proof. intros H. unfold natQ, inject_Z, Qlt. cbn. lia. Qed.

Lemma skipn_cons_nth : forall (s : list Q) a, (a < length s)%nat -> skipn a s = nth a s 0 :: skipn (S a) s.
Proof.
  induction s as [|x s IH]; intros a H; cbn in H. lia.
  destruct a as [|a]. reflexivity. cbn [skipn nth]. rewrite IH by lia. reflexivity.
Qed.

Lemma trapz_firstn_skipn s : forall m a, (a + m < length s)%nat ->
  trapz_sum (firstn (S m) (skipn a s)) == trap_from s a m.
Proof.
  induction m as [|m IH]; intros a H.
  - rewrite skipn_cons_nth by lia. cbn. reflexivity.
  - specialize (IH (S a)). rewrite skipn_cons_nth by lia.
    rewrite (skipn_cons_nth s (S a)) in * by lia.
    cbn [firstn] in *. cbn [trapz_sum trap_from]. cbn [trapz_sum] in IH.
    rewrite <- IH by lia. reflexivity.
Qed.

Lemma firstn_min {A} (l : list A) n : firstn n l = firstn (Nat.min n (length l)) l.
Proof.
  destruct (Nat.le_ge_cases n (length l)).
  - rewrite Nat.min_l by assumption. reflexivity.
  - rewrite Nat.min_r by assumption. rewrite firstn_all. apply firstn_all2. assumption.
Qed.

Theorem integrate_slice_closed s i k util : (1 <= k)%nat ->
  integrate_slice s i k util == integrate_closed s i k util.
Proof.
  intros Hk. unfold integrate_slice, integrate_closed, slice.
  replace ((i + 1) * k + 1 - i * k)%nat with (S k) by lia.
  set (start := (i * k)%nat).
  destruct (length s - start)%nat as [|[|r]] eqn:Er.
  - rewrite skipn_all2 by lia. cbn. ring.
  - rewrite skipn_cons_nth by lia. rewrite skipn_all2 by lia. cbn [firstn]. rewrite firstn_nil.
    cbn [length trapz_sum]. change (inject_Z (Z.of_nat 2 - 1)) with 1.
    destruct (Nat.ltb 0 (start - 1)); field.
  - assert (Hlen : length (skipn start s) = S (S r)) by (rewrite skipn_length; lia).
    rewrite (firstn_min (skipn start s)). rewrite Hlen.
    set (m := Nat.min k (S r)).
    replace (Nat.min (S k) (S (S r))) with (S m) by (unfold m; lia).
    assert (Hm : (1 <= m)%nat) by (unfold m; lia).
    assert (Hl : length (firstn (S m) (skipn start s)) = S m)
      by (rewrite firstn_length, Hlen; unfold m; lia).
    destruct (firstn (S m) (skipn start s)) as [|x [|y l]] eqn:Ef; cbn in Hl; try lia.
    rewrite <- Ef. rewrite trapz_firstn_skipn by (unfold m; lia).
    rewrite Ef. cbn [length]. rewrite Hl.
    replace (Z.of_nat (S m) - 1)%Z with (Z.of_nat m) by lia.
    fold (natQ m). pose proof (natQ_pos m Hm). field. lra.
Qed.

(* a complete year: k trapezoids of width 8760/k hours, x 1000 (MW -> kW), x utilization *)
Theorem integrate_full_year s i k util : (1 <= k)%nat -> ((i + 1) * k < length s)%nat ->
  integrate_slice s i k util == trap_from s (i * k) k * (8760 / natQ k) * 1000 * util.
Proof.
  intros Hk Hl. rewrite integrate_slice_closed by exact Hk. unfold integrate_closed.
  destruct (length s - i * k)%nat as [|[|r]] eqn:Er; try lia.
  replace (Nat.min k (S r)) with k by lia. reflexivity.
Qed.

(* linearity in the series *)
Lemma trap_from_lin (s1 s2 s3 : list Q) (al be : Q) :
  (forall t, nth t s3 0 == al * nth t s1 0 + be * nth t s2 0) ->
  forall m a, trap_from s3 a m == al * trap_from s1 a m + be * trap_from s2 a m.
Proof.
  intros H. induction m as [|m IH]; intros a; cbn [trap_from]. ring.
  rewrite IH, (H a), (H (S a)). field.
Qed.

Lemma integrate_closed_lin (s1 s2 s3 : list Q) (al be : Q) i k util :
  length s1 = length s3 -> length s2 = length s3 ->
  (forall t, nth t s3 0 == al * nth t s1 0 + be * nth t s2 0) ->
  integrate_closed s3 i k util == al * integrate_closed s1 i k util + be * integrate_closed s2 i k util.
Proof.
  intros L1 L2 H. unfold integrate_closed. rewrite L1, L2.
  destruct (length s3 - i * k)%nat as [|[|r]].
  - ring.
  - destruct (Nat.ltb 0 (i * k - 1)); rewrite ?(H (i * k)%nat), ?(H (i * k - 1)%nat); field.
  - rewrite (trap_from_lin s1 s2 s3 al be H). ring.
Qed.

Theorem integrate_slice_lin (s1 s2 s3 : list Q) (al be : Q) i k util : (1 <= k)%nat ->
  length s1 = length s3 -> length s2 = length s3 ->
  (forall t, nth t s3 0 == al * nth t s1 0 + be * nth t s2 0) ->
  integrate_slice s3 i k util == al * integrate_slice s1 i k util + be * integrate_slice s2 i k util.
Proof.
  intros Hk L1 L2 H. rewrite !integrate_slice_closed by exact Hk. apply integrate_closed_lin; assumption.
Qed.

Lemma nth_map2_minus a b : length a = length b -> forall t, nth t (map2 Qminus a b) 0 == 1 * nth t a 0 + (-1) * nth t b 0.
Proof.
  intros L t. destruct (Nat.lt_ge_cases t (length a)).
  - rewrite map2_nth by lia. ring.
  - rewrite !nth_overflow; try lia. ring. rewrite map2_length. lia.
Qed.

Lemma nth_scale_all c s : forall t, nth t (scale_series c s) 0 == c * nth t s 0 + 0 * nth t s 0.
Proof.
  intros t. destruct (Nat.lt_ge_cases t (length s)).
  - rewrite scale_series_spec by assumption. ring.
  - rewrite !nth_overflow; try lia. ring. unfold scale_series. rewrite map_length. lia.
Qed.

Theorem integrate_minus a b i k util : (1 <= k)%nat -> length a = length b ->
  integrate_slice (map2 Qminus a b) i k util == integrate_slice a i k util - integrate_slice b i k util.
Proof.
  intros Hk L.
  rewrite (integrate_slice_lin a b (map2 Qminus a b) 1 (-1)); try assumption.
  ring. rewrite map2_length; lia. rewrite map2_length; lia. apply nth_map2_minus; assumption.
Qed.

Theorem integrate_scale c s i k util : (1 <= k)%nat ->
  integrate_slice (scale_series c s) i k util == c * integrate_slice s i k util.
Proof.
  intros Hk.
  rewrite (integrate_slice_lin s s (scale_series c s) c 0); try assumption.
  ring. unfold scale_series; rewrite map_length; reflexivity.
  unfold scale_series; rewrite map_length; reflexivity. apply nth_scale_all.
Qed.

(* the utilization factor multiplies the integral *)
Theorem integrate_util s i k u : integrate_slice s i k u == integrate_slice s i k 1 * u.
Proof. unfold integrate_slice. ring. Qed.

(* ------------------------------------------------------------------------------------------------ *)
(* annual figures *)

Lemma annual_length s life k util : length (annual s life k util) = life.
Proof. unfold annual. rewrite map_length, seq_length. reflexivity. Qed.

Lemma annual_nth s life k util y : (y < life)%nat ->
  nth y (annual s life k util) 0 = integrate_slice s y k util.
Proof.
  intros H. unfold annual.
  rewrite (nth_indep _ 0 (integrate_slice s 0%nat k util)) by (rewrite map_length, seq_length; exact H).
  rewrite (map_nth (fun i => integrate_slice s i k util) (seq 0 life) 0%nat y).
  rewrite seq_nth by exact H. reflexivity.
Qed.

Lemma annual_u_from_nth s k : forall utils i y, (y < length utils)%nat ->
  nth y (annual_u_from s k i utils) 0 = integrate_slice s (i + y) k (nth y utils 0).
Proof.
  induction utils as [|u r IH]; intros i y H; cbn in H. lia.
  cbn [annual_u_from]. destruct y as [|y]; cbn [nth]. rewrite Nat.add_0_r. reflexivity.
  rewrite IH by lia. f_equal. lia.
Qed.

Lemma annual_u_nth s k utils y : (y < length utils)%nat ->
  nth y (annual_u s k utils) 0 = integrate_slice s y k (nth y utils 0).
Proof. intros H. unfold annual_u. rewrite annual_u_from_nth by exact H. reflexivity. Qed.

(* annual_electricity_pumping_power: every figure is the integral of its own power series; with an electricity
   component net = total - pumping, year by year *)
Theorem annual_epp_spec eu life k util he pump el net hp :
  match annual_epp eu life k util he pump el net hp with
  | (hek, pk, tk, nk, hk) =>
      forall y, (y < life)%nat ->
        nth y hek 0 = integrate_slice he y k util /\
        nth y pk 0 = integrate_slice pump y k util /\
        (has_elec eu = true -> nth y tk 0 = integrate_slice el y k util /\ nth y nk 0 = integrate_slice net y k util) /\
        (has_heat eu = true -> nth y hk 0 = integrate_slice hp y k util)
  end.
Proof.
  unfold annual_epp. intros y Hy. rewrite !annual_nth by exact Hy. split. reflexivity. split. reflexivity.
  split; intros ->; rewrite ?annual_nth by exact Hy; auto.
Qed.

Theorem annual_net_is_total_minus_pumping eu life k util he pump el net hp :
  (1 <= k)%nat -> has_elec eu = true -> net_series el pump = Some net ->
  match annual_epp eu life k util he pump el net hp with
  | (_, pk, tk, nk, _) => forall y, (y < life)%nat -> nth y nk 0 == nth y tk 0 - nth y pk 0
  end.
Proof.
  intros Hk He Hn. unfold annual_epp. rewrite He. intros y Hy. rewrite !annual_nth by exact Hy.
  unfold net_series in Hn. destruct (same_len el pump) eqn:E; [|discriminate]. apply same_len_true in E.
  inversion Hn; subst. apply integrate_minus; assumption.
Qed.

Theorem annual_scaled c s life k util y : (1 <= k)%nat -> (y < life)%nat ->
  nth y (annual (scale_series c s) life k util) 0 == c * nth y (annual s life k util) 0.
Proof. intros Hk Hy. rewrite !annual_nth by exact Hy. apply integrate_scale. exact Hk. Qed.

(* in-place adjustment by the add-on / S-DAC-GT economics *)
Theorem adjust_nth figure offs y : (y < length figure)%nat -> (y < length offs)%nat ->
  nth y (adjust figure offs) 0 == nth y figure 0 + nth y offs 0.
Proof. intros H1 H2. unfold adjust. rewrite map2_nth by assumption. reflexivity. Qed.

Theorem annual_is_integral_partial s life k util offs y :
  (y < life)%nat -> (y < length offs)%nat -> nth y offs 0 == 0 ->
  nth y (adjust (annual s life k util) offs) 0 == integrate_slice s y k util.
Proof.
  intros Hy Ho Hz. rewrite adjust_nth by (rewrite ?annual_length; assumption).
  rewrite annual_nth by exact Hy. rewrite Hz. ring.
Qed.

Theorem annual_is_integral_refuted :
  exists s life k util offs y, (1 <= k)%nat /\ (y < life)%nat /\ (y < length offs)%nat /\
    ~ nth y (adjust (annual s life k util) offs) 0 == integrate_slice s y k util.
Proof.
  exists [5; 4; 3; 2], 2%nat, 2%nat, (9 # 10), [1000; 1000], 0%nat.
  split. lia. split. lia. split. cbn; lia. vm_compute. discriminate.
Qed.

(* ------------------------------------------------------------------------------------------------ *)
(* remaining reservoir heat content *)

Lemma cumsum_from_length : forall l acc, length (cumsum_from acc l) = length l.
Proof. induction l as [|x l IH]; intros acc; cbn. reflexivity. rewrite IH. reflexivity. Qed.

Lemma cumsum_from_nth : forall l acc y, (y < length l)%nat ->
  nth y (cumsum_from acc l) 0 == acc + sumQ (firstn (S y) l).
Proof.
  induction l as [|x l IH]; intros acc y H; cbn in H. lia.
  cbn [cumsum_from]. destruct y as [|y]; cbn [nth].
  - rewrite Qred_correct. cbn. ring.
  - rewrite IH by lia. rewrite Qred_correct. cbn [firstn sumQ]. ring.
Qed.

Lemma sumQ_firstn_S : forall l y, (y < length l)%nat -> sumQ (firstn (S y) l) == sumQ (firstn y l) + nth y l 0.
Proof.
  induction l as [|x l IH]; intros y H; cbn in H. lia.
  destruct y as [|y]. cbn. ring.
  cbn [firstn sumQ nth]. rewrite (IH y) by lia. cbn [firstn]. ring.
Qed.

Theorem remaining_spec init kwh :
  length (remaining init kwh) = length kwh /\
  forall y, (y < length kwh)%nat ->
    nth y (remaining init kwh) 0 == init - sumQ (firstn (S y) kwh) * 3600 * 1000 / 1000000000000000.
Proof.
  unfold remaining. split. rewrite map_length. apply cumsum_from_length.
  intros y H. rewrite nth_map_Q by (rewrite cumsum_from_length; exact H).
  rewrite cumsum_from_nth by exact H. field.
Qed.

Theorem remaining_first init kwh : (0 < length kwh)%nat ->
  nth 0 (remaining init kwh) 0 == init - nth 0 kwh 0 * (9 # 2500000000).
Proof.
  intros H. destruct (remaining_spec init kwh) as [_ Hn]. rewrite Hn by exact H.
  destruct kwh as [|x r]. cbn in H; lia. cbn. field.
Qed.

Theorem remaining_step init kwh y : (S y < length kwh)%nat ->
  nth (S y) (remaining init kwh) 0 == nth y (remaining init kwh) 0 - nth (S y) kwh 0 * (9 # 2500000000).
Proof.
  intros H. destruct (remaining_spec init kwh) as [_ Hn]. rewrite !Hn by lia.
  rewrite (sumQ_firstn_S kwh (S y)) by lia. field.
Qed.

Theorem remaining_nonincreasing init kwh y : (S y < length kwh)%nat -> 0 <= nth (S y) kwh 0 ->
  nth (S y) (remaining init kwh) 0 <= nth y (remaining init kwh) 0.
Proof. intros H Hp. rewrite remaining_step by exact H. lra. Qed.

(* ------------------------------------------------------------------------------------------------ *)
(* district heating *)

Theorem dh_split_spec d h :
  fst (dh_split d h) + snd (dh_split d h) == d / 24 /\
  fst (dh_split d h) <= h /\
  0 <= snd (dh_split d h) /\
  fst (dh_split d h) == Qmin h (d / 24).
Proof.
  unfold dh_split. destruct (Qltb_spec h (d / 24)) as [H|H]; cbn [fst snd].
  - repeat split; try lra. symmetry. apply Q.min_l. lra.
  - repeat split; try lra. symmetry. apply Q.min_r. lra.
Qed.

Lemma last_In : forall (l : list Q) d, l <> [] -> In (last l d) l.
Proof.
  induction l as [|x l IH]; intros d H. congruence.
  destruct l as [|y l]. left; reflexivity. right. apply IH. discriminate.
Qed.

Lemma Qfloor_nonneg u : 0 <= u -> (0 <= Qfloor u)%Z.
Proof. intros H. change 0%Z with (Qfloor 0). apply Qfloor_resp_le. exact H. Qed.

(* the interpolated well output is a convex combination of two samples (or a sample): it stays within any bounds of
   the series *)
Theorem interp_bounds k fp t lo hi : fp <> [] -> (forall x, In x fp -> lo <= x <= hi) -> lo <= interp k fp t <= hi.
Proof.
  intros Hne Hb. unfold interp.
  assert (H0 : (0 < length fp)%nat) by (destruct fp; [congruence|cbn; lia]).
  destruct (Qltb_spec (t * natQ k) 0) as [Hu|Hu].
  - apply Hb. apply nth_In. exact H0.
  - set (u := t * natQ k) in *. set (idx := Z.to_nat (Qfloor u)).
    destruct (Nat.ltb_spec (S idx) (length fp)) as [Hi|Hi].
    + assert (Ha := Hb _ (nth_In fp 0 (n := idx) ltac:(lia))).
      assert (Hc := Hb _ (nth_In fp 0 (n := S idx) Hi)).
      assert (Hf : natQ idx <= u /\ u < natQ idx + 1).
      { unfold natQ, idx. rewrite Z2Nat.id by (apply Qfloor_nonneg; lra).
        split. apply Qfloor_le. pose proof (Qlt_floor u) as Hl.
        rewrite inject_Z_plus in Hl. exact Hl. }
      set (a := nth idx fp 0) in *. set (b := nth (S idx) fp 0) in *. set (f := u - natQ idx).
      assert (0 <= f <= 1) by (unfold f; lra).
      split; nra.
    + apply Hb. apply last_In. exact Hne.
Qed.

Lemma nth_flat_map_block {A} (f : A -> list Q) (c : nat) : forall (l : list A) i j d,
  Forall (fun x => length (f x) = c) l -> (i < length l)%nat -> (j < c)%nat ->
  nth (i * c + j) (flat_map f l) 0 = nth j (f (nth i l d)) 0.
Proof.
  induction l as [|x l IH]; intros i j d HF Hi Hj; cbn in Hi. lia.
  pose proof (Forall_inv HF) as Hx. pose proof (Forall_inv_tail HF) as HF'. cbn beta in Hx. cbn [flat_map].
  destruct i as [|i].
  - cbn [Nat.mul Nat.add nth]. rewrite app_nth1 by lia. reflexivity.
  - rewrite app_nth2 by (rewrite Hx; lia). rewrite Hx.
    replace (S i * c + j - c)%nat with (i * c + j)%nat by lia.
    cbn [nth]. apply IH; try assumption. lia.
Qed.

Lemma flat_map_block_length {A} (f : A -> list Q) (c : nat) : forall (l : list A),
  Forall (fun x => length (f x) = c) l -> length (flat_map f l) = (length l * c)%nat.
Proof.
  induction l as [|x l IH]; intros HF. reflexivity.
  pose proof (Forall_inv HF) as Hx. pose proof (Forall_inv_tail HF) as HF'. cbn beta in Hx.
  cbn [flat_map length]. rewrite app_length, IH by assumption. lia.
Qed.

Lemma dh_year_length k fp demand i : length (dh_year k fp demand i) = 365%nat.
Proof. unfold dh_year. rewrite map_length, seq_length. reflexivity. Qed.

Lemma dh_year_nth k fp demand i j d : (j < 365)%nat ->
  nth j (dh_year k fp demand i) d =
  (interp k fp (dh_time i j), dh_split (nth j demand 0) (interp k fp (dh_time i j))).
Proof.
  intros Hj. unfold dh_year.
  set (g := fun j0 : nat => (interp k fp (dh_time i j0), dh_split (nth j0 demand 0) (interp k fp (dh_time i j0)))).
  rewrite (nth_indep _ d (g 0%nat)) by (rewrite map_length, seq_length; exact Hj).
  rewrite (map_nth g (seq 0 365) 0%nat j). rewrite seq_nth by exact Hj. reflexivity.
Qed.

Lemma dh_years_blocks k fp demand life (g : Q * (Q * Q) -> Q) :
  Forall (fun y => length (map g y) = 365%nat) (map (dh_year k fp demand) (seq 0 life)).
Proof.
  apply Forall_forall. intros y Hy. apply in_map_iff in Hy. destruct Hy as (i & <- & _).
  rewrite map_length. apply dh_year_length.
Qed.

Lemma dh_years_nth k fp demand life (g : Q * (Q * Q) -> Q) i j : (i < life)%nat -> (j < 365)%nat ->
  nth (i * 365 + j) (flat_map (map g) (map (dh_year k fp demand) (seq 0 life))) 0 =
  g (interp k fp (dh_time i j), dh_split (nth j demand 0) (interp k fp (dh_time i j))).
Proof.
  intros Hi Hj.
  rewrite (nth_flat_map_block (map g) 365 _ i j (dh_year k fp demand 0)).
  - rewrite (map_nth (dh_year k fp demand) (seq 0 life) 0%nat i). rewrite seq_nth by exact Hi. cbn [Nat.add].
    rewrite (nth_indep _ 0 (g (0, (0, 0)))) by (rewrite map_length, dh_year_length; exact Hj).
    rewrite (map_nth g). rewrite dh_year_nth by exact Hj. reflexivity.
  - apply dh_years_blocks.
  - rewrite map_length, seq_length. exact Hi.
  - exact Hj.
Qed.

(* every day of every year: geothermal + peaking = demand/24, geothermal <= well output, peaking >= 0 *)
Theorem dh_run_days life k fp demand o :
  dh_run life k fp demand = Ok o ->
  fp <> [] /\ (365 <= length demand)%nat /\
  length (d_geo o) = (life * 365)%nat /\ length (d_ng o) = (life * 365)%nat /\
  forall i j, (i < life)%nat -> (j < 365)%nat ->
    let h := interp k fp (dh_time i j) in
    let g := nth (i * 365 + j) (d_geo o) 0 in
    let p := nth (i * 365 + j) (d_ng o) 0 in
    g + p == nth j demand 0 / 24 /\ g <= h /\ 0 <= p /\ g == Qmin h (nth j demand 0 / 24).
Proof.
  unfold dh_run.
  destruct (Nat.eqb life 0); [discriminate|]. destruct (Nat.eqb k 0); [discriminate|].
  destruct (Nat.eqb_spec (length fp) 0) as [|Hfp]; [discriminate|].
  destruct (_ <? _)%Z; [discriminate|].
  destruct (Nat.ltb_spec (length demand) 365) as [|Hd]; [discriminate|].
  destruct (existsb _ _); [discriminate|].
  intros E; inversion E; subst; clear E. cbn [d_geo d_ng].
  split. { intros ->. apply Hfp. reflexivity. } split. exact Hd.
  split. { rewrite (flat_map_block_length _ 365) by apply dh_years_blocks. rewrite map_length, seq_length. reflexivity. }
  split. { rewrite (flat_map_block_length _ 365) by apply dh_years_blocks. rewrite map_length, seq_length. reflexivity. }
  intros i j Hi Hj. cbn zeta. rewrite !dh_years_nth by assumption.
  unfold dh_geo, dh_ng. cbn [fst snd]. apply dh_split_spec.
Qed.

(* hence the geothermal supply never exceeds any bound of the well-output series *)
Corollary dh_geo_bounded life k fp demand o hi :
  dh_run life k fp demand = Ok o -> (forall x, In x fp -> x <= hi) ->
  forall i j, (i < life)%nat -> (j < 365)%nat -> nth (i * 365 + j) (d_geo o) 0 <= hi.
Proof.
  intros E Hb i j Hi Hj. destruct (dh_run_days _ _ _ _ _ E) as (Hne & _ & _ & _ & H).
  destruct (H i j Hi Hj) as (_ & Hg & _).
  destruct fp as [|x0 fp']. congruence.
  set (lo := fold_right Qmin x0 fp').
  assert (Hlo : forall x, In x (x0 :: fp') -> lo <= x).
  { unfold lo. clear. induction fp' as [|y r IH]; intros x Hx; cbn in *.
    - destruct Hx as [->|[]]. lra.
    - destruct Hx as [->|[->|Hx]].
      + eapply Qle_trans. apply Q.le_min_r. apply IH. left; reflexivity.
      + apply Q.le_min_l.
      + eapply Qle_trans. apply Q.le_min_r. apply IH. right; exact Hx. }
  pose proof (interp_bounds k (x0 :: fp') (dh_time i j) lo hi ltac:(discriminate)
                ltac:(intros x Hx; split; [apply Hlo | apply Hb]; exact Hx)) as Hi2.
  lra.
Qed.

Theorem dh_run_annual_ng life k fp demand o i :
  dh_run life k fp demand = Ok o -> (i < life)%nat ->
  nth i (d_annual_ng o) 0 == sumQ (map dh_ng (dh_year k fp demand i)) * 24.
Proof.
  unfold dh_run.
  destruct (Nat.eqb life 0); [discriminate|]. destruct (Nat.eqb k 0); [discriminate|].
  destruct (Nat.eqb (length fp) 0); [discriminate|]. destruct (_ <? _)%Z; [discriminate|].
  destruct (Nat.ltb (length demand) 365); [discriminate|]. destruct (existsb _ _); [discriminate|].
  intros E Hi; inversion E; subst; clear E. cbn [d_annual_ng].
  rewrite map_map.
  set (g := fun x : nat => sumQ_red (map dh_ng (dh_year k fp demand x)) * 24).
  rewrite (nth_indep _ 0 (g 0%nat)) by (rewrite map_length, seq_length; exact Hi).
  rewrite (map_nth g (seq 0 life) 0%nat i). rewrite seq_nth by exact Hi. unfold g. cbn [Nat.add].
  rewrite sumQ_red_eq. reflexivity.
Qed.

(* ------------------------------------------------------------------------------------------------ *)
(* soundness of the reflective checkers *)

Definition approx (tol x y : Q) : Prop := Qabs (x - y) <= tol * Qmax3 1 (Qabs x) (Qabs y).

Lemma close_iff tol x y : close tol x y = true <-> approx tol x y.
Proof. unfold close, approx. apply Qle_bool_iff. Qed.

Lemma Qmax_eq a b c d : a == c -> b == d -> Qmax a b == Qmax c d.
Proof.
  intros H1 H2. destruct (Qlt_le_dec a b), (Qlt_le_dec c d).
  - rewrite !Q.max_r by lra. exact H2.
  - rewrite Q.max_r, Q.max_l by lra. lra.
  - rewrite Q.max_l, Q.max_r by lra. lra.
  - rewrite !Q.max_l by lra. exact H1.
Qed.

Lemma approx_eq tol x y x' y' : x == x' -> y == y' -> approx tol x y -> approx tol x' y'.
Proof.
  intros Hx Hy. unfold approx, Qmax3.
  assert (E1 : Qabs (x - y) == Qabs (x' - y')) by (apply Qabs_wd; rewrite Hx, Hy; reflexivity).
  assert (E2 : Qmax 1 (Qmax (Qabs x) (Qabs y)) == Qmax 1 (Qmax (Qabs x') (Qabs y'))).
  { apply Qmax_eq. reflexivity. apply Qmax_eq; apply Qabs_wd; assumption. }
  rewrite E1, E2. exact (fun H => H).
Qed.

Lemma all_close_sound tol : forall a b, all_close tol a b = true ->
  length a = length b /\ forall t, (t < length a)%nat -> approx tol (nth t a 0) (nth t b 0).
Proof.
  induction a as [|x a IH]; intros [|y b] H; cbn in H; try discriminate.
  - split. reflexivity. intros t Ht. cbn in Ht. lia.
  - apply andb_true_iff in H. destruct H as [Hc Hr]. destruct (IH _ Hr) as [Hl Hn].
    split. cbn. lia. intros [|t] Ht; cbn [nth]. apply close_iff. exact Hc. apply Hn. cbn in Ht. lia.
Qed.

Theorem check_extracted_sound tol n m cp tinj tprod he :
  check_extracted tol n m cp tinj tprod he = true ->
  length he = length tprod /\
  forall t, (t < length tprod)%nat -> approx tol (n * m * cp * (nth t tprod 0 - tinj) / 1000000) (nth t he 0).
Proof.
  unfold check_extracted. intros H. apply all_close_sound in H. destruct H as [Hl Hn].
  rewrite heat_extracted_length in Hl. split. lia. intros t Ht.
  specialize (Hn t). rewrite heat_extracted_length in Hn. specialize (Hn Ht).
  unfold heat_extracted in Hn. rewrite nth_map_Q in Hn by exact Ht. exact Hn.
Qed.

Theorem check_net_sound tol el pump net :
  check_net tol el pump net = true ->
  length pump = length el /\ length net = length el /\
  forall t, (t < length el)%nat -> approx tol (nth t el 0 - nth t pump 0) (nth t net 0).
Proof.
  unfold check_net, net_series. destruct (same_len el pump) eqn:E; [|discriminate]. apply same_len_true in E.
  intros H. apply all_close_sound in H. destruct H as [Hl Hn]. rewrite map2_length in Hl, Hn.
  split. lia. split. lia. intros t Ht. specialize (Hn t ltac:(lia)). rewrite map2_nth in Hn by lia. exact Hn.
Qed.

Theorem check_scaled_sound tol c a b :
  check_scaled tol c a b = true ->
  length b = length a /\ forall t, (t < length a)%nat -> approx tol (nth t a 0 * c) (nth t b 0).
Proof.
  unfold check_scaled, scale_series. intros H. apply all_close_sound in H. destruct H as [Hl Hn].
  rewrite map_length in Hl, Hn. split. lia. intros t Ht. specialize (Hn t Ht).
  rewrite nth_map_Q in Hn by exact Ht. exact Hn.
Qed.

Theorem check_annual_sound tol s life k util offs reported :
  check_annual tol s life k util offs reported = true ->
  length reported = Nat.min life (length offs) /\
  forall y, (y < life)%nat -> (y < length offs)%nat ->
    approx tol (integrate_slice s y k util + nth y offs 0) (nth y reported 0).
Proof.
  unfold check_annual, adjust. intros H. apply all_close_sound in H. destruct H as [Hl Hn].
  rewrite map2_length, annual_length in Hl, Hn. split. lia. intros y Hy Ho.
  specialize (Hn y ltac:(lia)). rewrite map2_nth in Hn by (rewrite ?annual_length; assumption).
  rewrite annual_nth in Hn by exact Hy. exact Hn.
Qed.

Lemma annual_u_length s k utils : length (annual_u s k utils) = length utils.
Proof. unfold annual_u. generalize 0%nat. induction utils as [|u r IH]; intros i; cbn. reflexivity. rewrite IH. reflexivity. Qed.

Theorem check_annual_u_sound tol s k utils offs reported :
  check_annual_u tol s k utils offs reported = true ->
  forall y, (y < length utils)%nat -> (y < length offs)%nat ->
    approx tol (integrate_slice s y k (nth y utils 0) + nth y offs 0) (nth y reported 0).
Proof.
  unfold check_annual_u, adjust. intros H. apply all_close_sound in H. destruct H as [Hl Hn].
  pose proof (annual_u_length s k utils) as Hlu.
  rewrite map2_length, Hlu in Hn. intros y Hy Ho.
  specialize (Hn y ltac:(lia)). rewrite map2_nth in Hn by (rewrite ?Hlu; assumption).
  rewrite annual_u_nth in Hn by exact Hy. exact Hn.
Qed.

Theorem check_remaining_sound tol init kwh rem :
  check_remaining tol init kwh rem = true ->
  length rem = length kwh /\
  forall y, (y < length kwh)%nat ->
    approx tol (init - sumQ (firstn (S y) kwh) * 3600 * 1000 / 1000000000000000) (nth y rem 0).
Proof.
  unfold check_remaining. intros H. apply all_close_sound in H. destruct H as [Hl Hn].
  destruct (remaining_spec init kwh) as [Hr Hs]. rewrite Hr in Hl, Hn. split. lia.
  intros y Hy. eapply approx_eq; [apply Hs; exact Hy | reflexivity | apply Hn; exact Hy].
Qed.

(* conservation on reported series *)
Lemma all_close_where_sound tol : forall mask a b, all_close_where tol mask a b = true ->
  length a = length mask /\ length b = length mask /\
  forall t, (t < length mask)%nat -> ~ nth t mask 0 == 0 -> approx tol (nth t a 0) (nth t b 0).
Proof.
  induction mask as [|m mask IH]; intros [|x a] [|y b] H; cbn in H; try discriminate.
  - repeat split. intros t Ht. cbn in Ht. lia.
  - apply andb_true_iff in H. destruct H as [Hc Hr]. destruct (IH _ _ Hr) as (L1 & L2 & Hn).
    split. cbn; lia. split. cbn; lia. intros [|t] Ht Hm; cbn [nth] in *.
    + apply orb_true_iff in Hc. destruct Hc as [Hc|Hc].
      * apply Qeq_bool_iff in Hc. contradiction.
      * apply close_iff. exact Hc.
    + apply Hn. cbn in Ht. lia. exact Hm.
Qed.

Lemma conservation_terms_nth eff : forall net fle hp t,
  (t < length net)%nat -> (t < length fle)%nat -> (length hp = length net \/ hp = []) ->
  nth t (conservation_terms eff hp net fle) 0 = nth t net 0 / nth t fle 0 + nth t hp 0 / eff.
Proof.
  induction net as [|x net IH]; intros [|f fle] hp t Hn Hf Hh; cbn in Hn, Hf; try lia.
  cbn [conservation_terms]. destruct hp as [|h hp'].
  - destruct t as [|t]; cbn [nth]. reflexivity.
    rewrite IH by (try lia; right; reflexivity). destruct t; reflexivity.
  - destruct Hh as [Hh|Hh]; [|discriminate]. cbn in Hh.
    destruct t as [|t]; cbn [nth]. reflexivity. apply IH; lia.
Qed.

Lemma conservation_terms_length eff : forall net fle hp,
  length (conservation_terms eff hp net fle) = Nat.min (length net) (length fle).
Proof.
  induction net as [|x net IH]; intros [|f fle] hp; cbn [conservation_terms length]; try reflexivity.
  destruct hp as [|h hp']; cbn [length]; rewrite IH; reflexivity.
Qed.

(* heat towards electricity (Net / reported first-law efficiency) + useful heat / efficiency = heat extracted *)
Theorem check_conservation_sound tol eff he hp net fle :
  check_conservation tol eff he hp net fle = true ->
  ~ eff == 0 /\
  forall t, (t < length he)%nat -> (t < length net)%nat -> ~ nth t fle 0 == 0 ->
    approx tol (nth t net 0 / nth t fle 0 + nth t hp 0 / eff) (nth t he 0).
Proof.
  unfold check_conservation. intros H.
  apply andb_true_iff in H. destruct H as [H Hc]. apply andb_true_iff in H. destruct H as [He Hh].
  split. { intros E. apply Qeq_bool_iff in E. rewrite E in He. discriminate. }
  apply all_close_where_sound in Hc. destruct Hc as (L1 & L2 & Hn).
  rewrite conservation_terms_length in L1.
  intros t Ht Htn Hf. specialize (Hn t ltac:(lia) Hf).
  rewrite conservation_terms_nth in Hn; try lia. exact Hn.
  apply orb_true_iff in Hh. destruct Hh as [Hh|Hh].
  - right. apply Nat.eqb_eq in Hh. destruct hp; [reflexivity|discriminate].
  - left. apply same_len_true. exact Hh.
Qed.

(* district heating, day by day, on reported series *)
Definition dh_day_ok (tol : Q) (k : nat) (fp demand : list Q) (pos : nat) (g p : Q) : Prop :=
  let i := (pos / 365)%nat in
  let j := (pos mod 365)%nat in
  let h := interp k fp (dh_time i j) in
  approx tol (g + p) (nth j demand 0 / 24) /\ g <= h + tol * Qmax 1 (Qabs h) /\ 0 <= p.

Lemma dh_days_ok_sound tol k fp demand : forall geo ng i j,
  (j < 365)%nat -> dh_days_ok tol k fp demand i j geo ng = true ->
  length ng = length geo /\
  forall t, (t < length geo)%nat -> dh_day_ok tol k fp demand (i * 365 + j + t) (nth t geo 0) (nth t ng 0).
Proof.
  induction geo as [|g geo IH]; intros [|p ng] i j Hj H; cbn [dh_days_ok] in H; try discriminate.
  - split. reflexivity. intros t Ht. cbn in Ht. lia.
  - apply andb_true_iff in H. destruct H as [H Hrest]. apply andb_true_iff in H. destruct H as [H H3].
    apply andb_true_iff in H. destruct H as [H1 H2].
    assert (Hnext : exists i' j', (j' < 365)%nat /\ (i' * 365 + j' = i * 365 + j + 1)%nat /\
                                  dh_days_ok tol k fp demand i' j' geo ng = true).
    { destruct (Nat.eqb_spec (S j) 365) as [E|E].
      - exists (S i), 0%nat. split. lia. split. lia. exact Hrest.
      - exists i, (S j). split. lia. split. lia. exact Hrest. }
    destruct Hnext as (i' & j' & Hj' & Epos & Hok). destruct (IH _ _ _ Hj' Hok) as [Hl Hn].
    split. cbn. lia. intros [|t] Ht; cbn [nth].
    + unfold dh_day_ok. rewrite Nat.add_0_r.
      assert (Ed : ((i * 365 + j) / 365 = i)%nat) by (symmetry; apply (Nat.div_unique _ 365 i j); lia).
      assert (Em : ((i * 365 + j) mod 365 = j)%nat) by (symmetry; apply (Nat.mod_unique _ 365 i j); lia).
      rewrite Ed, Em. cbn zeta. split. apply close_iff. exact H1.
      split. apply Qle_bool_iff. exact H2. apply Qle_bool_iff. exact H3.
    + replace (i * 365 + j + S t)%nat with (i' * 365 + j' + t)%nat by lia. apply Hn. cbn in Ht. lia.
Qed.

Theorem check_dh_sound tol life k fp demand geo ng utils util ann_ng maxpk :
  check_dh tol life k fp demand geo ng utils util ann_ng maxpk = true ->
  length geo = (life * 365)%nat /\ length ng = (life * 365)%nat /\
  forall pos, (pos < life * 365)%nat -> dh_day_ok tol k fp demand pos (nth pos geo 0) (nth pos ng 0).
Proof.
  unfold check_dh. intros H. apply andb_true_iff in H. destruct H as [H _].
  apply andb_true_iff in H. destruct H as [Hl Hd]. apply Nat.eqb_eq in Hl.
  apply dh_days_ok_sound in Hd; [|lia]. destruct Hd as [Hl2 Hn].
  split. exact Hl. split. lia. intros pos Hp. specialize (Hn pos ltac:(lia)). cbn [Nat.mul Nat.add] in Hn. exact Hn.
Qed.

(* ------------------------------------------------------------------------------------------------ *)
(* the model assigns a branch to a table of end-use codes *)
Definition covers_enduse (codes : list Z) : bool :=
  forallb (fun c => match enduse_of_code c with Some _ => true | None => false end) codes.

Lemma covers_enduse_sound codes : covers_enduse codes = true ->
  forall c, In c codes -> exists eu, enduse_of_code c = Some eu.
Proof.
  unfold covers_enduse. intros H c Hc. rewrite forallb_forall in H. specialize (H c Hc).
  destruct (enduse_of_code c) as [eu|]; [exists eu; reflexivity|discriminate].
Qed.

(* ------------------------------------------------------------------------------------------------ *)
(* conversion-efficiency / reinjection-temperature correlations and the power-plant part of Calculate *)

(* the interpolation weights sum to 1: blending two equal values returns that value; a blend is the lower value plus
   the weight times the difference; with a weight in [0,1] it lies between the two *)
Theorem blend_weights tf x y :
  blend tf x x == x /\ blend tf x y == x + tf * (y - x) /\
  (0 <= tf <= 1 -> Qmin x y <= blend tf x y <= Qmax x y).
Proof.
  unfold blend. split. ring. split. ring. intros [H0 H1].
  destruct (Qlt_le_dec x y) as [H|H].
  - rewrite Q.min_l, Q.max_r by lra. split; nra.
  - rewrite Q.min_r, Q.max_l by lra. split; nra.
Qed.

Theorem tfraction_range amb : 5 <= amb -> amb < 25 -> 0 <= tfraction amb /\ tfraction amb < 1.
Proof.
  intros H5 H25. unfold tfraction, is_low. destruct (Qltb_spec amb 15) as [H|H]; split.
  - apply Qle_shift_div_l; lra.
  - apply Qlt_shift_div_r; lra.
  - apply Qle_shift_div_l; lra.
  - apply Qlt_shift_div_r; lra.
Qed.

(* the code's value is the value of the bracket the ambient temperature falls in ... *)
Theorem corr_at_bracket p amb T :
  etau_at p amb T = etau_bracket p (is_low amb) amb T /\ reinj_at p amb T = reinj_bracket p (is_low amb) amb T.
Proof. unfold etau_at, reinj_at, etau_bracket, reinj_bracket, tfraction. destruct (is_low amb); split; reflexivity. Qed.

(* ... and at the bracket boundary (15 degC) the two brackets of every plant type agree, for every entering temperature:
   the correlations are continuous in the ambient temperature *)
Theorem corr_continuous p T :
  etau_bracket p true 15 T == etau_bracket p false 15 T /\ reinj_bracket p true 15 T == reinj_bracket p false 15 T.
Proof.
  unfold etau_bracket, reinj_bracket, blend, poly2. destruct p; cbn [coeffs eta_ll eta_ul rj_ll rj_ul]; split; field.
Qed.

Lemma fold_left_Qmin_le : forall l x, fold_left Qmin l x <= x /\ forall y, In y l -> fold_left Qmin l x <= y.
Proof.
  induction l as [|a l IH]; intros x; cbn [fold_left]. split. lra. intros y [].
  destruct (IH (Qmin x a)) as [H1 H2]. split.
  - eapply Qle_trans. exact H1. apply Q.le_min_l.
  - intros y [<-|Hy]. eapply Qle_trans. exact H1. apply Q.le_min_r. apply H2. exact Hy.
Qed.

Theorem tinj_update_spec tinj reinj t' :
  tinj_update tinj reinj = Some t' ->
  t' <= tinj /\ (forall r, In r reinj -> t' <= r) /\ (t' == tinj \/ In t' reinj \/ exists r, In r reinj /\ t' == r).
Proof.
  unfold tinj_update, list_min. destruct reinj as [|x l]; [discriminate|].
  destruct (fold_left_Qmin_le l x) as [H1 H2].
  assert (Hall : forall r, In r (x :: l) -> fold_left Qmin l x <= r).
  { intros r [<-|Hr]. exact H1. apply H2. exact Hr. }
  assert (Hin : exists r, In r (x :: l) /\ fold_left Qmin l x == r).
  { clear. revert x. induction l as [|a l IH]; intros x; cbn [fold_left].
    - exists x. split. left; reflexivity. reflexivity.
    - destruct (IH (Qmin x a)) as (r & [<-|Hr] & E).
      + destruct (Qlt_le_dec x a).
        * exists x. split. left; reflexivity. rewrite E. apply Q.min_l. lra.
        * exists a. split. right; left; reflexivity. rewrite E. apply Q.min_r. lra.
      + exists r. split. right; right; exact Hr. exact E. }
  destruct (Qltb_spec (fold_left Qmin l x) tinj) as [H|H]; intros E; inversion E; subst; clear E.
  - split. lra. split. exact Hall. right. right. exact Hin.
  - split. lra. split. intros r Hr. specialize (Hall r Hr). lra. left. reflexivity.
Qed.

(* gross electricity of every branch *)
Lemma ehp_el eu avail etau n m cp tprod tinj reinj tchp eff chpf o :
  ehp eu avail etau n m cp tprod tinj reinj tchp eff chpf = Ok o ->
  forall t, (t < length avail)%nat ->
    nth t (o_el o) 0 == nth t avail 0 * nth t etau 0 * n * m * match eu with EU_PAR => 1 - chpf | _ => 1 end.
Proof.
  unfold ehp. destruct (same_len avail etau) eqn:EL; cbn [negb]; [|discriminate]. apply same_len_true in EL.
  destruct (list_max _) as [mx|]; [|discriminate]. destruct (Qltb mx 0); [discriminate|].
  destruct eu; try (destruct (same_len tprod reinj); cbn [negb]; [|discriminate]);
    intros E t Ht; inversion E; subst; clear E; cbn [o_el]; rewrite map2_nth by lia; ring.
Qed.

Lemma tentering_length eu tchp tprod : length (tentering eu (length tprod) tchp tprod) = length tprod.
Proof. destruct eu; cbn [tentering]; try reflexivity. apply repeat_length. Qed.

Lemma nth_repeat_Q (x : Q) n t : (t < n)%nat -> nth t (repeat x n) 0 = x.
Proof. revert t; induction n as [|n IH]; intros [|t] H; cbn; try lia. reflexivity. apply IH. lia. Qed.

Lemma tentering_nth eu tchp tprod t : (t < length tprod)%nat ->
  nth t (tentering eu (length tprod) tchp tprod) 0 = match eu with EU_BOT => tchp | _ => nth t tprod 0 end.
Proof. intros H. destruct eu; cbn [tentering]; try reflexivity. apply nth_repeat_Q. exact H. Qed.

(* the power-plant part of Calculate, every step of every series: gross electricity = availability x etau x wells x flow
   (x (1 - chp_fraction) in the parallel cycle) with etau the modelled correlation at the plant entering temperature;
   the extracted heat uses the UPDATED injection temperature, which is never above any reinjection temperature;
   the balance of C02_conservation holds; and in the topping cycle the useful heat is
   eff x n m cp (ReinjTemp - Tinj')/1e6 >= 0 with ReinjTemp the modelled correlation *)
Theorem power_plant_spec p eu amb avail n m cp tprod tinj tchp eff chpf tinj' etau reinj o :
  power_plant p eu amb avail n m cp tprod tinj tchp eff chpf = Ok (tinj', etau, reinj, o) ->
  tinj' <= tinj /\ length (o_he o) = length tprod /\
  forall t, (t < length tprod)%nat ->
    let T := match eu with EU_BOT => tchp | _ => nth t tprod 0 end in
    nth t etau 0 = etau_at p amb T /\ nth t reinj 0 = reinj_at p amb T /\ tinj' <= reinj_at p amb T /\
    nth t (o_he o) 0 == n * m * cp * (nth t tprod 0 - tinj') / 1000000 /\
    conserved eu eff o t /\
    ((t < length avail)%nat ->
     nth t (o_el o) 0 == nth t avail 0 * etau_at p amb T * n * m * match eu with EU_PAR => 1 - chpf | _ => 1 end) /\
    (eu = EU_TOP ->
     nth t (o_hp o) 0 == eff * (n * m * cp * (reinj_at p amb (nth t tprod 0) - tinj') / 1000000) /\
     arr_at (o_hete o) t == n * m * cp * (nth t tprod 0 - reinj_at p amb (nth t tprod 0)) / 1000000).
Proof.
  unfold power_plant.
  set (tpp := tentering eu (length tprod) tchp tprod).
  destruct (tinj_update tinj (reinj_series p amb tpp)) as [t1|] eqn:Eu; [|discriminate].
  destruct (ehp eu avail (etau_series p amb tpp) n m cp tprod t1 (reinj_series p amb tpp) tchp eff chpf) as [o1|c] eqn:Ee;
    [|discriminate].
  intros E; inversion E; subst; clear E.
  destruct (tinj_update_spec _ _ _ Eu) as (Hle & Hall & _).
  destruct (ehp_balance _ _ _ _ _ _ _ _ _ _ _ _ _ Ee) as [Hl Hb].
  split. exact Hle. split. exact Hl. intros t Ht. cbn zeta.
  assert (Htpp : nth t tpp 0 = match eu with EU_BOT => tchp | _ => nth t tprod 0 end) by (apply tentering_nth; exact Ht).
  assert (Hlt : (t < length tpp)%nat) by (unfold tpp; rewrite tentering_length; exact Ht).
  assert (He : nth t (etau_series p amb tpp) 0 = etau_at p amb (nth t tpp 0)) by (apply nth_map_Q; exact Hlt).
  assert (Hr : nth t (reinj_series p amb tpp) 0 = reinj_at p amb (nth t tpp 0)) by (apply nth_map_Q; exact Hlt).
  rewrite Htpp in He, Hr.
  split. exact He. split. exact Hr.
  split. { rewrite <- Hr. apply Hall. apply nth_In. unfold reinj_series. rewrite map_length. exact Hlt. }
  destruct (Hb t Ht) as [Hhe Hc]. split. exact Hhe. split. exact Hc.
  split.
  - intros Ha. rewrite (ehp_el _ _ _ _ _ _ _ _ _ _ _ _ _ Ee t Ha). rewrite He. reflexivity.
  - intros ->. pose proof (ehp_branches _ _ _ _ _ _ _ _ _ _ _ _ _ Ee t Ht) as Hbr. cbn beta iota in Hbr.
    destruct Hbr as (_ & Hhp & Hte). rewrite Hr in Hhp, Hte. split. exact Hhp. exact Hte.
Qed.

(* hence, in the topping cycle with non-negative efficiency, flow and heat capacity the useful heat is never negative *)
Corollary topping_heat_nonneg p amb avail n m cp tprod tinj tchp eff chpf tinj' etau reinj o t :
  power_plant p EU_TOP amb avail n m cp tprod tinj tchp eff chpf = Ok (tinj', etau, reinj, o) ->
  0 <= eff -> 0 <= n -> 0 <= m -> 0 <= cp -> (t < length tprod)%nat -> 0 <= nth t (o_hp o) 0.
Proof.
  intros E He Hn Hm Hc Ht. destruct (power_plant_spec _ _ _ _ _ _ _ _ _ _ _ _ _ _ _ _ E) as (_ & _ & H).
  destruct (H t Ht) as (_ & _ & Hle & _ & _ & _ & Htop). destruct (Htop eq_refl) as [Hhp _]. cbn zeta in Hle.
  rewrite Hhp.
  assert (0 <= n * m * cp) by (apply Qmult_le_0_compat; [apply Qmult_le_0_compat|]; assumption).
  assert (0 <= n * m * cp * (reinj_at p amb (nth t tprod 0) - tinj')) by (apply Qmult_le_0_compat; lra).
  apply Qmult_le_0_compat. exact He. apply Qle_shift_div_l. reflexivity. lra.
Qed.

Theorem check_power_plant_sound tol p eu amb avail n m cp tprod tinj tchp eff chpf tpp el he hp :
  check_power_plant tol p eu amb avail n m cp tprod tinj tchp eff chpf tpp el he hp = true ->
  exists tinj' etau reinj o,
    power_plant p eu amb avail n m cp tprod tinj tchp eff chpf = Ok (tinj', etau, reinj, o) /\
    approx tol tinj' tinj /\
    length el = length (o_el o) /\ length he = length (o_he o) /\ length hp = length (o_hp o) /\
    (forall t, (t < length (o_el o))%nat -> approx tol (nth t (o_el o) 0) (nth t el 0)) /\
    (forall t, (t < length (o_he o))%nat -> approx tol (nth t (o_he o) 0) (nth t he 0)) /\
    (forall t, (t < length (o_hp o))%nat -> approx tol (nth t (o_hp o) 0) (nth t hp 0)).
Proof.
  unfold check_power_plant. intros H. apply andb_true_iff in H. destruct H as [_ H].
  destruct (power_plant p eu amb avail n m cp tprod tinj tchp eff chpf) as [[[[t1 e1] r1] o1]|c]; [|discriminate].
  apply andb_true_iff in H. destruct H as [H H4]. apply andb_true_iff in H. destruct H as [H H3].
  apply andb_true_iff in H. destruct H as [H1 H2].
  apply all_close_sound in H2, H3, H4. destruct H2 as [L2 N2]. destruct H3 as [L3 N3]. destruct H4 as [L4 N4].
  exists t1, e1, r1, o1. split. reflexivity. split. apply close_iff. exact H1.
  repeat split; auto.
Qed.

(* ------------------------------------------------------------------------------------------------ *)
(* SUTRA surface plant *)

Lemma every_other_nth : forall t l, nth t (every_other l) 0 = nth (2 * t) l 0.
Proof.
  induction t as [|t IH]; intros [|x [|y r]]; cbn [every_other]; try reflexivity.
  - cbn. destruct t; reflexivity.
  - replace (2 * S t)%nat with (S (S (2 * t))) by lia. cbn [nth]. apply IH.
Qed.

Lemma every_other_length : forall n l, (length l <= n)%nat -> length (every_other l) = ((length l + 1) / 2)%nat.
Proof.
  induction n as [|n IH]; intros [|x [|y r]] H; cbn [every_other length] in *; try reflexivity; try lia.
  rewrite IH by lia. replace (S (S (length r)) + 1)%nat with (length r + 1 + 1 * 2)%nat by lia.
  rewrite Nat.div_add by lia. lia.
Qed.

(* one step: the simulated heat is split into an injected (<= 0) and a produced (>= 0) part, auxiliary heat fills the gap
   to the target, and the total supply meets the target *)
Lemma sutra_scale_nonneg dt x : 0 < dt -> 0 <= x -> 0 <= x / dt / 1000.
Proof.
  intros Hd Hx. apply Qle_shift_div_l. reflexivity. rewrite Qmult_0_l. apply Qle_shift_div_l. exact Hd. lra.
Qed.

Lemma sutra_scale_mono dt x y : 0 < dt -> x <= y -> x / dt / 1000 <= y / dt / 1000.
Proof.
  intros Hd Hxy. pose proof (sutra_scale_nonneg dt (y - x) Hd ltac:(lra)) as H.
  assert (E : (y - x) / dt / 1000 == y / dt / 1000 - x / dt / 1000) by (field; lra). lra.
Qed.

Theorem sutra_step dt target sim : 0 < dt ->
  sutra_injected dt sim + sutra_produced dt sim == sim / dt / 1000 /\
  sutra_total dt target sim == sutra_produced dt sim + sutra_aux dt target sim /\
  sutra_injected dt sim <= 0 /\ 0 <= sutra_produced dt sim /\ 0 <= sutra_aux dt target sim /\
  target / dt / 1000 <= sutra_total dt target sim /\
  (0 <= sim -> sutra_total dt target sim == Qmax sim target / dt / 1000).
Proof.
  intros Hd. unfold sutra_total, sutra_injected, sutra_produced, sutra_aux.
  assert (E0 : 0 / dt / 1000 == 0) by (field; lra).
  assert (Esub : (target - sim) / dt / 1000 == target / dt / 1000 - sim / dt / 1000) by (field; lra).
  split; [|split; [reflexivity|split; [|split; [|split; [|split]]]]].
  - destruct (Qltb_spec 0 sim); destruct (Qltb_spec sim 0); try lra; rewrite ?E0; try ring.
    assert (sim == 0) by lra. assert (E : sim / dt / 1000 == 0) by (rewrite H; exact E0). lra.
  - destruct (Qltb_spec 0 sim). lra. rewrite <- E0. apply sutra_scale_mono; lra.
  - destruct (Qltb_spec sim 0). lra. apply sutra_scale_nonneg; lra.
  - destruct (Qltb_spec (target - sim) 0). lra. apply sutra_scale_nonneg; lra.
  - destruct (Qltb_spec sim 0) as [Hs|Hs]; destruct (Qltb_spec (target - sim) 0) as [Ht|Ht]; rewrite ?E0, ?Esub.
    + pose proof (sutra_scale_mono dt target sim Hd ltac:(lra)). pose proof (sutra_scale_mono dt sim 0 Hd ltac:(lra)). lra.
    + pose proof (sutra_scale_mono dt sim 0 Hd ltac:(lra)). lra.
    + pose proof (sutra_scale_mono dt target sim Hd ltac:(lra)). lra.
    + lra.
  - intros Hs. destruct (Qltb_spec sim 0) as [H1|H1]; [lra|].
    destruct (Qltb_spec (target - sim) 0) as [Ht|Ht].
    + rewrite Q.max_l by lra. lra.
    + rewrite Q.max_r by lra. rewrite Esub. ring.
Qed.

Lemma nth_skipn_Q : forall a (l : list Q) t, nth t (skipn a l) 0 = nth (a + t) l 0.
Proof.
  induction a as [|a IH]; intros l t. reflexivity.
  destruct l as [|x l]. cbn. destruct t; reflexivity. cbn [skipn Nat.add nth]. apply IH.
Qed.

Lemma nth_firstn_Q : forall n (l : list Q) t, (t < n)%nat -> nth t (firstn n l) 0 = nth t l 0.
Proof.
  induction n as [|n IH]; intros l t H. lia.
  destruct l as [|x l]. reflexivity. destruct t as [|t]. reflexivity. cbn [firstn nth]. apply IH. lia.
Qed.

Lemma slice_length a b (l : list Q) : length (slice a b l) = Nat.min (b - a) (length l - a).
Proof. unfold slice. rewrite firstn_length, skipn_length. reflexivity. Qed.

Lemma slice_nth a b (l : list Q) t : (t < b - a)%nat -> nth t (slice a b l) 0 = nth (a + t) l 0.
Proof. intros H. unfold slice. rewrite nth_firstn_Q by exact H. apply nth_skipn_Q. Qed.

Lemma sumQ_add_pointwise : forall C A B : list Q, length A = length C -> length B = length C ->
  (forall t, (t < length C)%nat -> nth t C 0 == nth t A 0 + nth t B 0) -> sumQ C == sumQ A + sumQ B.
Proof.
  induction C as [|c C IH]; intros [|a A] [|b B] LA LB H; cbn in LA, LB; try lia. cbn. ring.
  cbn [sumQ]. rewrite (IH A B) by (try lia; intros t Ht; apply (H (S t)); cbn; lia).
  pose proof (H 0%nat ltac:(cbn; lia)) as H0. cbn in H0. rewrite H0. ring.
Qed.

Lemma sumQ_map_scale (f : Q -> Q) dt : ~ dt == 0 -> forall l,
  sumQ (map (fun x => f x / dt / 1000) l) * dt / 1000 == sumQ (map f l) / 1000000.
Proof.
  intros Hd. induction l as [|x l IH]; cbn [map sumQ]. field.
  assert (E : (f x / dt / 1000 + sumQ (map (fun x0 => f x0 / dt / 1000) l)) * dt / 1000 ==
              f x / 1000000 + sumQ (map (fun x0 => f x0 / dt / 1000) l) * dt / 1000) by (field; exact Hd).
  rewrite E, IH. field.
Qed.

Lemma slice_map (f : Q -> Q) a b l : slice a b (map f l) = map f (slice a b l).
Proof. unfold slice. rewrite skipn_map, firstn_map. reflexivity. Qed.

(* annual produced energy = sum over the year's 730 steps of max(simulated heat, 0), / 1e6: the time step cancels *)
Theorem sutra_annual_produced dt sm i : ~ dt == 0 ->
  sutra_annual dt (map (sutra_produced dt) sm) i ==
  sumQ (map (fun s => if Qltb s 0 then 0 else s) (sutra_block sm i)) / 1000000.
Proof.
  intros Hd. unfold sutra_annual, sutra_block. rewrite sumQ_red_eq.
  change (map (sutra_produced dt) sm) with (map (fun s => (if Qltb s 0 then 0 else s) / dt / 1000) sm).
  rewrite slice_map. apply (sumQ_map_scale (fun s => if Qltb s 0 then 0 else s) dt Hd).
Qed.

(* annual total supply = annual produced + annual auxiliary, every year *)
Theorem sutra_annual_total dt tg sm i : length tg = length sm ->
  sutra_annual dt (map2 (sutra_total dt) tg sm) i ==
  sutra_annual dt (map (sutra_produced dt) sm) i + sutra_annual dt (map2 (sutra_aux dt) tg sm) i.
Proof.
  intros L. unfold sutra_annual, sutra_block. rewrite !sumQ_red_eq.
  set (a := (i * 730)%nat). set (b := ((i + 1) * 730)%nat).
  rewrite (sumQ_add_pointwise (slice a b (map2 (sutra_total dt) tg sm))
             (slice a b (map (sutra_produced dt) sm)) (slice a b (map2 (sutra_aux dt) tg sm))).
  - field.
  - rewrite !slice_length, map_length, map2_length. lia.
  - rewrite !slice_length, !map2_length. lia.
  - intros t Ht. rewrite slice_length, map2_length in Ht.
    rewrite !slice_nth by lia.
    rewrite !map2_nth by lia. rewrite nth_map_Q by lia. reflexivity.
Qed.

Theorem sutra_plant_spec time target sim pump o :
  sutra_plant time target sim pump = Ok o ->
  exists tv tg sm,
    subsample time = Some tv /\ subsample target = Some tg /\ subsample sim = Some sm /\ length tg = length sm /\
    s_dt o = sutra_dt tv /\ ~ s_dt o == 0 /\
    s_inj o = map (sutra_injected (s_dt o)) sm /\ s_prod o = map (sutra_produced (s_dt o)) sm /\
    s_aux o = map2 (sutra_aux (s_dt o)) tg sm /\ s_tot o = map2 (sutra_total (s_dt o)) tg sm /\
    length (s_ann_tot o) = Z.to_nat (py_round (last tv 0 / 8766)) /\
    forall i, (i < length (s_ann_tot o))%nat ->
      nth i (s_ann_tot o) 0 == nth i (s_ann_prod o) 0 + nth i (s_ann_aux o) 0 /\
      nth i (s_ann_prod o) 0 == sumQ (map (fun s => if Qltb s 0 then 0 else s) (sutra_block sm i)) / 1000000 /\
      nth i (s_pumpkwh o) 0 == sumQ (sutra_block pump i) * s_dt o.
Proof.
  unfold sutra_plant.
  destruct (subsample time) as [tv|]; [|discriminate]. destruct (subsample target) as [tg|]; [|discriminate].
  destruct (subsample sim) as [sm|]; [|discriminate].
  destruct (same_len tg sm) eqn:EL; cbn [negb]; [|discriminate]. apply same_len_true in EL.
  destruct (Qeq_bool (sutra_dt tv) 0) eqn:Ed; [discriminate|].
  destruct (list_max _) as [mx|]; [|discriminate].
  intros E; inversion E; subst; clear E. cbn [s_dt s_inj s_prod s_aux s_tot s_ann_tot s_ann_prod s_ann_aux s_pumpkwh].
  exists tv, tg, sm. repeat (split; [reflexivity|]). split. exact EL. split. reflexivity.
  split. { intros H. apply Qeq_bool_iff in H. congruence. }
  repeat (split; [reflexivity|]).
  split. rewrite map_length, seq_length. reflexivity.
  intros i Hi. rewrite map_length, seq_length in Hi.
  set (dt := sutra_dt tv).
  assert (Hn : forall ser, nth i (map (sutra_annual dt ser) (seq 0 (Z.to_nat (py_round (last tv 0 / 8766))))) 0 = sutra_annual dt ser i).
  { intros ser. rewrite (nth_indep _ 0 (sutra_annual dt ser 0%nat)) by (rewrite map_length, seq_length; exact Hi).
    rewrite (map_nth (sutra_annual dt ser)). rewrite seq_nth by exact Hi. reflexivity. }
  rewrite !Hn. split. apply sutra_annual_total. exact EL.
  split. apply sutra_annual_produced. intros H. apply Qeq_bool_iff in H. unfold dt in H. congruence.
  rewrite (nth_indep _ 0 (sutra_pumping_kwh dt pump 0%nat)) by (rewrite map_length, seq_length; exact Hi).
  rewrite (map_nth (sutra_pumping_kwh dt pump)). rewrite seq_nth by exact Hi. cbn [Nat.add].
  unfold sutra_pumping_kwh. rewrite sumQ_red_eq. reflexivity.
Qed.

Theorem check_sutra_points_sound tol dt raw_target raw_sim inj prod aux tot :
  check_sutra_points tol dt raw_target raw_sim inj prod aux tot = true ->
  length inj = length (every_other raw_sim) /\
  forall t, (t < length (every_other raw_sim))%nat ->
    let sim := nth (2 * t) raw_sim 0 in
    let target := nth (2 * t) raw_target 0 in
    approx tol (sutra_injected dt sim) (nth t inj 0) /\ approx tol (sutra_produced dt sim) (nth t prod 0) /\
    approx tol (sutra_aux dt target sim) (nth t aux 0) /\ approx tol (sutra_total dt target sim) (nth t tot 0).
Proof.
  unfold check_sutra_points. intros H.
  apply andb_true_iff in H. destruct H as [H H5]. apply andb_true_iff in H. destruct H as [H H4].
  apply andb_true_iff in H. destruct H as [H H3]. apply andb_true_iff in H. destruct H as [H1 H2].
  apply same_len_true in H1.
  apply all_close_sound in H2, H3, H4, H5.
  destruct H2 as [L2 N2]. destruct H3 as [L3 N3]. destruct H4 as [L4 N4]. destruct H5 as [L5 N5].
  rewrite map_length in L2, N2, L3, N3. rewrite map2_length in L4, N4, L5, N5.
  split. lia. intros t Ht. cbn zeta. rewrite <- !every_other_nth.
  specialize (N2 t Ht). specialize (N3 t Ht). specialize (N4 t ltac:(lia)). specialize (N5 t ltac:(lia)).
  rewrite nth_map_Q in N2, N3 by exact Ht. rewrite map2_nth in N4, N5 by lia.
  repeat split; assumption.
Qed.

Theorem check_sutra_year_sound tol dt inj prod aux tot pump annual :
  check_sutra_year tol dt inj prod aux tot pump annual = true ->
  length inj = 730%nat /\
  approx tol (sumQ (firstn 730 inj) * dt / 1000) (nth 0 annual 0) /\
  approx tol (sumQ (firstn 730 prod) * dt / 1000) (nth 1 annual 0) /\
  approx tol (sumQ (firstn 730 aux) * dt / 1000) (nth 2 annual 0) /\
  approx tol (sumQ (firstn 730 tot) * dt / 1000) (nth 3 annual 0) /\
  approx tol (sumQ (firstn 730 pump) * dt) (nth 4 annual 0).
Proof.
  unfold check_sutra_year. intros H. apply andb_true_iff in H. destruct H as [Hl H]. apply Nat.eqb_eq in Hl.
  apply all_close_sound in H. destruct H as [L N]. cbn [length] in L, N.
  split. exact Hl.
  assert (Hb : forall ser, sutra_annual dt ser 0 == sumQ (firstn 730 ser) * dt / 1000).
  { intros ser. unfold sutra_annual, sutra_block, slice. cbn [Nat.mul Nat.add Nat.sub skipn]. rewrite sumQ_red_eq. reflexivity. }
  assert (Hp : sutra_pumping_kwh dt pump 0 == sumQ (firstn 730 pump) * dt).
  { unfold sutra_pumping_kwh, sutra_block, slice. cbn [Nat.mul Nat.add Nat.sub skipn]. rewrite sumQ_red_eq. reflexivity. }
  pose proof (N 0%nat ltac:(lia)) as N0. pose proof (N 1%nat ltac:(lia)) as N1. pose proof (N 2%nat ltac:(lia)) as N2.
  pose proof (N 3%nat ltac:(lia)) as N3. pose proof (N 4%nat ltac:(lia)) as N4. cbn [nth] in N0, N1, N2, N3, N4.
  repeat split.
  - eapply approx_eq; [apply Hb | reflexivity | exact N0].
  - eapply approx_eq; [apply Hb | reflexivity | exact N1].
  - eapply approx_eq; [apply Hb | reflexivity | exact N2].
  - eapply approx_eq; [apply Hb | reflexivity | exact N3].
  - eapply approx_eq; [apply Hp | reflexivity | exact N4].
Qed.

Lemma fle_ok_sound tol hete : forall net fle t0, fle_ok tol t0 hete net fle = true ->
  length fle = length net /\
  forall t, (t < length net)%nat -> ~ arr_at hete (t0 + t) == 0 ->
    approx tol (nth t fle 0 * arr_at hete (t0 + t)) (nth t net 0).
Proof.
  induction net as [|x net IH]; intros [|f fle] t0 H; cbn [fle_ok] in H; try discriminate.
  - split. reflexivity. intros t Ht. cbn in Ht. lia.
  - apply andb_true_iff in H. destruct H as [Hc Hr]. destruct (IH _ _ Hr) as [Hl Hn].
    split. cbn. lia. intros [|t] Ht Hz; cbn [nth].
    + rewrite Nat.add_0_r in *. apply orb_true_iff in Hc. destruct Hc as [Hc|Hc].
      * apply Qeq_bool_iff in Hc. contradiction.
      * apply close_iff. exact Hc.
    + replace (t0 + S t)%nat with (S t0 + t)%nat in * by lia. apply Hn. cbn in Ht. lia. exact Hz.
Qed.

(* reported first-law efficiency x modelled heat towards electricity = reported net electricity *)
Theorem check_fle_sound tol p eu amb avail n m cp tprod tinj tchp eff chpf net fle :
  check_fle tol p eu amb avail n m cp tprod tinj tchp eff chpf net fle = true ->
  exists tinj' etau reinj o,
    power_plant p eu amb avail n m cp tprod tinj tchp eff chpf = Ok (tinj', etau, reinj, o) /\
    length fle = length net /\
    forall t, (t < length net)%nat -> ~ arr_at (o_hete o) t == 0 ->
      approx tol (nth t fle 0 * arr_at (o_hete o) t) (nth t net 0).
Proof.
  unfold check_fle. intros H.
  destruct (power_plant p eu amb avail n m cp tprod tinj tchp eff chpf) as [[[[t1 e1] r1] o1]|c]; [|discriminate].
  apply fle_ok_sound in H. destruct H as [Hl Hn]. exists t1, e1, r1, o1. split. reflexivity. split. exact Hl.
  intros t Ht Hz. apply (Hn t Ht). exact Hz.
Qed.
