(* Proofs/PressureProofs.v - lemmas about Model/Pressure.v *)
From Coq Require Import QArith Qminmax Qround Qabs List ZArith Bool Lia Lqa.
From Verif Require Import Base.Flat Proofs.FlatFacts Model.Pressure.
Import ListNotations.
Open Scope Q_scope.

(* ---------- small facts ---------- *)
Lemma natQ_S t : natQ (S t) == natQ t + 1.
Proof. unfold natQ. rewrite Nat2Z.inj_succ, <- Z.add_1_r, inject_Z_plus. reflexivity. Qed.

Lemma natQ_0 : natQ 0 == 0.
Proof. reflexivity. Qed.

Lemma natQ_nonneg t : 0 <= natQ t.
Proof. unfold natQ. change 0 with (inject_Z 0). rewrite <- Zle_Qle. lia. Qed.

Lemma natQ_pos t : (0 < t)%nat -> 0 < natQ t.
Proof. intros H. unfold natQ. change 0 with (inject_Z 0). rewrite <- Zlt_Qlt. lia. Qed.

Lemma natQ_add a b : natQ (a + b) == natQ a + natQ b.
Proof. unfold natQ. rewrite Nat2Z.inj_add, inject_Z_plus. reflexivity. Qed.

Lemma natQ_le a b : (a <= b)%nat -> natQ a <= natQ b.
Proof. intros H. unfold natQ. rewrite <- Zle_Qle. lia. Qed.

Lemma nth_repeat_lt (a d : Q) m i : (i < m)%nat -> nth i (repeat a m) d = a.
Proof. revert i. induction m as [|m IH]; intros i H; [lia|]. destruct i; cbn; [reflexivity|apply IH; lia]. Qed.

Lemma Qdiv_nonneg a b : 0 <= a -> 0 < b -> 0 <= a / b.
Proof.
  intros Ha Hb. apply Qle_shift_div_l; [exact Hb|]. lra.
Qed.

Lemma Qeqb_false a b : Qeqb a b = false -> ~ a == b.
Proof. intros H E. apply Qeqb_true in E. congruence. Qed.

(* ---------- int(): truncation of a non-negative rational is its floor ---------- *)
Lemma Qtrunc_nonneg_floor x : 0 <= x -> Qtrunc x = Qfloor x.
Proof.
  destruct x as [n d]. unfold Qle, Qtrunc, Qfloor. cbn. intros H.
  apply Z.quot_div_nonneg; lia.
Qed.

Lemma Qtrunc_bounds x : 0 <= x -> inject_Z (Qtrunc x) <= x /\ x < inject_Z (Qtrunc x) + 1.
Proof.
  intros H. rewrite (Qtrunc_nonneg_floor _ H). split.
  - apply Qfloor_le.
  - pose proof (Qlt_floor x) as L. rewrite inject_Z_plus in L. exact L.
Qed.

Lemma Qtrunc_ge_1 x : 1 <= x -> (1 <= Qtrunc x)%Z.
Proof.
  intros H. assert (H0 : 0 <= x) by lra.
  destruct (Qtrunc_bounds x H0) as [_ U].
  assert (L : inject_Z 0 < inject_Z (Qtrunc x)) by (change (inject_Z 0) with 0; lra).
  rewrite <- Zlt_Qlt in L. lia.
Qed.

Lemma Qtrunc_lt_1 x : 0 <= x -> x < 1 -> Qtrunc x = 0%Z.
Proof.
  intros H0 H1. destruct (Qtrunc_bounds x H0) as [L U].
  assert (A : inject_Z (Qtrunc x) < inject_Z 1) by (change (inject_Z 1) with 1; lra).
  assert (B : inject_Z (-1) < inject_Z (Qtrunc x)) by (change (inject_Z (-1)) with (-1 # 1); lra).
  rewrite <- Zlt_Qlt in A, B. lia.
Qed.

(* number of depletion steps for a positive rate *)
Lemma depletion_steps_pos rate k :
  0 < rate -> depletion_steps rate k = Some (Qtrunc (100 / rate * natQ k)).
Proof.
  intros H. unfold depletion_steps. destruct (Qeqb rate 0) eqn:E; [|reflexivity].
  apply Qeqb_true in E. lra.
Qed.

Lemma steps_expr rate k : 0 < rate -> 100 / rate * natQ k == 100 * natQ k / rate.
Proof. intros H. field. lra. Qed.

Lemma steps_expr_nonneg rate k : 0 < rate -> 0 <= 100 * natQ k / rate.
Proof. intros H. apply Qdiv_nonneg; [|exact H]. pose proof (natQ_nonneg k). lra. Qed.

(* ---------- the production loop equals its closed form ---------- *)
Lemma prod_loop_length pf c p0 rem : forall t, length (prod_loop pf c p0 t rem) = rem.
Proof.
  induction rem as [|r IH]; intros t; [reflexivity|]. cbn [prod_loop].
  destruct (Qltb _ _).
  - apply repeat_length.
  - cbn. now rewrite IH.
Qed.

Lemma prod_loop_nth pf c p0 : 0 <= c -> forall rem t i, (i < rem)%nat ->
  nth i (prod_loop pf c p0 t rem) 0 == Qmax p0 (pf - c * natQ (t + i)).
Proof.
  intros Hc. induction rem as [|r IH]; intros t i Hi; [lia|]. cbn [prod_loop].
  destruct (Qltb (pf - c * natQ t) p0) eqn:E.
  - apply Qltb_true in E. rewrite nth_repeat_lt by exact Hi.
    symmetry. apply Q.max_l.
    assert (natQ t <= natQ (t + i)) by (apply natQ_le; lia). nra.
  - apply Qltb_false in E. destruct i as [|j].
    + cbn [nth]. rewrite Nat.add_0_r. symmetry. apply Q.max_r. exact E.
    + cbn [nth]. rewrite IH by lia. replace (S t + j)%nat with (t + S j)%nat by lia. reflexivity.
Qed.

Lemma prod_closed_alt p0 op s t :
  prod_closed p0 op s t = Qmax p0 (p0 * (op / 100) - (p0 * (op / 100) - p0) / inject_Z s * natQ t).
Proof. reflexivity. Qed.

(* the series, as a list, for every lifetime and number of steps per year *)
Lemma prod_pressure_with_closed life k p0 op s :
  (0 < life * k)%nat -> 0 <= p0 -> 100 <= op -> (1 <= s)%Z ->
  exists l, prod_pressure_with life k p0 op (Some s) = Vals l /\ length l = (life * k)%nat /\
            forall t, (t < life * k)%nat -> nth t l 0 == prod_closed p0 op s t.
Proof.
  intros Hn Hp Hop Hs1. unfold prod_pressure_with.
  assert (Hsq : 0 < inject_Z s) by (change 0 with (inject_Z 0); rewrite <- Zlt_Qlt; lia).
  destruct (Qeqb op 100) eqn:E.
  - apply Qeqb_true in E. exists (repeat p0 (life * k)). split; [reflexivity|]. split; [apply repeat_length|].
    intros t Ht. rewrite nth_repeat_lt by exact Ht. rewrite prod_closed_alt.
    symmetry. apply Q.max_l.
    assert (Epf : p0 * (op / 100) == p0) by (rewrite E; field).
    rewrite Epf. setoid_replace ((p0 - p0) / inject_Z s * natQ t) with 0 by (field; lra). lra.
  - destruct (life * k)%nat as [|r] eqn:En; [lia|].
    destruct (Z.eqb s 0) eqn:Ez; [apply Z.eqb_eq in Ez; lia|].
    set (pf := p0 * (op / 100)). set (c := (pf - p0) / inject_Z s).
    assert (Hpf : p0 <= pf).
    { unfold pf. assert (1 <= op / 100) by (apply Qle_shift_div_l; lra). nra. }
    assert (Hc : 0 <= c) by (unfold c; apply Qdiv_nonneg; lra).
    exists (pf :: prod_loop pf c p0 1 r). split; [reflexivity|]. split; [cbn; now rewrite prod_loop_length|].
    intros t Ht. rewrite prod_closed_alt. fold pf. fold c. destruct t as [|j].
    + cbn [nth]. rewrite Q.max_r; rewrite natQ_0; lra.
    + cbn [nth]. rewrite (prod_loop_nth pf c p0 Hc) by lia. replace (1 + j)%nat with (S j) by lia. reflexivity.
Qed.

Lemma prod_pressure_closed life k p0 op rate s :
  (0 < life * k)%nat -> 0 <= p0 -> 100 <= op ->
  depletion_steps rate k = Some s -> (1 <= s)%Z ->
  exists l, prod_pressure life k p0 op rate = Vals l /\ length l = (life * k)%nat /\
            forall t, (t < life * k)%nat -> nth t l 0 == prod_closed p0 op s t.
Proof.
  intros Hn Hp Hop Hs Hs1. unfold prod_pressure. rewrite Hs. apply prod_pressure_with_closed; assumption.
Qed.

(* consequences of the closed form *)
Lemma prod_closed_ge p0 op s t : p0 <= prod_closed p0 op s t.
Proof. unfold prod_closed. apply Q.le_max_l. Qed.

Lemma prod_closed_start p0 op s : 0 <= p0 -> 100 <= op -> prod_closed p0 op s 0 == p0 * (op / 100).
Proof.
  intros Hp Hop. rewrite prod_closed_alt. unfold natQ. cbn [Z.of_nat].
  setoid_replace ((p0 * (op / 100) - p0) / inject_Z s * inject_Z 0) with 0 by (unfold inject_Z; ring).
  assert (1 <= op / 100) by (apply Qle_shift_div_l; lra).
  rewrite Q.max_r; [ring|nra].
Qed.

Lemma prod_closed_step_le p0 op s t : 0 <= p0 -> 100 <= op -> (1 <= s)%Z ->
  prod_closed p0 op s (S t) <= prod_closed p0 op s t.
Proof.
  intros Hp Hop Hs. rewrite !prod_closed_alt.
  assert (Hsq : 0 < inject_Z s) by (change 0 with (inject_Z 0); rewrite <- Zlt_Qlt; lia).
  assert (1 <= op / 100) by (apply Qle_shift_div_l; lra).
  assert (Hc : 0 <= (p0 * (op / 100) - p0) / inject_Z s) by (apply Qdiv_nonneg; nra).
  apply Q.max_le_compat_l. rewrite natQ_S. nra.
Qed.

Lemma prod_closed_exact_step p0 op s t : 0 <= p0 -> 100 <= op -> (1 <= s)%Z -> (Z.of_nat (S t) <= s)%Z ->
  prod_closed p0 op s (S t) == prod_closed p0 op s t - (p0 * (op / 100) - p0) / inject_Z s.
Proof.
  intros Hp Hop Hs Ht. rewrite !prod_closed_alt.
  assert (Hsq : 0 < inject_Z s) by (change 0 with (inject_Z 0); rewrite <- Zlt_Qlt; lia).
  assert (1 <= op / 100) by (apply Qle_shift_div_l; lra).
  set (delta := p0 * (op / 100) - p0). assert (Hd : 0 <= delta) by (unfold delta; nra).
  assert (Hts : natQ (S t) <= inject_Z s) by (unfold natQ; rewrite <- Zle_Qle; exact Ht).
  assert (Hc : 0 <= delta / inject_Z s) by (apply Qdiv_nonneg; lra).
  assert (Hfull : delta / inject_Z s * inject_Z s == delta) by (field; lra).
  assert (H1 : p0 <= p0 * (op / 100) - delta / inject_Z s * natQ (S t)).
  { assert (delta / inject_Z s * natQ (S t) <= delta) by (rewrite <- Hfull at 2; nra). unfold delta in *. lra. }
  assert (H0 : p0 <= p0 * (op / 100) - delta / inject_Z s * natQ t).
  { rewrite natQ_S in H1. nra. }
  rewrite (Q.max_r _ _ H1), (Q.max_r _ _ H0). rewrite natQ_S. ring.
Qed.

Lemma prod_closed_floor p0 op s t : 0 <= p0 -> 100 <= op -> (1 <= s)%Z -> (s <= Z.of_nat t)%Z ->
  prod_closed p0 op s t == p0.
Proof.
  intros Hp Hop Hs Ht. rewrite prod_closed_alt.
  assert (Hsq : 0 < inject_Z s) by (change 0 with (inject_Z 0); rewrite <- Zlt_Qlt; lia).
  assert (1 <= op / 100) by (apply Qle_shift_div_l; lra).
  set (delta := p0 * (op / 100) - p0). assert (Hd : 0 <= delta) by (unfold delta; nra).
  assert (Hts : inject_Z s <= natQ t) by (unfold natQ; rewrite <- Zle_Qle; exact Ht).
  assert (Hc : 0 <= delta / inject_Z s) by (apply Qdiv_nonneg; lra).
  assert (Hfull : delta / inject_Z s * inject_Z s == delta) by (field; lra).
  apply Q.max_l.
  assert (delta <= delta / inject_Z s * natQ t) by (rewrite <- Hfull at 1; nra). unfold delta in *. lra.
Qed.

(* the full statement for a positive rate that does not exceed 100 % per time step *)
Lemma prod_pressure_physical life k p0 op rate :
  (0 < life * k)%nat -> 0 <= p0 -> 100 <= op -> 0 < rate -> rate <= 100 * natQ k ->
  exists l s,
    prod_pressure life k p0 op rate = Vals l /\ length l = (life * k)%nat /\
    (1 <= s)%Z /\ inject_Z s <= 100 * natQ k / rate /\ 100 * natQ k / rate < inject_Z s + 1 /\
    nth 0 l 0 == p0 * (op / 100) /\
    (forall t, (t < life * k)%nat -> p0 <= nth t l 0) /\
    (forall t, (S t < life * k)%nat -> nth (S t) l 0 <= nth t l 0) /\
    (forall t, (S t < life * k)%nat -> (Z.of_nat (S t) <= s)%Z ->
               nth (S t) l 0 == nth t l 0 - (p0 * (op / 100) - p0) / inject_Z s) /\
    (forall t, (t < life * k)%nat -> (s <= Z.of_nat t)%Z -> nth t l 0 == p0).
Proof.
  intros Hn Hp Hop Hr Hrk.
  pose proof (depletion_steps_pos rate k Hr) as Hs.
  set (x := 100 / rate * natQ k) in *.
  assert (Ex : x == 100 * natQ k / rate) by (apply steps_expr; exact Hr).
  assert (Hx1 : 1 <= x).
  { rewrite Ex. apply Qle_shift_div_l; lra. }
  pose proof (Qtrunc_ge_1 x Hx1) as Hs1.
  destruct (Qtrunc_bounds x) as [L U]; [lra|].
  destruct (prod_pressure_closed life k p0 op rate (Qtrunc x) Hn Hp Hop Hs Hs1) as (l & El & Len & Hnth).
  exists l, (Qtrunc x). split; [exact El|]. split; [exact Len|]. split; [exact Hs1|].
  split; [rewrite <- Ex; exact L|]. split; [rewrite <- Ex; exact U|].
  split; [rewrite Hnth by exact Hn; apply prod_closed_start; assumption|].
  split; [intros t Ht; rewrite Hnth by exact Ht; apply prod_closed_ge|].
  split; [intros t Ht; rewrite !Hnth by lia; apply prod_closed_step_le; assumption|].
  split; [intros t Ht Hts; rewrite !Hnth by lia; apply prod_closed_exact_step; assumption|].
  intros t Ht Hts. rewrite Hnth by exact Ht. apply prod_closed_floor; assumption.
Qed.

(* the per-step decline against the stated rate (rate % of the initial overpressure per year, k steps per year) *)
Lemma decline_never_slower delta rate k s :
  0 <= delta -> 0 < rate -> (0 < k)%nat -> (1 <= s)%Z -> inject_Z s <= 100 * natQ k / rate ->
  delta * rate / (100 * natQ k) <= delta / inject_Z s.
Proof.
  intros Hd Hr Hk Hs Hle.
  assert (Hsq : 0 < inject_Z s) by (change 0 with (inject_Z 0); rewrite <- Zlt_Qlt; lia).
  pose proof (natQ_pos k Hk) as Hkq.
  assert (Hx : 0 < 100 * natQ k / rate) by lra.
  setoid_replace (delta * rate / (100 * natQ k)) with (delta / (100 * natQ k / rate)) by (field; split; lra).
  set (X := 100 * natQ k / rate) in *.
  apply Qle_shift_div_l; [exact Hsq|].
  assert (Hc : 0 <= delta / X) by (apply Qdiv_nonneg; lra).
  assert (Hfull : delta / X * X == delta) by (field; lra).
  apply Qle_trans with (delta / X * X); [nra|rewrite Hfull; lra].
Qed.

Lemma decline_exact_when_divisible delta rate k s :
  0 < rate -> (0 < k)%nat -> inject_Z s == 100 * natQ k / rate ->
  delta / inject_Z s == delta * rate / (100 * natQ k).
Proof.
  intros Hr Hk E. pose proof (natQ_pos k Hk) as Hkq. rewrite E. field. split; lra.
Qed.

(* depletion faster than 100 % per time step: the step count truncates to 0 and the code divides by it *)
Lemma prod_pressure_fast_is_error life k p0 op rate :
  (0 < life * k)%nat -> ~ op == 100 -> 100 * natQ k < rate ->
  prod_pressure life k p0 op rate = Err E_ZERODIV.
Proof.
  intros Hn Hop Hr. unfold prod_pressure, prod_pressure_with.
  destruct (Qeqb op 100) eqn:E; [apply Qeqb_true in E; contradiction|].
  destruct (life * k)%nat as [|r] eqn:En; [lia|].
  assert (Hk : (0 < k)%nat) by (destruct k; [rewrite Nat.mul_0_r in En; discriminate|lia]).
  pose proof (natQ_pos k Hk) as Hkq.
  assert (Hr0 : 0 < rate) by lra.
  rewrite (depletion_steps_pos rate k Hr0).
  assert (Ex : 100 / rate * natQ k == 100 * natQ k / rate) by (apply steps_expr; exact Hr0).
  assert (H0 : 0 <= 100 / rate * natQ k) by (rewrite Ex; apply steps_expr_nonneg; exact Hr0).
  assert (H1 : 100 / rate * natQ k < 1) by (rewrite Ex; apply Qlt_shift_div_r; lra).
  rewrite (Qtrunc_lt_1 _ H0 H1). reflexivity.
Qed.

Lemma prod_pressure_defined_refuted :
  exists life k p0 op rate,
    (0 < life * k)%nat /\ 0 < p0 /\ 100 <= op /\ 0 < rate /\ prod_pressure life k p0 op rate = Err E_ZERODIV.
Proof.
  exists 2%nat, 1%nat, 1000, 150, 150.
  split; [lia|]. split; [lra|]. split; [lra|]. split; [lra|]. vm_compute. reflexivity.
Qed.

(* ---------- injection reservoir ---------- *)
Lemma inj_pressure_rises life k p0 rate :
  (0 < life * k)%nat ->
  exists l, inj_pressure life k p0 rate = Vals l /\ length l = (life * k)%nat /\
    (forall t, (t < life * k)%nat -> nth t l 0 == inj_closed p0 rate k t) /\
    (forall t, (S t < life * k)%nat -> nth (S t) l 0 == nth t l 0 + rate / natQ k) /\
    (0 < rate -> forall t, (S t < life * k)%nat -> nth t l 0 < nth (S t) l 0).
Proof.
  intros Hn.
  assert (Hk : (0 < k)%nat) by (destruct k; [rewrite Nat.mul_0_r in Hn; lia|lia]).
  pose proof (natQ_pos k Hk) as Hkq.
  assert (Hclosed : exists l, inj_pressure life k p0 rate = Vals l /\ length l = (life * k)%nat /\
            forall t, (t < life * k)%nat -> nth t l 0 == inj_closed p0 rate k t).
  { unfold inj_pressure. destruct (Qeqb rate 0) eqn:E.
    - apply Qeqb_true in E. exists (repeat p0 (life * k)). split; [reflexivity|]. split; [apply repeat_length|].
      intros t Ht. rewrite nth_repeat_lt by exact Ht. unfold inj_closed. rewrite E. field. lra.
    - destruct (life * k)%nat as [|r]; [lia|].
      exists (p0 :: map (fun t => p0 + rate / natQ k * natQ t) (seq 1 r)). split; [reflexivity|].
      split; [cbn; now rewrite map_length, seq_length|].
      intros t Ht. destruct t as [|j].
      + cbn [nth]. unfold inj_closed, natQ. cbn [Z.of_nat]. unfold inject_Z at 2. ring.
      + cbn [nth].
        rewrite (nth_indep _ 0 ((fun t => p0 + rate / natQ k * natQ t) O)) by (rewrite map_length, seq_length; lia).
        rewrite (map_nth (fun t => p0 + rate / natQ k * natQ t)). rewrite seq_nth by lia.
        unfold inj_closed. replace (1 + j)%nat with (S j) by lia. reflexivity. }
  destruct Hclosed as (l & El & Len & Hnth). exists l. split; [exact El|]. split; [exact Len|]. split; [exact Hnth|].
  split.
  - intros t Ht. rewrite !Hnth by lia. unfold inj_closed. rewrite natQ_S. ring.
  - intros Hr t Ht. rewrite !Hnth by lia. unfold inj_closed. rewrite natQ_S.
    assert (0 < rate / natQ k) by (apply Qlt_shift_div_l; lra). lra.
Qed.

(* which series a run gets *)
Lemma inj_stage_split d i life k p infl prod :
  d || i = true -> inj_stage true d i life k p infl prod = inj_pressure life k p infl.
Proof. intros H. unfold inj_stage. now rewrite H. Qed.

Lemma inj_stage_same life k p infl d i prod : inj_stage false d i life k p infl prod = prod.
Proof. reflexivity. Qed.

Lemma inj_stage_unbound life k p infl prod : inj_stage true false false life k p infl prod = Err E_UNBOUND.
Proof. reflexivity. Qed.

Lemma inj_stage_defined_refuted :
  exists life k p infl prod l, prod = Vals l /\ (0 < life * k)%nat /\
    inj_stage true false false life k p infl prod = Err E_UNBOUND.
Proof. exists 1%nat, 1%nat, 1000, 100, (Vals [1500]), [1500]. repeat split. lia. Qed.

Lemma second_pass_type_error d i life k p infl prod :
  d || i = true -> inj_stage_second_pass true d i life k p infl prod = Err E_TYPE.
Proof. intros H. unfold inj_stage_second_pass. now rewrite H. Qed.

Lemma second_pass_same life k p infl d i prod : inj_stage_second_pass false d i life k p infl prod = prod.
Proof. reflexivity. Qed.

(* the first pass succeeds, the second one does not *)
Lemma second_pass_defined_refuted :
  exists d i life k p infl prod l,
    inj_stage true d i life k p infl prod = Vals l /\ inj_stage_second_pass true d i life k p infl prod = Err E_TYPE.
Proof.
  exists true, false, 1%nat, 2%nat, 9000, 100, (Vals [1; 1]). eexists. split; vm_compute; reflexivity.
Qed.

(* ---------- soundness of the reflective checkers ---------- *)
Lemma nonincreasing_sound l : nonincreasing l = true ->
  forall t, (S t < length l)%nat -> nth (S t) l 0 <= nth t l 0.
Proof.
  induction l as [|x r IH]; intros H t Ht; [cbn in Ht; lia|].
  destruct r as [|y r']; [cbn in Ht; lia|].
  cbn [nonincreasing] in H. apply andb_true_iff in H. destruct H as [Hxy Hr]. apply Qleb_true in Hxy.
  destruct t as [|j]; [exact Hxy|]. cbn [nth]. apply (IH Hr j). cbn in Ht |- *. lia.
Qed.

Lemma increasing_sound l : increasing l = true ->
  forall t, (S t < length l)%nat -> nth t l 0 < nth (S t) l 0.
Proof.
  induction l as [|x r IH]; intros H t Ht; [cbn in Ht; lia|].
  destruct r as [|y r']; [cbn in Ht; lia|].
  cbn [increasing] in H. apply andb_true_iff in H. destruct H as [Hxy Hr]. apply Qltb_true in Hxy.
  destruct t as [|j]; [exact Hxy|]. cbn [nth]. apply (IH Hr j). cbn in Ht |- *. lia.
Qed.

Lemma all_ge_sound b l : all_ge b l = true -> forall t, (t < length l)%nat -> b <= nth t l 0.
Proof.
  unfold all_ge. intros H t Ht. rewrite forallb_forall in H.
  apply Qleb_true. apply H. apply nth_In. exact Ht.
Qed.

Lemma check_prod_series_sound tol p0 op l : check_prod_series tol p0 op l = true ->
  (forall t, (S t < length l)%nat -> nth (S t) l 0 <= nth t l 0) /\
  (forall t, (t < length l)%nat -> p0 <= nth t l 0).
Proof.
  unfold check_prod_series. destruct l as [|x r].
  - intros _. split; intros t Ht; cbn in Ht; lia.
  - intros H. apply andb_true_iff in H. destruct H as [H Hge]. apply andb_true_iff in H. destruct H as [_ Hni].
    split; [apply nonincreasing_sound; exact Hni|apply all_ge_sound; exact Hge].
Qed.
