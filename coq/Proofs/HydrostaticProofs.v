(* Proofs/HydrostaticProofs.v - lemmas about Model/Hydrostatic.v *)
From Coq Require Import QArith Qabs List ZArith Bool Lia Lqa.
From Verif Require Import Base.Flat Proofs.FlatFacts Model.Hydrostatic.
Import ListNotations.
Open Scope Q_scope.

Lemma static_closed rho depth : static_pressure_MPa rho depth == (980665 # 100000000000) * (rho * depth).
Proof. unfold static_pressure_MPa, g_std. field. Qed.

Lemma static_pos rho depth : 0 < rho -> 0 < depth -> 0 < static_pressure_MPa rho depth.
Proof. intros Hr Hd. rewrite static_closed. assert (0 < rho * depth) by nra. lra. Qed.

Lemma static_mono rho d1 d2 : 0 <= rho -> d1 <= d2 -> static_pressure_MPa rho d1 <= static_pressure_MPa rho d2.
Proof. intros Hr Hd. rewrite !static_closed. assert (rho * d1 <= rho * d2) by nra. lra. Qed.

Lemma static_strict rho d1 d2 : 0 < rho -> d1 < d2 -> static_pressure_MPa rho d1 < static_pressure_MPa rho d2.
Proof. intros Hr Hd. rewrite !static_closed. assert (rho * d1 < rho * d2) by nra. lra. Qed.

Lemma static_additive rho d1 d2 :
  static_pressure_MPa rho (d1 + d2) == static_pressure_MPa rho d1 + static_pressure_MPa rho d2.
Proof. rewrite !static_closed. ring. Qed.

Lemma static_density_mono r1 r2 depth : 0 <= depth -> r1 <= r2 -> static_pressure_MPa r1 depth <= static_pressure_MPa r2 depth.
Proof. intros Hd Hr. rewrite !static_closed. assert (r1 * depth <= r2 * depth) by nra. lra. Qed.

(* the exponent: c * rho * depth * (1 - ct*grad/2 * depth) *)
Definition hydro_c : Q := (981 # 100) * CP / 1000.

Lemma hydro_c_pos : 0 < hydro_c.
Proof. vm_compute. reflexivity. Qed.

Lemma hydro_arg_closed rho ct grad depth :
  hydro_arg rho ct grad depth == hydro_c * (rho * (depth * (1 - (1 # 2) * (ct * grad) * depth))).
Proof. unfold hydro_arg, hydro_c. field. Qed.

Lemma hydro_arg_pos rho ct grad depth :
  0 < rho -> 0 < depth -> ct * grad * depth < 2 -> 0 < hydro_arg rho ct grad depth.
Proof.
  intros Hr Hd Hc. rewrite hydro_arg_closed. pose proof hydro_c_pos.
  set (k := ct * grad) in *.
  assert (H1 : 0 < 1 - (1 # 2) * k * depth) by lra.
  assert (H2 : 0 < depth * (1 - (1 # 2) * k * depth)) by (apply Qmult_lt_0_compat; assumption).
  assert (H3 : 0 < rho * (depth * (1 - (1 # 2) * k * depth))) by (apply Qmult_lt_0_compat; assumption).
  apply Qmult_lt_0_compat; assumption.
Qed.

(* non-decreasing in depth up to the vertex of the parabola, depth <= 1/(ct*grad) *)
Lemma hydro_arg_mono rho ct grad d1 d2 :
  0 <= rho -> 0 <= d1 -> d1 <= d2 -> ct * grad * d2 <= 1 ->
  hydro_arg rho ct grad d1 <= hydro_arg rho ct grad d2.
Proof.
  intros Hr H1 H12 Hv. rewrite !hydro_arg_closed. pose proof hydro_c_pos as Hc.
  set (k := ct * grad) in *.
  set (s := (1 # 2) * k * (d1 + d2)).
  assert (E : d2 * (1 - (1 # 2) * k * d2) - d1 * (1 - (1 # 2) * k * d1) == (d2 - d1) * (1 - s)) by (unfold s; ring).
  assert (Hs : 0 <= 1 - s).
  { unfold s. destruct (Qlt_le_dec k 0) as [Hk|Hk].
    - assert (0 <= (- k) * (d1 + d2)) by (apply Qmult_le_0_compat; lra).
      setoid_replace ((1 # 2) * k * (d1 + d2)) with (- (1 # 2) * ((- k) * (d1 + d2))) by ring. lra.
    - assert (k * d1 <= k * d2) by (rewrite !(Qmult_comm k); apply Qmult_le_compat_r; assumption).
      setoid_replace ((1 # 2) * k * (d1 + d2)) with ((1 # 2) * (k * d1) + (1 # 2) * (k * d2)) by ring. lra. }
  assert (Hp : 0 <= (d2 - d1) * (1 - s)) by (apply Qmult_le_0_compat; lra).
  assert (Hd : d1 * (1 - (1 # 2) * k * d1) <= d2 * (1 - (1 # 2) * k * d2)) by lra.
  set (a := d1 * (1 - (1 # 2) * k * d1)) in *. set (b := d2 * (1 - (1 # 2) * k * d2)) in *.
  assert (rho * a <= rho * b) by (rewrite !(Qmult_comm rho); apply Qmult_le_compat_r; assumption).
  set (ra := rho * a) in *. set (rb := rho * b) in *.
  rewrite !(Qmult_comm hydro_c). apply Qmult_le_compat_r; [assumption|lra].
Qed.

(* beyond the vertex the exponent - hence the modelled pressure - DEcreases with depth: what the code does *)
Lemma hydro_arg_not_monotone :
  exists rho ct grad d1 d2, 0 < rho /\ 0 < ct /\ 0 < grad /\ 0 < d1 /\ d1 < d2 /\
    hydro_arg rho ct grad d2 < hydro_arg rho ct grad d1.
Proof.
  exists 1000, (5 # 10000), 50, 40, 80. repeat split; first [lra | vm_compute; reflexivity].
Qed.

Lemma hydro_of_exp_closed e : hydro_of_exp e == (e - 1) / CP.
Proof. unfold hydro_of_exp, CP. field. Qed.

Lemma hydro_of_exp_lin e : hydro_of_exp e == (1000000000 # 464) * (e - 1).
Proof. unfold hydro_of_exp, CP. field. Qed.

Lemma hydro_of_exp_mono e1 e2 : e1 <= e2 -> hydro_of_exp e1 <= hydro_of_exp e2.
Proof. intros H. rewrite !hydro_of_exp_lin. lra. Qed.

Lemma hydro_of_exp_pos e : 1 < e -> 0 < hydro_of_exp e.
Proof. intros H. rewrite hydro_of_exp_lin. lra. Qed.

(* the pressure, for any function [ex] in the place of math.exp that is non-decreasing, > 1 on positive arguments *)
Lemma hydrostatic_pos ex rho pw grad depth :
  (forall x, 0 < x -> 1 < ex x) ->
  0 < rho -> 0 < depth -> ct_of pw * grad * depth < 2 -> 0 < hydrostatic_kPa ex rho pw grad depth.
Proof. intros Hex Hr Hd Hc. unfold hydrostatic_kPa. apply hydro_of_exp_pos, Hex, hydro_arg_pos; assumption. Qed.

Lemma hydrostatic_mono ex rho pw grad d1 d2 :
  (forall x y, x <= y -> ex x <= ex y) ->
  0 <= rho -> 0 <= d1 -> d1 <= d2 -> ct_of pw * grad * d2 <= 1 ->
  hydrostatic_kPa ex rho pw grad d1 <= hydrostatic_kPa ex rho pw grad d2.
Proof. intros Hex Hr H1 H12 Hv. unfold hydrostatic_kPa. apply hydro_of_exp_mono, Hex, hydro_arg_mono; assumption. Qed.

(* never below the corrected linear column rho*9.81*(depth - CT/2*grad*depth^2)/1000 when ex x >= 1 + x (true of exp) *)
Lemma hydrostatic_lower_bound ex rho pw grad depth :
  (forall x, 1 + x <= ex x) ->
  rho * (981 # 100) / 1000 * (depth - ct_of pw / 2 * grad * (depth * depth)) <= hydrostatic_kPa ex rho pw grad depth.
Proof.
  intros Hex. unfold hydrostatic_kPa. rewrite hydro_of_exp_lin.
  set (x := hydro_arg rho (ct_of pw) grad depth). pose proof (Hex x) as H.
  assert (E : rho * (981 # 100) / 1000 * (depth - ct_of pw / 2 * grad * (depth * depth)) == (1000000000 # 464) * x).
  { unfold x, hydro_arg, CP. field. }
  rewrite E. lra.
Qed.
