(* Proofs/PriceProofs.v - lemmas about Model/Price.v (C16) *)
From Coq Require Import QArith Qminmax Qpower List ZArith Bool Lia Lqa.
From Verif Require Import Base.Flat Proofs.FlatFacts Model.Price.
Import ListNotations.
Open Scope Q_scope.

(* escalation term of year i *)
Definition esc_term (esc : Z) (rate : Q) (i : nat) : Q :=
  if (esc <=? Z.of_nat i)%Z then inject_Z (Z.of_nat i - esc) * rate else 0.

(* PTC of year k as documented: ptc (grown by inflation if requested) inside the window, 0 outside *)
Definition ptc_term (dur : nat) (ptc : Q) (adj : bool) (infl : Q) (k : nat) : Q :=
  if Nat.ltb k dur then (if adj then ptc * (1 + infl) ^ Z.of_nat k else ptc) else 0.

Lemma price_at_spec start endp esc rate i :
  price_at start endp esc rate i == Qmin (start + esc_term esc rate i) endp.
Proof.
  unfold price_at, esc_term. destruct (esc <=? Z.of_nat i)%Z;
  match goal with |- context [Qltb ?a ?b] => destruct (Qltb_spec a b) as [H|H] end.
  - symmetry. apply Q.min_r. lra.
  - symmetry. apply Q.min_l. lra.
  - symmetry. apply Q.min_r. lra.
  - symmetry. rewrite Qplus_0_r. apply Q.min_l. lra.
Qed.

Lemma price_at_le_end start endp esc rate i : price_at start endp esc rate i <= endp.
Proof. rewrite price_at_spec. apply Q.le_min_r. Qed.

Lemma price_at_before_escalation start endp esc rate i :
  (Z.of_nat i <= esc)%Z -> price_at start endp esc rate i == Qmin start endp.
Proof.
  intros H. rewrite price_at_spec. unfold esc_term.
  destruct (Z.leb_spec esc (Z.of_nat i)) as [H1|H1].
  - assert (E : (Z.of_nat i - esc = 0)%Z) by lia. rewrite E.
    assert (E2 : start + inject_Z 0 * rate == start) by (unfold inject_Z; ring).
    rewrite E2. reflexivity.
  - rewrite Qplus_0_r. reflexivity.
Qed.

Lemma price_at_uncapped start endp esc rate i :
  start + esc_term esc rate i <= endp ->
  price_at start endp esc rate i == start + esc_term esc rate i.
Proof. intros H. rewrite price_at_spec. apply Q.min_l. exact H. Qed.

(* consecutive years after the escalation start differ by exactly [rate] while under the cap *)
Lemma esc_term_step esc rate i :
  (esc <= Z.of_nat i)%Z -> esc_term esc rate (S i) == esc_term esc rate i + rate.
Proof.
  intros H. unfold esc_term.
  destruct (Z.leb_spec esc (Z.of_nat i)); [|lia].
  destruct (Z.leb_spec esc (Z.of_nat (S i))); [|lia].
  replace (Z.of_nat (S i) - esc)%Z with ((Z.of_nat i - esc) + 1)%Z by lia.
  rewrite inject_Z_plus. change (inject_Z 1) with 1. ring.
Qed.

(* every year of the schedule: price_k = price_at (i+k) + ptc_k, for every lifetime *)
Lemma pricing_fill_nth start endp esc rate : forall life i ptc r,
  pricing_fill start endp esc rate i ptc life = Some r ->
  length r = life /\
  forall k, (k < life)%nat -> nth k r 0 == price_at start endp esc rate (i + k) + nth k ptc 0.
Proof.
  induction life as [|l IH]; intros i ptc r H; cbn [pricing_fill] in H.
  - inversion H; subst. split. reflexivity. intros k Hk. lia.
  - destruct ptc as [|a ptc']; [discriminate|].
    destruct (pricing_fill start endp esc rate (S i) ptc' l) as [r'|] eqn:E; [|discriminate].
    inversion H; subst. destruct (IH _ _ _ E) as [Hl Hn]. split. cbn. lia.
    intros [|k] Hk; cbn [nth]. rewrite Nat.add_0_r. reflexivity.
    rewrite Hn by lia. replace (S i + k)%nat with (i + S k)%nat by lia. reflexivity.
Qed.

Lemma pricing_fill_defined start endp esc rate : forall life i ptc,
  (life <= length ptc)%nat -> exists r, pricing_fill start endp esc rate i ptc life = Some r.
Proof.
  induction life as [|l IH]; intros i ptc H; cbn [pricing_fill].
  - eexists; reflexivity.
  - destruct ptc as [|a ptc']; [cbn in H; lia|].
    destruct (IH (S i) ptc') as [r Hr]. cbn in H; lia.
    rewrite Hr. eexists; reflexivity.
Qed.

Lemma pricing_fill_undefined start endp esc rate : forall life i ptc,
  (length ptc < life)%nat -> pricing_fill start endp esc rate i ptc life = None.
Proof.
  induction life as [|l IH]; intros i ptc H; cbn [pricing_fill].
  - lia.
  - destruct ptc as [|a ptc']; [reflexivity|].
    rewrite IH by (cbn in H; lia). reflexivity.
Qed.

Lemma ptc_fill_length dur ptc infl adj : forall life year prev,
  length (ptc_fill dur year prev ptc infl adj life) = life.
Proof.
  induction life as [|l IH]; intros year prev; cbn [ptc_fill]. reflexivity.
  destruct (Nat.ltb year dur); cbn [length]; rewrite IH; reflexivity.
Qed.

(* PTC only inside its window, for every lifetime *)
Lemma ptc_fill_outside dur ptc infl adj : forall life year prev k,
  (k < life)%nat -> (dur <= year + k)%nat -> nth k (ptc_fill dur year prev ptc infl adj life) 0 == 0.
Proof.
  induction life as [|l IH]; intros year prev k Hk Hd. lia.
  cbn [ptc_fill]. destruct (Nat.ltb_spec year dur).
  - destruct k as [|k]. lia. cbn [nth]. apply IH; lia.
  - destruct k as [|k]; cbn [nth]. reflexivity. apply IH; lia.
Qed.

(* inside the window, not inflation adjusted: exactly ptc *)
Lemma ptc_fill_inside_flat dur ptc infl : forall life year prev k,
  (k < life)%nat -> (year + k < dur)%nat -> nth k (ptc_fill dur year prev ptc infl false life) 0 == ptc.
Proof.
  induction life as [|l IH]; intros year prev k Hk Hd. lia.
  cbn [ptc_fill]. destruct (Nat.ltb_spec year dur); [|lia].
  cbn [andb]. destruct k as [|k]; cbn [nth]. reflexivity. apply IH; lia.
Qed.

(* inside the window, inflation adjusted: ptc*(1+infl)^(year+k), given prev = ptc*(1+infl)^(year-1) *)
Lemma Qpower_succ (a : Q) (n : nat) : a ^ Z.of_nat (S n) == a ^ Z.of_nat n * a.
Proof.
  destruct (Qeq_dec a 0) as [Ha|Ha].
  - rewrite Ha. rewrite Qpower_0 by lia. ring.
  - replace (Z.of_nat (S n)) with (Z.of_nat n + 1)%Z by lia.
    rewrite Qpower_plus by exact Ha. change (a ^ 1) with (Qpower_positive a 1). cbn. reflexivity.
Qed.

Lemma ptc_fill_inside_adj dur ptc infl : forall life year prev k,
  (k < life)%nat -> (year + k < dur)%nat ->
  (year = 0%nat \/ prev * (1 + infl) == ptc * (1 + infl) ^ Z.of_nat year) ->
  nth k (ptc_fill dur year prev ptc infl true life) 0 == ptc * (1 + infl) ^ Z.of_nat (year + k).
Proof.
  induction life as [|l IH]; intros year prev k Hk Hd Hprev. lia.
  cbn [ptc_fill]. destruct (Nat.ltb_spec year dur); [|lia].
  cbn [andb]. destruct k as [|k]; cbn [nth].
  - rewrite Nat.add_0_r. destruct Hprev as [->|Hp].
    + cbn. ring.
    + destruct (Nat.eqb_spec year 0) as [->|Hy]; cbn [negb].
      * cbn. ring.
      * exact Hp.
  - replace (year + S k)%nat with (S year + k)%nat by lia.
    apply IH; [lia|lia|]. right.
    destruct (Nat.eqb_spec year 0) as [->|Hy]; cbn [negb].
    + cbn. ring.
    + destruct Hprev as [->|Hp]; [congruence|].
      rewrite Hp. rewrite Qpower_succ. ring.
Qed.

Lemma ptc_model_nth life dur ptc adj infl pl :
  ptc_model life dur ptc adj infl = Some pl ->
  (dur <= life)%nat /\ length pl = life /\
  forall k, (k < life)%nat -> nth k pl 0 == ptc_term dur ptc adj infl k.
Proof.
  unfold ptc_model. destruct (Nat.ltb_spec life dur) as [H|H]; [discriminate|].
  intros E; inversion E; subst; clear E. split; [exact H|]. split; [apply ptc_fill_length|].
  intros k Hk. unfold ptc_term. destruct (Nat.ltb_spec k dur) as [Hd|Hd].
  - destruct adj.
    + rewrite ptc_fill_inside_adj; [reflexivity|lia|lia|left; reflexivity].
    + apply ptc_fill_inside_flat; lia.
  - apply ptc_fill_outside; lia.
Qed.

Lemma ptc_model_error life dur ptc adj infl :
  ptc_model life dur ptc adj infl = None <-> (life < dur)%nat.
Proof.
  unfold ptc_model. destruct (Nat.ltb_spec life dur); split; intros; try reflexivity; try discriminate; lia.
Qed.

Lemma nth_repeat_0 n k : nth k (repeat 0 n) 0 == 0.
Proof. revert k; induction n as [|n IH]; intros [|k]; cbn; try reflexivity. apply IH. Qed.

(* the whole schedule of a product, year by year *)
Theorem product_schedule_year life prov dur ptc adj infl start endp esc rate r :
  product_schedule life prov dur ptc adj infl start endp esc rate = Some r ->
  length r = life /\
  forall k, (k < life)%nat ->
    nth k r 0 == Qmin (start + esc_term esc rate k) endp
                 + (if prov then ptc_term dur ptc adj infl k else 0).
Proof.
  unfold product_schedule. destruct prov.
  - destruct (ptc_model life dur ptc adj infl) as [pl|] eqn:E; [|discriminate].
    intros H. apply pricing_fill_nth in H. destruct H as [Hl Hn]. split; [exact Hl|].
    intros k Hk. rewrite Hn by exact Hk. cbn [Nat.add]. rewrite price_at_spec.
    apply ptc_model_nth in E. destruct E as (_ & _ & Hp). rewrite Hp by exact Hk. reflexivity.
  - intros H. apply pricing_fill_nth in H. destruct H as [Hl Hn]. split; [exact Hl|].
    intros k Hk. rewrite Hn by exact Hk. cbn [Nat.add]. rewrite price_at_spec.
    rewrite nth_repeat_0. reflexivity.
Qed.

Theorem product_schedule_defined life prov dur ptc adj infl start endp esc rate :
  (prov = false \/ (dur <= life)%nat) ->
  exists r, product_schedule life prov dur ptc adj infl start endp esc rate = Some r.
Proof.
  intros H. unfold product_schedule. destruct prov.
  - destruct H as [H|H]; [discriminate|].
    unfold ptc_model. destruct (Nat.ltb_spec life dur); [lia|].
    apply pricing_fill_defined. rewrite ptc_fill_length. lia.
  - apply pricing_fill_defined. rewrite repeat_length. lia.
Qed.

Theorem product_schedule_error life dur ptc adj infl start endp esc rate :
  (life < dur)%nat -> product_schedule life true dur ptc adj infl start endp esc rate = None.
Proof.
  intros H. unfold product_schedule.
  destruct (ptc_model life dur ptc adj infl) eqn:E; [|reflexivity].
  apply ptc_model_nth in E. lia.
Qed.

(* construction-year padding *)
Lemma pad_length cy l : length (pad_construction cy l) = (cy + length l)%nat.
Proof. unfold pad_construction. rewrite app_length, repeat_length. reflexivity. Qed.

Lemma pad_construction_zero cy l k : (k < cy)%nat -> nth k (pad_construction cy l) 0 == 0.
Proof.
  intros H. unfold pad_construction. rewrite app_nth1 by (rewrite repeat_length; exact H).
  apply nth_repeat_0.
Qed.

Lemma pad_construction_shift cy l k : nth (cy + k) (pad_construction cy l) 0 = nth k l 0.
Proof.
  unfold pad_construction. rewrite app_nth2 by (rewrite repeat_length; lia).
  rewrite repeat_length. f_equal. lia.
Qed.
