(* Proofs/CashFlowProofs.v - lemmas about Model/CashFlow.v (C04, reused by C11 and C18). *)
From Coq Require Import QArith Qabs Qminmax Qpower Qfield List ZArith Bool Lia Lqa.
From Verif Require Import Base.Flat Model.CashFlow.
Import ListNotations.
Open Scope Q_scope.

(* ---------- generic list facts ---------- *)

Lemma map2_length {A B C} (f : A -> B -> C) : forall a b, length a = length b -> length (map2 f a b) = length a.
Proof. induction a as [|x a IH]; intros [|y b] H; simpl in *; try discriminate; auto. Qed.

Lemma nth_map2 {A B C} (f : A -> B -> C) da db dc : forall a b j,
  (j < length a)%nat -> (j < length b)%nat -> nth j (map2 f a b) dc = f (nth j a da) (nth j b db).
Proof.
  induction a as [|x a IH]; intros [|y b] j Ha Hb; simpl in *; try lia.
  destruct j as [|j]; [reflexivity|]. apply IH; lia.
Qed.

Lemma nth_map_lt {A B} (f : A -> B) da db : forall l j, (j < length l)%nat -> nth j (map f l) db = f (nth j l da).
Proof. induction l as [|x l IH]; intros [|j] H; simpl in *; try lia; auto. apply IH; lia. Qed.

Lemma nth_repeat_lt {A} (x d : A) : forall n j, (j < n)%nat -> nth j (repeat x n) d = x.
Proof. induction n as [|n IH]; intros [|j] H; simpl; try lia; auto. apply IH; lia. Qed.

Lemma nth_app_right {A} (d : A) l1 l2 j : nth (length l1 + j) (l1 ++ l2) d = nth j l2 d.
Proof. rewrite app_nth2 by lia. f_equal. lia. Qed.

(* ---------- shape of the cash flow ---------- *)

Lemma total_cashflow_length c : length (total_cashflow c) = (ci_cy c + length (total_ops c))%nat.
Proof. unfold total_cashflow. now rewrite app_length, repeat_length. Qed.

Lemma cashflow_construction_year c t : (t < ci_cy c)%nat ->
  nth t (total_cashflow c) 0 = - (1) * (ci_ccap c / natQ (ci_cy c)).
Proof.
  intros H. unfold total_cashflow. rewrite app_nth1 by (now rewrite repeat_length).
  now rewrite nth_repeat_lt.
Qed.

Lemma cashflow_operating_year c j : nth (ci_cy c + j) (total_cashflow c) 0 = nth j (total_ops c) 0.
Proof.
  unfold total_cashflow.
  replace (ci_cy c) with (length (repeat (capex_year c) (ci_cy c))) at 1 by apply repeat_length.
  apply nth_app_right.
Qed.

(* the documented operating-year cash flow, product by product *)
Definition sale (e p : list Q) (j : nat) : Q := nth j e 0 * nth j p 0 / million.
Definition product_revenue_spec (c : cf_in) (j : nat) : Q :=
  match ci_kind c with
  | KElec => sale (ci_eE c) (ci_pE c) j
  | KHeat => sale (ci_eH c) (ci_pH c) j
  | KCool => sale (ci_eC c) (ci_pC c) j
  | KCogen => sale (ci_eE c) (ci_pE c) j + sale (ci_eH c) (ci_pH c) j
  end.
Definition avoided_lbs_spec (c : cf_in) (j : nat) : Q :=
  match ci_kind c with
  | KElec => nth j (ci_eE c) 0 * ci_gi c
  | KHeat | KCool => nth j (ci_eH c) 0 * ci_ni c
  | KCogen => nth j (ci_eE c) 0 * ci_gi c + nth j (ci_eH c) 0 * ci_ni c
  end.
Definition carbon_revenue_spec (c : cf_in) (j : nat) : Q :=
  if ci_carbon c then avoided_lbs_spec c j * nth j (ci_pCarb c) 0 / million else 0.
Definition operating_spec (c : cf_in) (j : nat) : Q :=
  product_revenue_spec c j + carbon_revenue_spec c j - ci_coam c.

(* well-formed run: every series the configuration uses has one entry per operating year *)
Definition wf (c : cf_in) (life : nat) : Prop :=
  length (ci_pE c) = life /\ length (ci_pH c) = life /\ length (ci_pC c) = life /\ length (ci_pCarb c) = life /\
  match ci_kind c with
  | KElec => length (ci_eE c) = life /\ (ci_carbon c = true -> True)
  | KHeat => length (ci_eH c) = life
  | KCool => length (ci_eC c) = life /\ (ci_carbon c = true -> length (ci_eH c) = life)
  | KCogen => length (ci_eE c) = life /\ length (ci_eH c) = life
  end.

Lemma lens_ok_wf c life : lens_ok c life = true -> wf c life.
Proof.
  unfold lens_ok, wf. intros H.
  repeat (apply andb_prop in H; destruct H as [H ?]).
  repeat match goal with Hx : Nat.eqb _ _ = true |- _ => apply Nat.eqb_eq in Hx end.
  repeat split; try assumption.
  destruct (ci_kind c).
  - match goal with Hx : Nat.eqb _ _ = true |- _ => apply Nat.eqb_eq in Hx end. auto.
  - match goal with Hx : Nat.eqb _ _ = true |- _ => apply Nat.eqb_eq in Hx end. auto.
  - match goal with Hx : _ && _ = true |- _ => apply andb_prop in Hx; destruct Hx as [Ha Hb] end.
    apply Nat.eqb_eq in Ha. split; [assumption|]. intros Hc. rewrite Hc in Hb. simpl in Hb. now apply Nat.eqb_eq in Hb.
  - match goal with Hx : _ && _ = true |- _ => apply andb_prop in Hx; destruct Hx as [Ha Hb] end.
    apply Nat.eqb_eq in Ha. apply Nat.eqb_eq in Hb. auto.
Qed.

Lemma rev_ops_nth e p j : (j < length e)%nat -> (j < length p)%nat -> nth j (rev_ops e p) 0 = sale e p j.
Proof. intros. unfold rev_ops, sale. now rewrite (nth_map2 _ 0 0 0). Qed.

Lemma rev_ops_length e p : length e = length p -> length (rev_ops e p) = length e.
Proof. apply map2_length. Qed.

Lemma product_rev_ops_length c life : wf c life ->
  length (product_rev_ops (ci_kind c) (ci_eE c) (ci_eH c) (ci_eC c) (ci_pE c) (ci_pH c) (ci_pC c)) = life.
Proof.
  unfold wf. intros (HpE & HpH & HpC & HpX & Hk). destruct (ci_kind c); simpl.
  - destruct Hk as [Hk _]. rewrite rev_ops_length; congruence.
  - rewrite rev_ops_length; congruence.
  - destruct Hk as [Hk _]. rewrite rev_ops_length; congruence.
  - destruct Hk as [H1 H2]. rewrite map2_length; rewrite !rev_ops_length; congruence.
Qed.

Lemma product_rev_ops_nth c life j : wf c life -> (j < life)%nat ->
  nth j (product_rev_ops (ci_kind c) (ci_eE c) (ci_eH c) (ci_eC c) (ci_pE c) (ci_pH c) (ci_pC c)) 0
  = product_revenue_spec c j.
Proof.
  unfold wf, product_revenue_spec. intros (HpE & HpH & HpC & HpX & Hk) Hj. destruct (ci_kind c); simpl.
  - destruct Hk as [Hk _]. apply rev_ops_nth; lia.
  - apply rev_ops_nth; lia.
  - destruct Hk as [Hk _]. apply rev_ops_nth; lia.
  - destruct Hk as [H1 H2]. rewrite (nth_map2 _ 0 0 0) by (rewrite rev_ops_length; lia).
    rewrite !rev_ops_nth by lia. reflexivity.
Qed.

Lemma carbon_lbs_length c life : wf c life -> ci_carbon c = true ->
  length (carbon_lbs_ops (ci_kind c) (ci_gi c) (ci_ni c) (ci_eE c) (ci_eH c)) = life.
Proof.
  unfold wf. intros (HpE & HpH & HpC & HpX & Hk) Hc. destruct (ci_kind c); simpl.
  - destruct Hk as [Hk _]. now rewrite map_length.
  - now rewrite map_length.
  - destruct Hk as [_ Hk]. rewrite map_length. auto.
  - destruct Hk as [H1 H2]. rewrite map2_length; congruence.
Qed.

Lemma carbon_lbs_nth c life j : wf c life -> ci_carbon c = true -> (j < life)%nat ->
  nth j (carbon_lbs_ops (ci_kind c) (ci_gi c) (ci_ni c) (ci_eE c) (ci_eH c)) 0 == avoided_lbs_spec c j.
Proof.
  unfold wf, avoided_lbs_spec. intros (HpE & HpH & HpC & HpX & Hk) Hc Hj. destruct (ci_kind c); simpl.
  - destruct Hk as [Hk _]. rewrite (nth_map_lt _ 0 0) by lia. ring.
  - rewrite (nth_map_lt _ 0 0) by lia. ring.
  - destruct Hk as [_ Hk]. specialize (Hk Hc). rewrite (nth_map_lt _ 0 0) by lia. ring.
  - destruct Hk as [H1 H2]. rewrite (nth_map2 _ 0 0 0) by lia. reflexivity.
Qed.

Lemma total_ops_length c life : wf c life -> length (total_ops c) = life.
Proof.
  intros Hwf. unfold total_ops. rewrite map_length.
  destruct (ci_carbon c) eqn:Hc.
  - rewrite map2_length.
    + now apply product_rev_ops_length.
    + rewrite (product_rev_ops_length c life Hwf). unfold carbon_rev_ops.
      rewrite map2_length; rewrite (carbon_lbs_length c life Hwf Hc); [reflexivity|].
      destruct Hwf as (_ & _ & _ & H & _). now rewrite H.
  - now apply product_rev_ops_length.
Qed.

Lemma total_ops_nth c life j : wf c life -> (j < life)%nat -> nth j (total_ops c) 0 == operating_spec c j.
Proof.
  intros Hwf Hj. unfold total_ops, operating_spec, carbon_revenue_spec.
  pose proof (product_rev_ops_length c life Hwf) as Hlen.
  destruct (ci_carbon c) eqn:Hc.
  - pose proof (carbon_lbs_length c life Hwf Hc) as Hl2.
    assert (HpX : length (ci_pCarb c) = life) by (destruct Hwf as (_ & _ & _ & H & _); exact H).
    rewrite (nth_map_lt _ 0 0).
    2:{ rewrite map2_length; [lia|]. unfold carbon_rev_ops. rewrite map2_length; lia. }
    rewrite (nth_map2 _ 0 0 0); [| lia | unfold carbon_rev_ops; rewrite map2_length; lia].
    rewrite (product_rev_ops_nth c life j Hwf Hj).
    unfold carbon_rev_ops. rewrite (nth_map2 _ 0 0 0) by lia.
    rewrite (carbon_lbs_nth c life j Hwf Hc Hj). reflexivity.
  - rewrite (nth_map_lt _ 0 0) by lia. rewrite (product_rev_ops_nth c life j Hwf Hj). ring.
Qed.

(* C04 shape, operating years *)
Lemma cashflow_operating_spec c life j : wf c life -> (j < life)%nat ->
  nth (ci_cy c + j) (total_cashflow c) 0 == operating_spec c j.
Proof. intros. rewrite cashflow_operating_year. now apply total_ops_nth with (life := life). Qed.

Lemma cashflow_length c life : wf c life -> length (total_cashflow c) = (ci_cy c + life)%nat.
Proof. intros H. rewrite total_cashflow_length. now rewrite (total_ops_length c life H). Qed.

(* ---------- running sum ---------- *)

Lemma running_from_length acc l : length (running_from acc l) = length l.
Proof. revert acc. induction l as [|x l IH]; intros acc; simpl; auto. Qed.

Lemma running_from_nth : forall l acc i, (i < length l)%nat ->
  nth i (running_from acc l) 0 == acc + sumQ (firstn (S i) l).
Proof.
  induction l as [|x l IH]; intros acc i Hi; simpl in Hi; [lia|].
  destruct i as [|i].
  - simpl. ring.
  - change (running_from acc (x :: l)) with ((acc + x) :: running_from (acc + x) l).
    change (nth (S i) ((acc + x) :: running_from (acc + x) l) 0) with (nth i (running_from (acc + x) l) 0).
    rewrite IH by lia. change (firstn (S (S i)) (x :: l)) with (x :: firstn (S i) l).
    change (sumQ (x :: firstn (S i) l)) with (x + sumQ (firstn (S i) l)). ring.
Qed.

(* cumulative cash flow is the running sum of the yearly cash flow *)
Lemma running_nth l i : (i < length l)%nat -> nth i (running l) 0 == sumQ (firstn (S i) l).
Proof. intros H. unfold running. rewrite running_from_nth by assumption. ring. Qed.

Lemma running_step l i : (S i < length l)%nat ->
  nth (S i) (running l) 0 == nth i (running l) 0 + nth (S i) l 0.
Proof.
  intros H. rewrite !running_nth by lia.
  assert (Hs : forall (m : list Q) n, (n < length m)%nat -> sumQ (firstn (S n) m) == sumQ (firstn n m) + nth n m 0).
  { induction m as [|y m IHm]; intros n Hn; simpl in Hn; [lia|].
    destruct n as [|n]; [simpl; ring|].
    change (firstn (S (S n)) (y :: m)) with (y :: firstn (S n) m).
    change (firstn (S n) (y :: m)) with (y :: firstn n m).
    change (nth (S n) (y :: m) 0) with (nth n m 0).
    change (sumQ (y :: firstn (S n) m)) with (y + sumQ (firstn (S n) m)).
    change (sumQ (y :: firstn n m)) with (y + sumQ (firstn n m)).
    rewrite IHm by lia. ring. }
  now rewrite Hs by lia.
Qed.

Lemma running_red_from_eq : forall l a a', a == a' ->
  Forall2 Qeq (running_red_from a l) (running_from a' l).
Proof.
  induction l as [|x l IH]; intros a a' H; cbn [running_red_from running_from]; constructor.
  - transitivity (a + x); [apply Qred_correct | now rewrite H].
  - apply IH. transitivity (a + x); [apply Qred_correct | now rewrite H].
Qed.

(* ---------- payback ---------- *)

(* the cumulative series turns from non-positive to positive in year i (Python's cum[-1] at i = 0) *)
Definition prev_of (cum : list Q) (i : nat) : Q :=
  match i with O => last cum 0 | S k => nth k cum 0 end.
Definition crossing (cum : list Q) (i : nat) : Prop :=
  (i < length cum)%nat /\ 0 < nth i cum 0 /\ prev_of cum i <= 0.

Lemma frac_bounds prev c : 0 < c -> 0 <= Qabs prev / (c + Qabs prev) /\ Qabs prev / (c + Qabs prev) <= 1.
Proof.
  intros Hc. pose proof (Qabs_nonneg prev) as Ha.
  assert (Hd : 0 < c + Qabs prev) by lra.
  split.
  - apply Qle_shift_div_l; [assumption|]. lra.
  - apply Qle_shift_div_r; [assumption|]. lra.
Qed.

Lemma Qltb_true a b : Qltb a b = true <-> a < b.
Proof.
  unfold Qltb. rewrite negb_true_iff. split; intros H.
  - destruct (Qlt_le_dec a b) as [|Hle]; [assumption|]. apply Qle_bool_iff in Hle. congruence.
  - destruct (Qle_bool b a) eqn:E; [|reflexivity]. apply Qle_bool_iff in E. lra.
Qed.
Lemma Qleb_true a b : Qleb a b = true <-> a <= b.
Proof. unfold Qleb. apply Qle_bool_iff. Qed.

(* loop invariant: the accumulator is 0 with no crossing so far, or lies in the year of a crossing seen so far *)
Definition pb_inv (cum : list Q) (i : nat) (acc : Q) : Prop :=
  (acc = 0 /\ forall k, (k < i)%nat -> ~ crossing cum k) \/
  (exists k, (k < i)%nat /\ crossing cum k /\ natQ k <= acc /\ acc <= natQ k + 1).

Lemma natQ_S i : natQ (S i) == natQ i + 1.
Proof. unfold natQ. rewrite Nat2Z.inj_succ. unfold Z.succ. rewrite inject_Z_plus. reflexivity. Qed.

Lemma payback_loop_inv cum : forall rest done prev i acc,
  cum = done ++ rest -> i = length done -> prev = prev_of cum i ->
  pb_inv cum i acc -> pb_inv cum (length cum) (payback_loop prev i rest acc).
Proof.
  induction rest as [|c rest IH]; intros done prev i acc Hc Hi Hp Hinv.
  - simpl. replace (length cum) with i; [exact Hinv|]. now rewrite Hc, app_nil_r.
  - simpl.
    assert (Hnth : nth i cum 0 = c).
    { rewrite Hc, Hi. rewrite app_nth2 by lia. now rewrite Nat.sub_diag. }
    assert (Hlt : (i < length cum)%nat) by (rewrite Hc, app_length, Hi; simpl; lia).
    apply (IH (done ++ [c]) c (S i)).
    + now rewrite <- app_assoc.
    + rewrite app_length, Hi. simpl. lia.
    + simpl. now rewrite Hnth.
    + destruct (Qltb 0 c && Qleb prev 0) eqn:E.
      * apply andb_prop in E. destruct E as [E1 E2].
        apply Qltb_true in E1. apply Qleb_true in E2.
        right. exists i. split; [lia|]. split.
        { unfold crossing. rewrite Hnth, <- Hp. auto. }
        destruct (frac_bounds prev c E1). lra.
      * destruct Hinv as [[H0 Hno] | (k & Hk & Hcr & Hb)].
        { left. split; [assumption|]. intros k Hk Hcr.
          destruct (Nat.eq_dec k i) as [->|Hne]; [|apply (Hno k); [lia|assumption]].
          destruct Hcr as (_ & Hpos & Hprev). rewrite Hnth in Hpos. rewrite <- Hp in Hprev.
          apply Qltb_true in Hpos. apply Qleb_true in Hprev. rewrite Hpos, Hprev in E. discriminate. }
        { right. exists k. split; [lia|]. auto. }
Qed.

Lemma payback_inv cum : pb_inv cum (length cum) (payback cum).
Proof.
  unfold payback. apply (payback_loop_inv cum cum [] (last cum 0) 0%nat 0); try reflexivity.
  left. split; [reflexivity|]. intros k Hk. lia.
Qed.

(* a positive payback period lies within a year in which the cumulative cash flow turns positive *)
Lemma payback_bracket cum : 0 < payback cum ->
  exists i, crossing cum i /\ natQ i <= payback cum /\ payback cum <= natQ i + 1.
Proof.
  intros Hpos. destruct (payback_inv cum) as [[H0 _] | (k & _ & Hcr & Hb)].
  - rewrite H0 in Hpos. lra.
  - exists k. auto.
Qed.

(* with non-negative capital cost the first cumulative entry is non-positive, so the crossing is a genuine
   turn between two consecutive years i-1 -> i *)
Lemma payback_bracket_consecutive cum : nth 0 cum 0 <= 0 -> 0 < payback cum ->
  exists i, (S i < length cum)%nat /\ nth i cum 0 <= 0 /\ 0 < nth (S i) cum 0 /\
            natQ (S i) <= payback cum /\ payback cum <= natQ (S i) + 1.
Proof.
  intros H0 Hpos. destruct (payback_bracket cum Hpos) as (i & (Hlt & Hp & Hprev) & Hb).
  destruct i as [|i]; [lra|]. exists i. simpl in Hprev. auto.
Qed.

(* no such year: the payback period stays 0.0, which the report prints as N/A *)
Lemma payback_none cum : (forall i, ~ crossing cum i) -> payback cum = 0.
Proof.
  intros Hno. destruct (payback_inv cum) as [[H0 _] | (k & _ & Hcr & _)]; [assumption|].
  exfalso. exact (Hno k Hcr).
Qed.

Lemma natQ_nonneg i : 0 <= natQ i.
Proof. unfold natQ. change 0 with (inject_Z 0). rewrite <- Zle_Qle. lia. Qed.

Lemma payback_zero_iff cum : nth 0 cum 0 <= 0 -> (payback cum == 0 <-> forall i, ~ crossing cum i).
Proof.
  intros H0. split.
  - intros Hz i Hcr. destruct (payback_inv cum) as [[_ Hno] | (k & _ & Hk & Hb)].
    + destruct Hcr as (Hlt & ?). apply (Hno i Hlt). split; auto.
    + destruct k as [|k].
      * destruct Hk as (_ & Hp & _). lra.
      * pose proof (natQ_nonneg k). rewrite natQ_S in Hb. lra.
  - intros Hno. now rewrite (payback_none cum Hno).
Qed.

(* ---------- NPV ---------- *)

Lemma npv_red_eq r : forall cf, npv_red r cf == npv r cf.
Proof.
  induction cf as [|x cf IH]; cbn [npv_red npv]; [reflexivity|].
  transitivity (x + npv_red r cf / (1 + r)); [apply Qred_correct | now rewrite IH].
Qed.

Lemma calculate_npv_red_eq r cf d : calculate_npv_red r cf d == calculate_npv r cf d.
Proof. unfold calculate_npv_red, calculate_npv. destruct d; apply npv_red_eq. Qed.

Lemma Qpower_succ_nat a (t : nat) : ~ a == 0 -> Qpower a (Z.of_nat (S t)) == Qpower a (Z.of_nat t) * a.
Proof.
  intros Ha. rewrite Nat2Z.inj_succ. unfold Z.succ. rewrite Qpower_plus by assumption. simpl. reflexivity.
Qed.

(* Horner form = the documented discounted sum  sum_t cf_t / (1+r)^t *)
Lemma npv_sigma_from_eq r : ~ 1 + r == 0 -> forall cf t,
  npv_sigma_from r t cf == npv r cf / Qpower (1 + r) (Z.of_nat t).
Proof.
  intros Hr. induction cf as [|x cf IH]; intros t; simpl.
  - unfold Qdiv. ring.
  - rewrite IH. rewrite Qpower_succ_nat by assumption.
    assert (Hp : ~ Qpower (1 + r) (Z.of_nat t) == 0) by (apply Qpower_not_0; assumption).
    field. split; assumption.
Qed.

Lemma npv_is_discounted_sum r cf : ~ 1 + r == 0 -> npv r cf == npv_sigma_from r 0 cf.
Proof. intros Hr. rewrite npv_sigma_from_eq by assumption. simpl. field. Qed.

(* the two discounting conventions differ by the factor (1+r): they have the same roots *)
Lemma npv_conventions r cf : ~ 1 + r == 0 ->
  calculate_npv r cf true * (1 + r) == calculate_npv r cf false.
Proof. intros Hr. unfold calculate_npv. simpl. field. assumption. Qed.

Lemma npv_same_roots r cf : ~ 1 + r == 0 ->
  (calculate_npv r cf true == 0 <-> calculate_npv r cf false == 0).
Proof.
  intros Hr. pose proof (npv_conventions r cf Hr) as H. split; intros Hz.
  - rewrite <- H, Hz. ring.
  - rewrite Hz in H. destruct (Qmult_integral _ _ H) as [|Hc]; [assumption|contradiction].
Qed.

(* ---------- VIR, MOIC ---------- *)

Lemma vir_def n capex : ~ capex == 0 -> (vir n capex - 1) * capex == n.
Proof. intros H. unfold vir. field. assumption. Qed.

Lemma moic_def cum capex opex life : ~ capex + opex * natQ life == 0 ->
  moic cum capex opex life * (capex + opex * natQ life) == last cum 0.
Proof. intros H. unfold moic. field. assumption. Qed.

(* ---------- monotonicity of NPV in the yearly cash flows (C11, C18) ---------- *)

Lemma npv_mono r : 0 < 1 + r -> forall cf cf', Forall2 Qle cf cf' -> npv r cf <= npv r cf'.
Proof.
  intros Hr cf cf' H. induction H as [|x y l l' Hxy _ IH]; simpl; [lra|].
  assert (npv r l / (1 + r) <= npv r l' / (1 + r)).
  { unfold Qdiv. apply Qmult_le_compat_r; [assumption|]. apply Qlt_le_weak. now apply Qinv_lt_0_compat. }
  lra.
Qed.

Inductive Forall2_one_lt : list Q -> list Q -> Prop :=
| F2lt_here x y l l' : x < y -> Forall2 Qle l l' -> Forall2_one_lt (x :: l) (y :: l')
| F2lt_later x y l l' : x <= y -> Forall2_one_lt l l' -> Forall2_one_lt (x :: l) (y :: l').

Lemma npv_strict_mono r : 0 < 1 + r -> forall cf cf', Forall2_one_lt cf cf' -> npv r cf < npv r cf'.
Proof.
  intros Hr cf cf' H. induction H as [x y l l' Hxy Hl | x y l l' Hxy _ IH]; simpl.
  - pose proof (npv_mono r Hr l l' Hl) as Hm.
    assert (npv r l / (1 + r) <= npv r l' / (1 + r)).
    { unfold Qdiv. apply Qmult_le_compat_r; [assumption|]. apply Qlt_le_weak. now apply Qinv_lt_0_compat. }
    lra.
  - assert (npv r l / (1 + r) < npv r l' / (1 + r)).
    { unfold Qdiv. apply Qmult_lt_compat_r; [now apply Qinv_lt_0_compat | assumption]. }
    lra.
Qed.
