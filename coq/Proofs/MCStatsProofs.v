(* Proofs/MCStatsProofs.v - lemmas about Model/MCStats.v (C14) *)
From Coq Require Import QArith Qabs Qminmax Qround List Permutation Sorted Lia Lqa Arith.
From Verif Require Import Base.Flat Proofs.FlatFacts Model.MCStats.
Import ListNotations.
Open Scope Q_scope.

(* ---------------------------------------------------------------- minimum / maximum *)
Lemma min_of_le : forall l x e, In e (x :: l) -> min_of x l <= e.
Proof.
  induction l as [|y r IH]; intros x e H; cbn [min_of].
  - destruct H as [<-|[]]. lra.
  - destruct H as [<-|H].
    + apply Q.le_min_l.
    + eapply Qle_trans; [apply Q.le_min_r | apply IH; exact H].
Qed.

Lemma min_of_in : forall l x, exists e, In e (x :: l) /\ min_of x l == e.
Proof.
  induction l as [|y r IH]; intros x; cbn [min_of].
  - exists x. split; [left; reflexivity | reflexivity].
  - destruct (IH y) as (e & He & Em).
    destruct (Q.min_dec x (min_of y r)) as [H|H].
    + exists x. split; [left; reflexivity | exact H].
    + exists e. split; [right; exact He | rewrite H; exact Em].
Qed.

Lemma max_of_ge : forall l x e, In e (x :: l) -> e <= max_of x l.
Proof.
  induction l as [|y r IH]; intros x e H; cbn [max_of].
  - destruct H as [<-|[]]. lra.
  - destruct H as [<-|H].
    + apply Q.le_max_l.
    + eapply Qle_trans; [apply IH; exact H | apply Q.le_max_r].
Qed.

Lemma max_of_in : forall l x, exists e, In e (x :: l) /\ max_of x l == e.
Proof.
  induction l as [|y r IH]; intros x; cbn [max_of].
  - exists x. split; [left; reflexivity | reflexivity].
  - destruct (IH y) as (e & He & Em).
    destruct (Q.max_dec x (max_of y r)) as [H|H].
    + exists x. split; [left; reflexivity | exact H].
    + exists e. split; [right; exact He | rewrite H; exact Em].
Qed.

Lemma min_perm x l y l' : Permutation (x :: l) (y :: l') -> min_of x l == min_of y l'.
Proof.
  intros P. apply Qle_antisym.
  - destruct (min_of_in l' y) as (e & He & Em). rewrite Em. apply min_of_le.
    apply Permutation_in with (l := y :: l'); [symmetry; exact P | exact He].
  - destruct (min_of_in l x) as (e & He & Em). rewrite Em. apply min_of_le.
    apply Permutation_in with (l := x :: l); [exact P | exact He].
Qed.

Lemma max_perm x l y l' : Permutation (x :: l) (y :: l') -> max_of x l == max_of y l'.
Proof.
  intros P. apply Qle_antisym.
  - destruct (max_of_in l x) as (e & He & Em). rewrite Em. apply max_of_ge.
    apply Permutation_in with (l := x :: l); [exact P | exact He].
  - destruct (max_of_in l' y) as (e & He & Em). rewrite Em. apply max_of_ge.
    apply Permutation_in with (l := y :: l'); [symmetry; exact P | exact He].
Qed.

Lemma min_le_max x l : min_of x l <= max_of x l.
Proof. eapply Qle_trans; [apply min_of_le | apply max_of_ge]; left; reflexivity. Qed.

(* ---------------------------------------------------------------- mean / variance *)
Lemma sumQ_perm l l' : Permutation l l' -> sumQ l == sumQ l'.
Proof.
  induction 1; cbn [sumQ]; lra.
Qed.

Lemma lenQ_perm l l' : Permutation l l' -> lenQ l = lenQ l'.
Proof. intros P. unfold lenQ. rewrite (Permutation_length P). reflexivity. Qed.

Lemma lenQ_cons x l : lenQ (x :: l) == 1 + lenQ l.
Proof.
  unfold lenQ. cbn [length]. rewrite Nat2Z.inj_succ. unfold Z.succ. rewrite inject_Z_plus.
  change (inject_Z 1) with 1. ring.
Qed.

Lemma lenQ_nonneg l : 0 <= lenQ l.
Proof. unfold lenQ. change 0 with (inject_Z 0). rewrite <- Zle_Qle. lia. Qed.

Lemma lenQ_pos x l : 0 < lenQ (x :: l).
Proof. rewrite lenQ_cons. pose proof (lenQ_nonneg l). lra. Qed.

Lemma mean_perm l l' : Permutation l l' -> mean l == mean l'.
Proof. intros P. unfold mean. rewrite (lenQ_perm _ _ P), (sumQ_perm _ _ P). reflexivity. Qed.

Lemma sum_sqdev_ext m m' l : m == m' -> sumQ (map (sqdev m) l) == sumQ (map (sqdev m') l).
Proof.
  intros E. induction l as [|v r IH]; cbn [map sumQ]; [reflexivity|].
  rewrite IH. unfold sqdev. rewrite E. reflexivity.
Qed.

Lemma variance_perm l l' : Permutation l l' -> variance l == variance l'.
Proof.
  intros P. unfold variance. rewrite (lenQ_perm _ _ P).
  rewrite (sum_sqdev_ext _ _ l (mean_perm _ _ P)).
  rewrite (sumQ_perm _ _ (Permutation_map (sqdev (mean l')) P)). reflexivity.
Qed.

Lemma sum_lower a l : (forall e, In e l -> a <= e) -> a * lenQ l <= sumQ l.
Proof.
  induction l as [|v r IH]; intros H.
  - unfold lenQ. cbn [length Z.of_nat sumQ]. change (inject_Z 0) with 0. rewrite Qmult_0_r. lra.
  - rewrite lenQ_cons. cbn [sumQ].
    assert (a <= v) by (apply H; left; reflexivity).
    assert (a * lenQ r <= sumQ r) by (apply IH; intros e He; apply H; right; exact He). lra.
Qed.

Lemma sum_upper a l : (forall e, In e l -> e <= a) -> sumQ l <= a * lenQ l.
Proof.
  induction l as [|v r IH]; intros H.
  - unfold lenQ. cbn [length Z.of_nat sumQ]. change (inject_Z 0) with 0. rewrite Qmult_0_r. lra.
  - rewrite lenQ_cons. cbn [sumQ].
    assert (v <= a) by (apply H; left; reflexivity).
    assert (sumQ r <= a * lenQ r) by (apply IH; intros e He; apply H; right; exact He). lra.
Qed.

Lemma mean_bounds x l : min_of x l <= mean (x :: l) /\ mean (x :: l) <= max_of x l.
Proof.
  unfold mean. split.
  - apply Qle_shift_div_l; [apply lenQ_pos|]. apply sum_lower. intros e He. apply min_of_le. exact He.
  - apply Qle_shift_div_r; [apply lenQ_pos|]. apply sum_upper. intros e He. apply max_of_ge. exact He.
Qed.

Lemma variance_nonneg x l : 0 <= variance (x :: l).
Proof.
  unfold variance. apply Qle_shift_div_l; [apply lenQ_pos|]. rewrite Qmult_0_l.
  generalize (mean (x :: l)). intros m. induction (x :: l) as [|v r IH]; cbn [map sumQ]; [lra|].
  assert (0 <= sqdev m v).
  { unfold sqdev. remember (v - m) as t. destruct (Qlt_le_dec t 0); nra. }
  lra.
Qed.

(* the reduced evaluation used by the harness computes the same numbers *)
Lemma mean_x_eq l : mean_x l == mean l.
Proof. unfold mean_x, mean. rewrite Qred_correct, sumQ_red_eq. reflexivity. Qed.

Lemma sum_sqdev_red m m' l : m == m' -> sumQ (map (fun v => Qred (sqdev m v)) l) == sumQ (map (sqdev m') l).
Proof.
  intros E. induction l as [|v r IH]; cbn [map sumQ]; [reflexivity|].
  rewrite IH, Qred_correct. unfold sqdev. rewrite E. reflexivity.
Qed.

Lemma variance_x_eq l : variance_x l == variance l.
Proof.
  unfold variance_x, variance. rewrite Qred_correct, sumQ_red_eq.
  rewrite (sum_sqdev_red _ _ l (mean_x_eq l)). reflexivity.
Qed.

(* ---------------------------------------------------------------- median *)
Lemma insert_perm x l : Permutation (x :: l) (insert x l).
Proof.
  induction l as [|y r IH]; cbn [insert]; [reflexivity|].
  destruct (Qle_bool x y); [reflexivity|].
  eapply perm_trans; [apply perm_swap | apply perm_skip; exact IH].
Qed.

Lemma isort_perm l : Permutation l (isort l).
Proof.
  induction l as [|x r IH]; cbn [isort]; [constructor|].
  eapply perm_trans; [apply perm_skip; exact IH | apply insert_perm].
Qed.

Lemma insert_sorted x l : StronglySorted Qle l -> StronglySorted Qle (insert x l).
Proof.
  induction 1 as [|y r S IH F]; cbn [insert].
  - constructor; constructor.
  - destruct (Qle_bool x y) eqn:E.
    + apply Qle_bool_iff in E. constructor; [constructor; assumption|].
      constructor; [exact E|]. eapply Forall_impl; [|exact F]. intros a Ha. cbv beta in Ha. lra.
    + assert (Hyx : y <= x).
      { destruct (Qlt_le_dec y x) as [H|H]; [lra|]. apply Qle_bool_iff in H. congruence. }
      constructor; [exact IH|].
      apply (Permutation_Forall (insert_perm x r)). constructor; assumption.
Qed.

Lemma isort_sorted l : StronglySorted Qle (isort l).
Proof. induction l as [|x r IH]; cbn [isort]; [constructor | apply insert_sorted; exact IH]. Qed.

Definition reduced (q : Q) : Prop := Qred q = q.

Lemma reduced_Qred q : reduced (Qred q).
Proof. unfold reduced. apply Qred_complete. apply Qred_correct. Qed.

Lemma reduced_eq a b : reduced a -> reduced b -> a == b -> a = b.
Proof. unfold reduced. intros Ha Hb E. rewrite <- Ha, <- Hb. apply Qred_complete. exact E. Qed.

Lemma sorted_perm_unique : forall l l',
  StronglySorted Qle l -> StronglySorted Qle l' -> Forall reduced l -> Permutation l l' -> l = l'.
Proof.
  induction l as [|a l IH]; intros l' S S' R P.
  - apply Permutation_nil in P. symmetry. exact P.
  - destruct l' as [|b l']; [apply Permutation_sym, Permutation_nil in P; discriminate|].
    inversion S as [|? ? Sl Fa]; subst. inversion S' as [|? ? Sl' Fb]; subst. inversion R as [|? ? Ra Rl]; subst.
    assert (R' : Forall reduced (b :: l')) by (apply (Permutation_Forall P); exact R).
    inversion R' as [|? ? Rb Rl']; subst.
    assert (Hab : a <= b).
    { assert (In b (a :: l)) by (apply Permutation_in with (l := b :: l'); [symmetry; exact P | left; reflexivity]).
      destruct H as [->|H]; [lra|]. rewrite Forall_forall in Fa. apply Fa. exact H. }
    assert (Hba : b <= a).
    { assert (In a (b :: l')) by (apply Permutation_in with (l := a :: l); [exact P | left; reflexivity]).
      destruct H as [->|H]; [lra|]. rewrite Forall_forall in Fb. apply Fb. exact H. }
    assert (E : a = b) by (apply reduced_eq; [assumption | assumption | lra]).
    subst b. f_equal. apply IH; try assumption. apply Permutation_cons_inv with (a := a). exact P.
Qed.

Lemma sorted_red_perm l l' : Permutation l l' -> sorted_red l = sorted_red l'.
Proof.
  intros P. unfold sorted_red. apply sorted_perm_unique; try apply isort_sorted.
  - apply (Permutation_Forall (isort_perm (map Qred l))). rewrite Forall_forall. intros x Hx.
    apply in_map_iff in Hx. destruct Hx as (y & <- & _). apply reduced_Qred.
  - eapply perm_trans; [symmetry; apply isort_perm|].
    eapply perm_trans; [apply Permutation_map; exact P | apply isort_perm].
Qed.

Lemma median_perm l l' : Permutation l l' -> median l = median l'.
Proof. intros P. unfold median. rewrite (sorted_red_perm _ _ P), (Permutation_length P). reflexivity. Qed.

Lemma sorted_red_length l : length (sorted_red l) = length l.
Proof. unfold sorted_red. rewrite <- (Permutation_length (isort_perm _)). apply map_length. Qed.

Lemma sorted_red_in l e : In e (sorted_red l) -> exists v, In v l /\ e == v.
Proof.
  intros H. unfold sorted_red in H. apply (Permutation_in _ (Permutation_sym (isort_perm _))) in H.
  apply in_map_iff in H. destruct H as (v & <- & Hv). exists v. split; [exact Hv | apply Qred_correct].
Qed.

Lemma median_bounds x l : min_of x l <= median (x :: l) /\ median (x :: l) <= max_of x l.
Proof.
  set (L := x :: l). set (n := length L).
  assert (Hn : (0 < n)%nat) by (unfold n, L; cbn; lia).
  assert (B : forall k, (k < n)%nat -> min_of x l <= nth k (sorted_red L) 0 /\ nth k (sorted_red L) 0 <= max_of x l).
  { intros k Hk. assert (Hin : In (nth k (sorted_red L) 0) (sorted_red L)) by (apply nth_In; rewrite sorted_red_length; exact Hk).
    apply sorted_red_in in Hin. destruct Hin as (v & Hv & E). rewrite E. split; [apply min_of_le | apply max_of_ge]; exact Hv. }
  unfold median. fold L. fold n.
  assert (H2 : (n / 2 < n)%nat) by (apply Nat.div_lt; lia).
  destruct (Nat.even n).
  - assert (H1 : (n / 2 - 1 < n)%nat) by lia.
    destruct (B _ H1) as [A1 A2]. destruct (B _ H2) as [A3 A4].
    split; [apply Qle_shift_div_l | apply Qle_shift_div_r]; lra.
  - apply B. exact H2.
Qed.
