(* Proofs/TokenReaderProofs.v - lemmas about Model/TokenReader.v (C07 round 2) *)
From Coq Require Import QArith ZArith List String Bool Lia.
From Verif Require Import Base.Flat Base.ParamRec Proofs.FlatFacts Model.RangeReader Proofs.RangeReaderProofs Model.TokenReader.
Import ListNotations.
Open Scope Q_scope.

Lemma lower_lift o : lower (lift o) = o.
Proof. destruct o; reflexivity. Qed.

Lemma read_tok_num p t v : tok_num t = Some v -> read_tok p t = lift (read_param p v).
Proof. unfold read_tok. intros ->. reflexivity. Qed.

(* numbers, however they are written: everything proved about read_param carries over *)
Lemma tok_meets_spec p t v :
  tok_num t = Some v -> is_numeric p = true -> (p_kind p = KInt -> integral v = true) -> no_shadow p v = true ->
  tspec_ok p t (read_tok p t) = true.
Proof.
  intros Ht Hn Hi Hs. unfold tspec_ok. rewrite Ht, (read_tok_num p t v Ht), lower_lift.
  apply model_meets_spec; auto.
Qed.

(* +-inf for floats, and a value with a blank: rejected by name *)
Lemma nonnumber_rejected p t :
  (t = TBlank \/ (p_kind p = KFloat /\ (t = TPInf \/ t = TNInf))) ->
  read_tok p t = TRejectNamed (p_name p) /\ tspec_ok p t (read_tok p t) = true.
Proof.
  intros [->|[Hk [->| ->]]]; unfold tspec_ok, read_tok; cbn; try rewrite Hk; cbn; (split; [reflexivity | apply String.eqb_refl]).
Qed.

(* refuted: nan is stored by every float parameter *)
Lemma nan_accepted p : p_kind p = KFloat -> read_tok p TNaN = TAcceptNaN /\ tspec_ok p TNaN (read_tok p TNaN) = false.
Proof. intros Hk. unfold tspec_ok, read_tok. cbn. rewrite Hk. auto. Qed.

(* refuted: non-numeric text, and nan / inf for int parameters, are rejected by an error that does not name the parameter *)
Lemma anonymous_errors p t :
  (t = TText \/ (p_kind p = KInt /\ (t = TNaN \/ t = TPInf \/ t = TNInf))) ->
  read_tok p t = TErrAnon /\ tspec_ok p t (read_tok p t) = false.
Proof.
  intros [->|[Hk [->|[->| ->]]]]; unfold tspec_ok, read_tok; cbn; try rewrite Hk; cbn; try (destruct (p_kind p)); auto.
Qed.

(* options: canonical integer text is not affected by the text conversion *)
Lemma option_canon strict nm e p n : read_option strict nm e p (TCanon n) = read_tok p (TCanon n).
Proof. unfold read_option. cbn [is_canon]. destruct (read_tok p (TCanon n)); reflexivity. Qed.

Lemma option_lenient nm p t : read_option false nm None p t = read_tok p t.
Proof. unfold read_option. destruct (read_tok p t), (is_canon t); reflexivity. Qed.

Lemma in_runs_members n rs : in_runs n rs = true <-> In n (runs_members rs).
Proof.
  unfold in_runs, runs_members. rewrite existsb_exists, in_flat_map. split.
  - intros [r [Hr H]]. exists r. split; [exact Hr|]. apply in_map_iff.
    apply andb_true_iff in H. destruct H as [A B]. apply Z.leb_le in A. apply Z.leb_le in B.
    exists (Z.to_nat (n - fst r)). split; [lia|]. apply in_seq. lia.
  - intros [r [Hr H]]. exists r. split; [exact Hr|]. apply in_map_iff in H. destruct H as [k [<- Hk]].
    apply in_seq in Hk. apply andb_true_iff. split; apply Z.leb_le; lia.
Qed.

Lemma memZb_In n l : memZb n l = true <-> In n l.
Proof.
  unfold memZb. rewrite existsb_exists. split.
  - intros [y [Hy E]]. apply Z.eqb_eq in E. subst. exact Hy.
  - intros H. exists n. split; [exact H | apply Z.eqb_refl].
Qed.

(* whenever an option row passes option_ok: every integer of the AllowableRange is a member of the enum, so the
   conversion to the enum (from_input_string / from_int) is total on accepted values *)
Lemma option_conversion_total t i strict nm e ms :
  option_ok t (i, strict, nm, e, ms) = true ->
  let p := nth i t dummy_param in
  forall n, in_runs n (p_range p) = true -> memZb n ms = true.
Proof.
  cbn. intros H n R. apply andb_true_iff in H. destruct H as [_ B]. rewrite forallb_forall in B.
  apply B. apply in_runs_members. exact R.
Qed.

Lemma option_accept_is_member t i strict nm e ms n w :
  option_ok t (i, strict, nm, e, ms) = true -> read_tok (nth i t dummy_param) (TCanon n) = TAccept w -> memZb n ms = true.
Proof.
  intros H Hr. apply (option_conversion_total t i strict nm e ms H n).
  cbn in H. apply andb_true_iff in H. destruct H as [Hk _].
  assert (K : p_kind (nth i t dummy_param) = KInt) by (destruct (p_kind (nth i t dummy_param)); try discriminate; reflexivity).
  unfold read_tok in Hr. cbn in Hr. destruct (read_param (nth i t dummy_param) (inject_Z n)) eqn:Rp; try discriminate.
  destruct (accept_int_is_trunc _ _ _ K Rp) as [_ Hin]. rewrite trunc_inject in Hin. exact Hin.
Qed.

(* refuted: "4.0" for a strictly converted option is inside the documented set as a number, passes ReadParameter and
   then dies in from_input_string without the parameter's name *)
Definition w_econ_model : param :=
  mkParam "Economics" "Economic Model" KInt (Some (2#1)) (Some (2#1)) 0 0 [(1, 4)%Z] "" "" "NONE" true "integer" "2/1".
Definition w_configuration : param :=
  mkParam "WellBores" "Well Geometry Configuration" KInt (Some (3#1)) (Some (3#1)) 0 0 [(1, 5)%Z] "" "" "NONE" true "integer" "3/1".

Lemma option_float_form_refuted :
  exists p v, in_domain p v = true /\ read_tok p (TNum v) = TAccept v /\ read_option true false None p (TNum v) = TErrAnon /\
              tspec_option_ok p (TNum v) (read_option true false None p (TNum v)) = false.
Proof. exists w_configuration, (5#1). repeat split; vm_compute; reflexivity. Qed.

(* when the enum label contains the parameter's name the same input is at least rejected by name *)
Lemma option_strict_named p t :
  tok_num t <> None -> is_canon t = false ->
  (exists v, read_tok p t = TAccept v) \/ read_tok p t = TUnchanged ->
  read_option true true None p t = TRejectNamed (p_name p).
Proof. intros _ Hc [[v H]|H]; unfold read_option; rewrite H, Hc; reflexivity. Qed.

(* refuted: Fracture Shape written "2.0": member 2 is accepted by ReadParameter and the else branch stores member 4 *)
Definition w_fracture_shape : param :=
  mkParam "Reservoir" "Fracture Shape" KInt (Some (1#1)) (Some (1#1)) 0 0 [(1, 4)%Z] "" "" "NONE" false "integer" "1/1".

Lemma option_else_refuted :
  exists p v m, in_domain p v = true /\ read_option false false (Some m) p (TNum v) = TAccept (inject_Z m) /\ ~ inject_Z m == v /\
                tspec_ok p (TNum v) (read_option false false (Some m) p (TNum v)) = false.
Proof.
  exists w_fracture_shape, (2#1), 4%Z. repeat split; try (vm_compute; reflexivity).
  intros H. vm_compute in H. discriminate.
Qed.

(* booleans *)
Lemma bool_words s :
  (in_words s false_words = true -> read_bool s = false) /\
  (in_words s true_words = true -> in_words s false_words = false -> read_bool s = true).
Proof. unfold read_bool. split; intros H; [rewrite H; reflexivity | intros F; rewrite F, H; reflexivity]. Qed.

Lemma bool_words_disjoint : forallb (fun s => negb (in_words s false_words)) true_words = true.
Proof. vm_compute. reflexivity. Qed.

(* refuted: text outside both word lists is not rejected - any non-empty text is True, including "FALSE" *)
Lemma bool_junk_refuted :
  (forall s, bool_documented s = false -> s <> ""%string -> read_bool s = true) /\
  bool_documented "maybe" = false /\ read_bool "maybe" = true /\ bool_documented "FALSE" = false /\ read_bool "FALSE" = true.
Proof.
  split; [|repeat split; vm_compute; reflexivity].
  intros s H Hne. unfold bool_documented in H. apply orb_false_iff in H. destruct H as [F T].
  unfold read_bool. rewrite F, T. destruct (String.eqb s "") eqn:E; [apply String.eqb_eq in E; contradiction | reflexivity].
Qed.
