(* Proofs/ScalingProofs.v - how economic results scale (C11): homogeneity of every levelized cost in the cost
   inputs, price monotonicity of NPV, efficiency scaling of LCOH, neutral add-ons / credits / grants. *)
From Coq Require Import QArith Qabs Qpower Qfield List ZArith Bool Lia Lqa Setoid Morphisms.
From Verif Require Import Base.Flat Model.CashFlow Model.Lcoe Model.Costs
     Proofs.FlatFacts Proofs.CashFlowProofs Proofs.LcoeProofs Proofs.CostsProofs.
Import ListNotations.
Open Scope Q_scope.

(* ---------- pointwise-equal series have equal geometric sums ---------- *)
Lemma geo0_ext q : forall l l', Forall2 Qeq l l' -> geo0 q l == geo0 q l'.
Proof. intros l l' H. induction H as [|x y l l' Hxy _ IH]; simpl; [reflexivity|]. now rewrite Hxy, IH. Qed.
Lemma geo1_ext q l l' : Forall2 Qeq l l' -> geo1 q l == geo1 q l'.
Proof. intros H. unfold geo1. now rewrite (geo0_ext q l l' H). Qed.
Lemma geo0_scale q k : forall l, geo0 q (map (Qmult k) l) == k * geo0 q l.
Proof. induction l as [|x l IH]; simpl; [ring|]. rewrite IH. ring. Qed.
Lemma geo1_scale q k l : geo1 q (map (Qmult k) l) == k * geo1 q l.
Proof. unfold geo1. rewrite geo0_scale. ring. Qed.
Lemma sumQ_scale k : forall l, sumQ (map (Qmult k) l) == k * sumQ l.
Proof. induction l as [|x l IH]; simpl; [ring|]. rewrite IH. ring. Qed.

(* ---------- the cost inputs of the levelized-cost function, multiplied by k ---------- *)
Definition scale_costs (k : Q) (c : lc_in) : lc_in :=
  {| l_econ := l_econ c; l_enduse := l_enduse c; l_plant := l_plant c;
     l_ccap := k * l_ccap c; l_coam := k * l_coam c; l_ratio := l_ratio c;
     l_fcr := l_fcr c; l_inflc := l_inflc c; l_disc := l_disc c;
     l_fib := l_fib c; l_bir := l_bir c; l_ctr := l_ctr c; l_eir := l_eir c; l_rinfl := l_rinfl c; l_ptr := l_ptr c;
     l_gtr := l_gtr c; l_ritc := l_ritc c; l_life := l_life c;
     l_net := l_net c; l_heat := l_heat c; l_cool := l_cool c; l_pump := l_pump c; l_hp := l_hp c;
     l_elec_buy := k * l_elec_buy c;
     l_avg_pump := k * l_avg_pump c; l_avg_hp := k * l_avg_hp c; l_avg_ng := k * l_avg_ng c;
     l_ng := map (Qmult k) (l_ng c); l_demand := l_demand c |}.

Lemma F2_refl : forall l : list Q, Forall2 Qeq l l.
Proof. induction l; constructor; auto. reflexivity. Qed.
Lemma F2_map (f g : Q -> Q) : (forall x, f x == g x) -> forall l, Forall2 Qeq (map f l) (map g l).
Proof. intros H. induction l; simpl; constructor; auto. Qed.
Lemma F2_map2 (f g : Q -> Q -> Q) : (forall x y, f x y == g x y) -> forall a b, Forall2 Qeq (map2 f a b) (map2 g a b).
Proof. intros H. induction a as [|x a IH]; intros [|y b]; simpl; constructor; auto. Qed.
Lemma F2_trans : forall a b c : list Q, Forall2 Qeq a b -> Forall2 Qeq b c -> Forall2 Qeq a c.
Proof.
  intros a b c H. revert c. induction H as [|x y l l' Hxy _ IH]; intros c Hc; inversion Hc; subst; constructor.
  - now rewrite Hxy. - now apply IH.
Qed.

Lemma repeat_scale k x n : repeat (k * x) n = map (Qmult k) (repeat x n).
Proof. induction n; simpl; congruence. Qed.

Lemma cost_series_scale k c v : Forall2 Qeq (cost_series (scale_costs k c) v) (map (Qmult k) (cost_series c v)).
Proof.
  unfold cost_series, smul. rewrite map_map. apply F2_map. intros x. simpl. unfold Qdiv. ring.
Qed.

Lemma sadd_scale k a v v' : Forall2 Qeq v (map (Qmult k) v') ->
  Forall2 Qeq (sadd (k * a) v) (map (Qmult k) (sadd a v')).
Proof.
  revert v. induction v' as [|y v' IH]; intros v H; inversion H; subst; simpl; constructor.
  - match goal with Hx : _ == k * y |- _ => rewrite Hx end. ring.
  - now apply IH.
Qed.

Lemma vadd_scale k : forall a a' b b', Forall2 Qeq a (map (Qmult k) a') -> Forall2 Qeq b (map (Qmult k) b') ->
  Forall2 Qeq (vadd a b) (map (Qmult k) (vadd a' b')).
Proof.
  intros a a'. revert a. induction a' as [|x a' IH]; intros a b b' Ha Hb; inversion Ha; subst; simpl.
  - constructor.
  - destruct b' as [|y b']; inversion Hb; subst; simpl; constructor.
    + repeat match goal with Hx : _ == k * _ |- _ => rewrite Hx; clear Hx end. ring.
    + now apply IH.
Qed.

Lemma repeat_scale_eq k x x' n : x' == k * x -> Forall2 Qeq (repeat x' n) (map (Qmult k) (repeat x n)).
Proof. intros H. induction n; simpl; constructor; auto. Qed.

Lemma sadd_scale' k a a' v v' : a' == k * a -> Forall2 Qeq v (map (Qmult k) v') ->
  Forall2 Qeq (sadd a' v) (map (Qmult k) (sadd a v')).
Proof.
  intros Ha. revert v. induction v' as [|y v' IH]; intros v H; inversion H; subst; simpl; constructor.
  - match goal with Hx : _ == k * y |- _ => rewrite Hx end. rewrite Ha. ring.
  - now apply IH.
Qed.

Ltac series :=
  lazymatch goal with
  | |- Forall2 Qeq (const_series _ _) _ => unfold const_series; apply repeat_scale_eq; simpl; ring
  | |- Forall2 Qeq (sadd _ _) _ => apply sadd_scale'; [simpl; ring | series]
  | |- Forall2 Qeq (vadd _ _) _ => apply vadd_scale; series
  | |- Forall2 Qeq (cost_series (scale_costs _ _) _) _ => apply cost_series_scale
  | |- Forall2 Qeq (map (Qmult ?k) ?l) (map (Qmult ?k) ?l) => apply F2_refl
  | |- Forall2 Qeq (l_ng (scale_costs _ _)) _ => apply F2_refl
  end.

(* the spec-form numerators are homogeneous of degree one in (capital cost, annual cost series) *)
Lemma std_num_spec_scale k c cap cap' annual annual' : cap' == k * cap -> Forall2 Qeq annual' (map (Qmult k) annual) ->
  std_num_spec (scale_costs k c) cap' annual' == k * std_num_spec c cap annual.
Proof.
  intros Hc H. unfold std_num_spec. simpl. rewrite (geo0_ext _ _ _ H), geo0_scale, Hc. ring.
Qed.

Lemma bic_num_spec_scale k c cap cap' annual annual' : cap' == k * cap -> Forall2 Qeq annual' (map (Qmult k) annual) ->
  bic_num_spec (scale_costs k c) cap' annual' == k * bic_num_spec c cap annual.
Proof.
  intros Hc H. unfold bic_num_spec, bic_combine, bic_it_coeff. cbv zeta.
  change (crf (scale_costs k c)) with (crf c). change (bic_qd (scale_costs k c)) with (bic_qd c).
  change (bic_qg (scale_costs k c)) with (bic_qg c). simpl.
  rewrite (geo1_ext _ _ _ H), geo1_scale, Hc. unfold Qdiv. ring.
Qed.

Lemma lev_scale k c cap cap' om om' xs xs' a_std a_std' a_bic a_bic' avgE energy unit :
  cap' == k * cap -> om' == k * om -> xs' == k * xs ->
  Forall2 Qeq a_std' (map (Qmult k) a_std) -> Forall2 Qeq a_bic' (map (Qmult k) a_bic) ->
  lev spec_levelizers (scale_costs k c) cap' om' xs' a_std' a_bic' avgE energy unit
  == k * lev spec_levelizers c cap om xs a_std a_bic avgE energy unit.
Proof.
  intros Hc Ho Hx Hs Hb. unfold lev. change (l_econ (scale_costs k c)) with (l_econ c).
  destruct (Z.eqb (l_econ c) 1); [|destruct (Z.eqb (l_econ c) 2)]; cbn [L_std_num L_std_den L_bic_num L_bic_den spec_levelizers].
  - unfold fcr_num. simpl. rewrite Hc, Ho, Hx. unfold Qdiv. ring.
  - rewrite (std_num_spec_scale k c cap cap' a_std a_std' Hc Hs).
    change (std_den_spec (scale_costs k c) energy) with (std_den_spec c energy). unfold Qdiv. ring.
  - rewrite (bic_num_spec_scale k c cap cap' a_bic a_bic' Hc Hb).
    change (bic_den_spec (scale_costs k c) energy) with (bic_den_spec c energy). unfold Qdiv. ring.
Qed.

Definition tscale (k : Q) (t : Q * Q * Q) : Q * Q * Q := let '(a, b, d) := t in (k * a, k * b, k * d).

(* C11: multiplying every cost input by k multiplies every levelized cost by k - all models, all end-uses *)
Theorem lcoe_homogeneous k c : teq (lcoe_spec (scale_costs k c)) (tscale k (lcoe_spec c)).
Proof.
  unfold lcoe_spec, lcoe_gen. cbv zeta.
  change (l_enduse (scale_costs k c)) with (l_enduse c). change (l_plant (scale_costs k c)) with (l_plant c).
  destruct (classify (l_enduse c) (l_plant c)); unfold tscale; apply teq_mk; try ring;
    change (l_net (scale_costs k c)) with (l_net c); change (l_heat (scale_costs k c)) with (l_heat c);
    change (l_cool (scale_costs k c)) with (l_cool c); change (l_demand (scale_costs k c)) with (l_demand c);
    change (l_pump (scale_costs k c)) with (l_pump c); change (l_hp (scale_costs k c)) with (l_hp c);
    change (const_series (scale_costs k c) (l_demand c)) with (const_series c (l_demand c));
    apply lev_scale; try (simpl; ring); series.
Qed.

(* ---------- scaling the energy series by s divides the levelized cost by s (end-use efficiency, C11) ---------- *)
Lemma avg_scale s l : avg (map (Qmult s) l) == s * avg l.
Proof. unfold avg. rewrite sumQ_scale, map_length. unfold Qdiv. ring. Qed.

Lemma lev_energy_scale c cap om xs a_std a_bic energy unit s :
  lev spec_levelizers c cap om xs a_std a_bic (avg (map (Qmult s) energy)) (map (Qmult s) energy) unit
  == / s * lev spec_levelizers c cap om xs a_std a_bic (avg energy) energy unit.
Proof.
  unfold lev.
  destruct (Z.eqb (l_econ c) 1); [|destruct (Z.eqb (l_econ c) 2)]; cbn [L_std_num L_std_den L_bic_num L_bic_den spec_levelizers].
  - rewrite avg_scale. unfold Qdiv. rewrite Qinv_mult_distr. ring.
  - unfold std_den_spec. rewrite geo0_scale. unfold Qdiv. rewrite Qinv_mult_distr. ring.
  - unfold bic_den_spec. rewrite geo1_scale. unfold Qdiv. rewrite Qinv_mult_distr. ring.
Qed.

(* direct-use heat: heat produced = efficiency x heat extracted, so the yearly heat series is proportional to the
   end-use efficiency; scaling it by s divides LCOH by s (s = 1/2: LCOH doubles); all three economic models *)
Definition with_heat (c : lc_in) (h : list Q) : lc_in :=
  {| l_econ := l_econ c; l_enduse := l_enduse c; l_plant := l_plant c; l_ccap := l_ccap c; l_coam := l_coam c;
     l_ratio := l_ratio c; l_fcr := l_fcr c; l_inflc := l_inflc c; l_disc := l_disc c; l_fib := l_fib c; l_bir := l_bir c;
     l_ctr := l_ctr c; l_eir := l_eir c; l_rinfl := l_rinfl c; l_ptr := l_ptr c; l_gtr := l_gtr c; l_ritc := l_ritc c;
     l_life := l_life c; l_net := l_net c; l_heat := h; l_cool := l_cool c; l_pump := l_pump c; l_hp := l_hp c;
     l_elec_buy := l_elec_buy c; l_avg_pump := l_avg_pump c; l_avg_hp := l_avg_hp c; l_avg_ng := l_avg_ng c;
     l_ng := l_ng c; l_demand := l_demand c |}.

Theorem lcoh_efficiency_scaling s c : classify (l_enduse c) (l_plant c) = LHeat ->
  snd (fst (lcoe_spec (with_heat c (map (Qmult s) (l_heat c))))) == / s * snd (fst (lcoe_spec c)).
Proof.
  intros Hk. unfold lcoe_spec, lcoe_gen. cbv zeta.
  change (l_enduse (with_heat c _)) with (l_enduse c). change (l_plant (with_heat c _)) with (l_plant c).
  rewrite Hk. cbn [fst snd]. apply (lev_energy_scale c).
Qed.

Corollary lcoh_doubles_when_efficiency_halves c : classify (l_enduse c) (l_plant c) = LHeat ->
  snd (fst (lcoe_spec (with_heat c (map (Qmult (1 # 2)) (l_heat c))))) == 2 * snd (fst (lcoe_spec c)).
Proof. intros Hk. rewrite (lcoh_efficiency_scaling (1 # 2) c Hk). reflexivity. Qed.

(* ---------- sale prices: no levelized cost depends on them; NPV moves with them ---------- *)
Definition with_prices (c : cf_in) (pE pH pC : list Q) : cf_in :=
  {| ci_kind := ci_kind c; ci_cy := ci_cy c; ci_ccap := ci_ccap c; ci_coam := ci_coam c; ci_carbon := ci_carbon c;
     ci_gi := ci_gi c; ci_ni := ci_ni c; ci_eE := ci_eE c; ci_eH := ci_eH c; ci_eC := ci_eC c;
     ci_pE := pE; ci_pH := pH; ci_pC := pC; ci_pCarb := ci_pCarb c |}.

Definition nonneg (l : list Q) : Prop := Forall (fun x => 0 <= x) l.

Lemma rev_ops_mono : forall e p p', nonneg e -> Forall2 Qle p p' -> Forall2 Qle (rev_ops e p) (rev_ops e p').
Proof.
  unfold rev_ops. induction e as [|x e IH]; intros p p' He Hp; [constructor|].
  inversion He; subst. destruct Hp as [|y y' p p' Hy Hp]; simpl; constructor.
  - unfold Qdiv. apply Qmult_le_compat_r; [|unfold million; apply Qlt_le_weak; reflexivity].
    rewrite (Qmult_comm x y), (Qmult_comm x y'). now apply Qmult_le_compat_r.
  - now apply IH.
Qed.

Lemma F2le_refl : forall l : list Q, Forall2 Qle l l.
Proof. induction l; constructor; auto. apply Qle_refl. Qed.
Lemma F2le_map2_plus : forall a a' b b', Forall2 Qle a a' -> Forall2 Qle b b' ->
  Forall2 Qle (map2 Qplus a b) (map2 Qplus a' b').
Proof.
  intros a a' b b' Ha. revert b b'. induction Ha as [|x x' a a' Hx Ha IH]; intros b b' Hb; [constructor|].
  destruct Hb as [|y y' b b' Hy Hb]; simpl; constructor; [lra | now apply IH].
Qed.
Lemma F2le_map (f : Q -> Q) : (forall x y, x <= y -> f x <= f y) -> forall a a', Forall2 Qle a a' -> Forall2 Qle (map f a) (map f a').
Proof. intros Hf a a' H. induction H; simpl; constructor; auto. Qed.
Lemma F2le_app : forall a a' b b', Forall2 Qle a a' -> Forall2 Qle b b' -> Forall2 Qle (a ++ b) (a' ++ b').
Proof. intros a a' b b' Ha Hb. induction Ha; simpl; [assumption | constructor; auto]. Qed.

(* raising sale prices (any product, any year) never lowers any year's cash flow when the energies sold are >= 0 *)
Lemma cashflow_mono_in_prices c pE pH pC pE' pH' pC' :
  nonneg (ci_eE c) -> nonneg (ci_eH c) -> nonneg (ci_eC c) ->
  Forall2 Qle pE pE' -> Forall2 Qle pH pH' -> Forall2 Qle pC pC' ->
  Forall2 Qle (total_cashflow (with_prices c pE pH pC)) (total_cashflow (with_prices c pE' pH' pC')).
Proof.
  intros HE HH HC HpE HpH HpC. unfold total_cashflow.
  apply F2le_app; [apply F2le_refl|].
  unfold total_ops. cbn [with_prices ci_kind ci_eE ci_eH ci_eC ci_pE ci_pH ci_pC ci_carbon ci_gi ci_ni ci_pCarb ci_coam].
  apply F2le_map; [intros; lra|].
  assert (Hbase : Forall2 Qle (product_rev_ops (ci_kind c) (ci_eE c) (ci_eH c) (ci_eC c) pE pH pC)
                              (product_rev_ops (ci_kind c) (ci_eE c) (ci_eH c) (ci_eC c) pE' pH' pC')).
  { destruct (ci_kind c); simpl; try (now apply rev_ops_mono).
    apply F2le_map2_plus; now apply rev_ops_mono. }
  destruct (ci_carbon c); [|assumption].
  apply F2le_map2_plus; [assumption | apply F2le_refl].
Qed.

Theorem npv_mono_in_prices r c pE pH pC pE' pH' pC' : 0 < 1 + r ->
  nonneg (ci_eE c) -> nonneg (ci_eH c) -> nonneg (ci_eC c) ->
  Forall2 Qle pE pE' -> Forall2 Qle pH pH' -> Forall2 Qle pC pC' ->
  npv r (total_cashflow (with_prices c pE pH pC)) <= npv r (total_cashflow (with_prices c pE' pH' pC')).
Proof. intros Hr HE HH HC H1 H2 H3. apply npv_mono; [assumption|]. now apply cashflow_mono_in_prices. Qed.

(* strict version for an electricity plant: one operating year with positive energy and a strictly higher price *)
Lemma rev_ops_strict : forall e p p', nonneg e -> Forall2 Qle p p' ->
  (exists j, 0 < nth j e 0 /\ nth j p 0 < nth j p' 0 /\ (j < length e)%nat /\ (j < length p)%nat) ->
  Forall2_one_lt (rev_ops e p) (rev_ops e p').
Proof.
  unfold rev_ops. induction e as [|x e IH]; intros p p' He Hp (j & Hj); [simpl in Hj; destruct Hj as (_ & _ & Hl & _); inversion Hl|].
  inversion He; subst. destruct Hp as [|y y' p p' Hy Hp]; [destruct Hj as (_ & _ & _ & Hl); inversion Hl|].
  assert (Hm : 0 < / million) by reflexivity.
  destruct j as [|j]; simpl in Hj; destruct Hj as (Hpos & Hlt & Hl1 & Hl2).
  - simpl. apply F2lt_here.
    + unfold Qdiv. apply Qmult_lt_compat_r; [assumption|]. rewrite (Qmult_comm x y), (Qmult_comm x y'). now apply Qmult_lt_compat_r.
    + now apply (rev_ops_mono e p p').
  - simpl. apply F2lt_later.
    + unfold Qdiv. apply Qmult_le_compat_r; [|now apply Qlt_le_weak].
      rewrite (Qmult_comm x y), (Qmult_comm x y'). now apply Qmult_le_compat_r.
    + apply IH; try assumption. exists j. repeat split; try assumption; lia.
Qed.

Lemma F2lt_map_minus k : forall a a', Forall2_one_lt a a' ->
  Forall2_one_lt (map (fun r => r - k) a) (map (fun r => r - k) a').
Proof.
  intros a a' H. induction H as [x y l l' Hxy Hl | x y l l' Hxy _ IH]; simpl.
  - apply F2lt_here; [lra|]. apply F2le_map; [intros; lra | assumption].
  - apply F2lt_later; [lra | assumption].
Qed.
Lemma F2lt_app_l : forall pre a a', Forall2_one_lt a a' -> Forall2_one_lt (pre ++ a) (pre ++ a').
Proof. induction pre as [|x pre IH]; intros a a' H; simpl; [assumption|]. apply F2lt_later; [apply Qle_refl | now apply IH]. Qed.

Theorem npv_strict_in_electricity_price r c pE pE' : 0 < 1 + r ->
  ci_kind c = KElec -> ci_carbon c = false -> nonneg (ci_eE c) -> Forall2 Qle pE pE' ->
  (exists j, 0 < nth j (ci_eE c) 0 /\ nth j pE 0 < nth j pE' 0 /\ (j < length (ci_eE c))%nat /\ (j < length pE)%nat) ->
  npv r (total_cashflow (with_prices c pE (ci_pH c) (ci_pC c))) < npv r (total_cashflow (with_prices c pE' (ci_pH c) (ci_pC c))).
Proof.
  intros Hr Hk Hc HE Hp Hj. apply npv_strict_mono; [assumption|].
  unfold total_cashflow. cbn [with_prices ci_cy ci_ccap]. unfold capex_year. cbn [with_prices ci_cy ci_ccap].
  apply F2lt_app_l. unfold total_ops.
  cbn [with_prices ci_kind ci_eE ci_eH ci_eC ci_pE ci_pH ci_pC ci_carbon ci_gi ci_ni ci_pCarb ci_coam].
  rewrite Hk, Hc. simpl. apply F2lt_map_minus. now apply rev_ops_strict.
Qed.

(* ---- the same, for every single-product end-use, with or without carbon revenue (the carbon series is the
   same in both runs; it must cover the years the product is sold, as map2 truncates to the shorter series) ---- *)
Lemma map2_length {A B C : Type} (f : A -> B -> C) : forall a b, length (map2 f a b) = Nat.min (length a) (length b).
Proof. induction a as [|x a IH]; intros [|y b]; simpl; auto. Qed.
Lemma F2lt_map2_plus_l : forall a a', Forall2_one_lt a a' -> forall b b', Forall2 Qle b b' ->
  (length a <= length b)%nat -> Forall2_one_lt (map2 Qplus a b) (map2 Qplus a' b').
Proof.
  intros a a' H. induction H as [x y l l' Hxy Hl | x y l l' Hxy _ IH]; intros b b' Hb Hlen;
    (destruct Hb as [|u u' b b' Hu Hb]; simpl in Hlen; [lia|]); simpl.
  - apply F2lt_here; [lra | now apply F2le_map2_plus].
  - apply F2lt_later; [lra | apply IH; [assumption | lia]].
Qed.
Lemma withc_strict (carbon : bool) (k : Q) (carb base base' : list Q) : Forall2_one_lt base base' ->
  (carbon = true -> (length base <= length carb)%nat) ->
  Forall2_one_lt (map (fun r => r - k) (if carbon then map2 Qplus base carb else base))
                 (map (fun r => r - k) (if carbon then map2 Qplus base' carb else base')).
Proof.
  intros H Hl. apply F2lt_map_minus. destruct carbon; [|assumption].
  apply F2lt_map2_plus_l; [assumption | apply F2le_refl | now apply Hl].
Qed.
Lemma rev_ops_length_le e p n : (length e <= n)%nat -> (length (rev_ops e p) <= n)%nat.
Proof. unfold rev_ops. rewrite map2_length. lia. Qed.

Theorem npv_strict_in_electricity_price_carbon r c pE pE' : 0 < 1 + r ->
  ci_kind c = KElec -> nonneg (ci_eE c) -> Forall2 Qle pE pE' ->
  (ci_carbon c = true -> (length (ci_eE c) <= length (ci_pCarb c))%nat) ->
  (exists j, 0 < nth j (ci_eE c) 0 /\ nth j pE 0 < nth j pE' 0 /\ (j < length (ci_eE c))%nat /\ (j < length pE)%nat) ->
  npv r (total_cashflow (with_prices c pE (ci_pH c) (ci_pC c))) < npv r (total_cashflow (with_prices c pE' (ci_pH c) (ci_pC c))).
Proof.
  intros Hr Hk HE Hp Hlen Hj. apply npv_strict_mono; [assumption|].
  unfold total_cashflow. cbn [with_prices ci_cy ci_ccap]. unfold capex_year. cbn [with_prices ci_cy ci_ccap].
  apply F2lt_app_l. unfold total_ops.
  cbn [with_prices ci_kind ci_eE ci_eH ci_eC ci_pE ci_pH ci_pC ci_carbon ci_gi ci_ni ci_pCarb ci_coam].
  rewrite Hk. unfold product_rev_ops, carbon_rev_ops, carbon_lbs_ops.
  apply withc_strict; [now apply rev_ops_strict|].
  intros Hc. rewrite map2_length, map_length. apply rev_ops_length_le. specialize (Hlen Hc). lia.
Qed.

Theorem npv_strict_in_heat_price r c pH pH' : 0 < 1 + r ->
  ci_kind c = KHeat -> nonneg (ci_eH c) -> Forall2 Qle pH pH' ->
  (ci_carbon c = true -> (length (ci_eH c) <= length (ci_pCarb c))%nat) ->
  (exists j, 0 < nth j (ci_eH c) 0 /\ nth j pH 0 < nth j pH' 0 /\ (j < length (ci_eH c))%nat /\ (j < length pH)%nat) ->
  npv r (total_cashflow (with_prices c (ci_pE c) pH (ci_pC c))) < npv r (total_cashflow (with_prices c (ci_pE c) pH' (ci_pC c))).
Proof.
  intros Hr Hk HE Hp Hlen Hj. apply npv_strict_mono; [assumption|].
  unfold total_cashflow. cbn [with_prices ci_cy ci_ccap]. unfold capex_year. cbn [with_prices ci_cy ci_ccap].
  apply F2lt_app_l. unfold total_ops.
  cbn [with_prices ci_kind ci_eE ci_eH ci_eC ci_pE ci_pH ci_pC ci_carbon ci_gi ci_ni ci_pCarb ci_coam].
  rewrite Hk. unfold product_rev_ops, carbon_rev_ops, carbon_lbs_ops.
  apply withc_strict; [now apply rev_ops_strict|].
  intros Hc. rewrite map2_length, map_length. apply rev_ops_length_le. specialize (Hlen Hc). lia.
Qed.

(* cooling: the avoided-carbon series of a cooling plant is computed from the heat series (end-use HEAT branch) *)
Theorem npv_strict_in_cooling_price r c pC pC' : 0 < 1 + r ->
  ci_kind c = KCool -> nonneg (ci_eC c) -> Forall2 Qle pC pC' ->
  (ci_carbon c = true -> (length (ci_eC c) <= length (ci_eH c))%nat /\ (length (ci_eC c) <= length (ci_pCarb c))%nat) ->
  (exists j, 0 < nth j (ci_eC c) 0 /\ nth j pC 0 < nth j pC' 0 /\ (j < length (ci_eC c))%nat /\ (j < length pC)%nat) ->
  npv r (total_cashflow (with_prices c (ci_pE c) (ci_pH c) pC)) < npv r (total_cashflow (with_prices c (ci_pE c) (ci_pH c) pC')).
Proof.
  intros Hr Hk HE Hp Hlen Hj. apply npv_strict_mono; [assumption|].
  unfold total_cashflow. cbn [with_prices ci_cy ci_ccap]. unfold capex_year. cbn [with_prices ci_cy ci_ccap].
  apply F2lt_app_l. unfold total_ops.
  cbn [with_prices ci_kind ci_eE ci_eH ci_eC ci_pE ci_pH ci_pC ci_carbon ci_gi ci_ni ci_pCarb ci_coam].
  rewrite Hk. unfold product_rev_ops, carbon_rev_ops, carbon_lbs_ops.
  apply withc_strict; [now apply rev_ops_strict|].
  intros Hc. rewrite map2_length, map_length. apply rev_ops_length_le. destruct (Hlen Hc). lia.
Qed.

(* co-generation: two summed product series; either price rising strictly in one year where that product is sold, the
   other product's prices not falling; the other series (and the carbon series) must cover that product's years *)
Lemma F2lt_map2_plus_r : forall b b', Forall2_one_lt b b' -> forall a a', Forall2 Qle a a' ->
  (length b <= length a)%nat -> Forall2_one_lt (map2 Qplus a b) (map2 Qplus a' b').
Proof.
  intros b b' H. induction H as [x y l l' Hxy Hl | x y l l' Hxy _ IH]; intros a a' Ha Hlen;
    (destruct Ha as [|u u' a a' Hu Ha]; simpl in Hlen; [lia|]); simpl.
  - apply F2lt_here; [lra | now apply F2le_map2_plus].
  - apply F2lt_later; [lra | apply IH; [assumption | lia]].
Qed.

Theorem npv_strict_in_cogen_electricity_price r c pE pE' pH pH' : 0 < 1 + r ->
  ci_kind c = KCogen -> nonneg (ci_eE c) -> nonneg (ci_eH c) -> Forall2 Qle pE pE' -> Forall2 Qle pH pH' ->
  (length (ci_eE c) <= length (ci_eH c))%nat -> (length (ci_eE c) <= length pH)%nat ->
  (ci_carbon c = true -> (length (ci_eE c) <= length (ci_pCarb c))%nat) ->
  (exists j, 0 < nth j (ci_eE c) 0 /\ nth j pE 0 < nth j pE' 0 /\ (j < length (ci_eE c))%nat /\ (j < length pE)%nat) ->
  npv r (total_cashflow (with_prices c pE pH (ci_pC c))) < npv r (total_cashflow (with_prices c pE' pH' (ci_pC c))).
Proof.
  intros Hr Hk HE HH HpE HpH HlH HlpH Hlen Hj. apply npv_strict_mono; [assumption|].
  unfold total_cashflow. cbn [with_prices ci_cy ci_ccap]. unfold capex_year. cbn [with_prices ci_cy ci_ccap].
  apply F2lt_app_l. unfold total_ops.
  cbn [with_prices ci_kind ci_eE ci_eH ci_eC ci_pE ci_pH ci_pC ci_carbon ci_gi ci_ni ci_pCarb ci_coam].
  rewrite Hk. unfold product_rev_ops, carbon_rev_ops, carbon_lbs_ops.
  apply withc_strict.
  - apply F2lt_map2_plus_l; [now apply rev_ops_strict | now apply rev_ops_mono|].
    unfold rev_ops. rewrite !map2_length. lia.
  - intros Hc. specialize (Hlen Hc). unfold rev_ops. rewrite !map2_length. lia.
Qed.

Theorem npv_strict_in_cogen_heat_price r c pE pE' pH pH' : 0 < 1 + r ->
  ci_kind c = KCogen -> nonneg (ci_eE c) -> nonneg (ci_eH c) -> Forall2 Qle pE pE' -> Forall2 Qle pH pH' ->
  (length (ci_eH c) <= length (ci_eE c))%nat -> (length (ci_eH c) <= length pE)%nat ->
  (ci_carbon c = true -> (length (ci_eH c) <= length (ci_pCarb c))%nat) ->
  (exists j, 0 < nth j (ci_eH c) 0 /\ nth j pH 0 < nth j pH' 0 /\ (j < length (ci_eH c))%nat /\ (j < length pH)%nat) ->
  npv r (total_cashflow (with_prices c pE pH (ci_pC c))) < npv r (total_cashflow (with_prices c pE' pH' (ci_pC c))).
Proof.
  intros Hr Hk HE HH HpE HpH HlE HlpE Hlen Hj. apply npv_strict_mono; [assumption|].
  unfold total_cashflow. cbn [with_prices ci_cy ci_ccap]. unfold capex_year. cbn [with_prices ci_cy ci_ccap].
  apply F2lt_app_l. unfold total_ops.
  cbn [with_prices ci_kind ci_eE ci_eH ci_eC ci_pE ci_pH ci_pC ci_carbon ci_gi ci_ni ci_pCarb ci_coam].
  rewrite Hk. unfold product_rev_ops, carbon_rev_ops, carbon_lbs_ops.
  apply withc_strict.
  - apply F2lt_map2_plus_r; [now apply rev_ops_strict | now apply rev_ops_mono|].
    unfold rev_ops. rewrite !map2_length. lia.
  - intros Hc. specialize (Hlen Hc). unfold rev_ops. rewrite !map2_length. lia.
Qed.

(* ---------- an add-on with zero cost and zero gains changes nothing ---------- *)
(* EconomicsAddOns: every yearly energy gets the add-on's gain added; CAPEX / OPEX get the add-on's totals added *)
Definition addon_energy (gain : Q) (e : list Q) : list Q := map (fun x => x + gain) e.
Lemma zero_addon_neutral e capex opex :
  Forall2 Qeq (addon_energy 0 e) e /\ capex + 0 == capex /\ opex + 0 == opex.
Proof.
  split; [|split; ring]. unfold addon_energy. induction e; simpl; constructor; auto. ring.
Qed.

(* ... on the cash-flow model of EconomicsAddOns.Calculate itself: an add-on whose CAPEX, OPEX, electricity gain, heat gain
   and profit are all zero has an all-zero revenue and cash-flow series, and the project cash flow with the add-on is,
   year by year, the project cash flow without it (every end-use, any number of construction years, any lifetime) *)
Definition base_project_cashflow (a : addon_in) : list Q :=
  repeat (- (1) * (a_ccap a / natQ (a_cy a))) (a_cy a) ++ project_ops a.
Definition allzero (l : list Q) : Prop := Forall (fun x => x == 0) l.

Lemma map2_Forall {A B C} (f : A -> B -> C) (P : C -> Prop) (Q1 : A -> Prop) (Q2 : B -> Prop) :
  (forall x y, Q1 x -> Q2 y -> P (f x y)) -> forall a b, Forall Q1 a -> Forall Q2 b -> Forall P (map2 f a b).
Proof.
  intros Hf a b Ha. revert b. induction Ha as [|x a Hx Ha IH]; intros b Hb; [constructor|].
  destruct Hb as [|y b Hy Hb]; simpl; constructor; auto.
Qed.
Lemma Forall_map_all {A B} (g : A -> B) (P : B -> Prop) : (forall x, P (g x)) -> forall l, Forall P (map g l).
Proof. intros Hg l. induction l; simpl; constructor; auto. Qed.
Lemma zero_plus_series : forall l z, allzero z -> (length l <= length z)%nat -> Forall2 Qeq (map2 Qplus z l) l.
Proof.
  induction l as [|x l IH]; intros z Hz Hlen.
  - destruct z; constructor.
  - destruct Hz as [|u z Hu Hz]; simpl in Hlen; [lia|]. simpl. constructor; [rewrite Hu; ring | apply IH; [assumption | lia]].
Qed.
Lemma repeat_F2eq (x y : Q) : x == y -> forall n, Forall2 Qeq (repeat x n) (repeat y n).
Proof. intros H n. induction n; simpl; constructor; assumption. Qed.
Lemma F2eq_refl : forall l : list Q, Forall2 Qeq l l.
Proof. induction l; constructor; auto. reflexivity. Qed.

Lemma zero_addon_revenue a : a_opex a == 0 -> a_egain a == 0 -> a_hgain a == 0 -> a_profit a == 0 ->
  allzero (addon_revenue a).
Proof.
  intros Ho He Hh Hp. unfold allzero, addon_revenue.
  apply (map2_Forall _ _ (fun x => x == 0) (fun x => x == 0)).
  - intros x y Hx Hy. rewrite Hx, Hy, Ho, Hp. ring.
  - unfold addon_elec_revenue. apply Forall_map_all. intros p.
    destruct (sells_elec (a_kind a)); [rewrite He|]; unfold Qdiv; ring.
  - unfold addon_heat_revenue. apply Forall_map_all. intros p.
    destruct (sells_heat (a_kind a)); [rewrite Hh|]; unfold Qdiv; ring.
Qed.

Lemma addon_revenue_covers_project a : (length (project_ops a) <= length (addon_revenue a))%nat.
Proof.
  unfold project_ops, addon_revenue, addon_elec_revenue, addon_heat_revenue.
  rewrite !map2_length, !map_length.
  destruct (sells_elec (a_kind a)), (sells_heat (a_kind a)); rewrite ?map_length; lia.
Qed.

Theorem zero_addon_cashflow_is_zero a : a_capex a == 0 -> a_opex a == 0 -> a_egain a == 0 -> a_hgain a == 0 ->
  a_profit a == 0 -> allzero (addon_cashflow a).
Proof.
  intros Hc Ho He Hh Hp. unfold allzero, addon_cashflow. apply Forall_app. split.
  - assert (Hz : - (1) * (a_capex a / natQ (a_cy a)) == 0) by (rewrite Hc; unfold Qdiv; ring).
    revert Hz. generalize (- (1) * (a_capex a / natQ (a_cy a))). intros v Hz.
    induction (a_cy a); simpl; constructor; assumption.
  - now apply zero_addon_revenue.
Qed.

Theorem zero_addon_project_cashflow a : a_capex a == 0 -> a_opex a == 0 -> a_egain a == 0 -> a_hgain a == 0 ->
  a_profit a == 0 -> Forall2 Qeq (addon_project_cashflow a) (base_project_cashflow a).
Proof.
  intros Hc Ho He Hh Hp. unfold addon_project_cashflow, base_project_cashflow. apply Forall2_app.
  - apply repeat_F2eq. rewrite Hc. unfold Qdiv. ring.
  - apply zero_plus_series; [now apply zero_addon_revenue | apply addon_revenue_covers_project].
Qed.

(* hence the same NPV at every discount rate and the same cumulative cash flow in every year *)
Lemma npv_ext r : forall cf cf', Forall2 Qeq cf cf' -> npv r cf == npv r cf'.
Proof. intros cf cf' H. induction H as [|x y l l' Hxy _ IH]; simpl; [reflexivity|]. now rewrite Hxy, IH. Qed.
Lemma running_from_ext : forall l l', Forall2 Qeq l l' -> forall a a', a == a' ->
  Forall2 Qeq (running_from a l) (running_from a' l').
Proof.
  intros l l' H. induction H as [|x y l l' Hxy _ IH]; intros a a' Ha; simpl; [constructor|].
  assert (Hs : a + x == a' + y) by now rewrite Ha, Hxy. constructor; [assumption | now apply IH].
Qed.
Theorem zero_addon_npv a r : a_capex a == 0 -> a_opex a == 0 -> a_egain a == 0 -> a_hgain a == 0 -> a_profit a == 0 ->
  npv r (addon_project_cashflow a) == npv r (base_project_cashflow a).
Proof. intros. apply npv_ext. now apply zero_addon_project_cashflow. Qed.
Theorem zero_addon_cumulative a : a_capex a == 0 -> a_opex a == 0 -> a_egain a == 0 -> a_hgain a == 0 -> a_profit a == 0 ->
  Forall2 Qeq (running (addon_project_cashflow a)) (running (base_project_cashflow a)).
Proof. intros. unfold running. apply running_from_ext; [now apply zero_addon_project_cashflow | reflexivity]. Qed.

(* ... and the same payback period: the payback loop only compares and combines values, so it respects == *)
Lemma Qle_bool_ext a a' b b' : a == a' -> b == b' -> Qle_bool a b = Qle_bool a' b'.
Proof.
  intros Ha Hb. destruct (Qle_bool a b) eqn:E1, (Qle_bool a' b') eqn:E2; try reflexivity.
  - apply Qle_bool_iff in E1. rewrite Ha, Hb in E1. apply Qle_bool_iff in E1. congruence.
  - apply Qle_bool_iff in E2. rewrite <- Ha, <- Hb in E2. apply Qle_bool_iff in E2. congruence.
Qed.
Lemma payback_loop_ext : forall l l', Forall2 Qeq l l' -> forall p p' i acc acc', p == p' -> acc == acc' ->
  payback_loop p i l acc == payback_loop p' i l' acc'.
Proof.
  intros l l' H. induction H as [|x y l l' Hxy _ IH]; intros p p' i acc acc' Hp Ha; simpl; [assumption|].
  apply IH; [assumption|].
  unfold Qltb, Qleb. rewrite (Qle_bool_ext x y 0 0 Hxy (Qeq_refl 0)), (Qle_bool_ext p p' 0 0 Hp (Qeq_refl 0)).
  destruct (negb (Qle_bool y 0) && Qle_bool p' 0); [|assumption].
  now rewrite Hp, Hxy.
Qed.
Lemma last_ext : forall l l', Forall2 Qeq l l' -> forall d d', d == d' -> last l d == last l' d'.
Proof.
  intros l l' H. induction H as [|x y l l' Hxy Hl IH]; intros d d' Hd; [assumption|].
  destruct Hl as [|u v l l' Huv Hl]; [assumption|]. change (last (u :: l) d == last (v :: l') d'). now apply IH.
Qed.
Lemma payback_ext cum cum' : Forall2 Qeq cum cum' -> payback cum == payback cum'.
Proof.
  intros H. unfold payback. apply payback_loop_ext; [assumption | | reflexivity]. apply last_ext; [assumption | reflexivity].
Qed.
Theorem zero_addon_payback a : a_capex a == 0 -> a_opex a == 0 -> a_egain a == 0 -> a_hgain a == 0 -> a_profit a == 0 ->
  payback (running (addon_project_cashflow a)) == payback (running (base_project_cashflow a)).
Proof. intros. apply payback_ext. now apply zero_addon_cumulative. Qed.

(* ... and the same project VIR and MOIC (AdjustedProjectCAPEX = CCap + add-on CAPEX, AdjustedProjectOPEX = Coam + add-on OPEX) *)
Theorem zero_addon_vir a r : a_capex a == 0 -> a_opex a == 0 -> a_egain a == 0 -> a_hgain a == 0 -> a_profit a == 0 ->
  vir (npv r (addon_project_cashflow a)) (a_ccap a + a_capex a) == vir (npv r (base_project_cashflow a)) (a_ccap a).
Proof.
  intros Hc Ho He Hh Hp. unfold vir. rewrite (zero_addon_npv a r Hc Ho He Hh Hp), Hc, Qplus_0_r. reflexivity.
Qed.
Theorem zero_addon_moic a life : a_capex a == 0 -> a_opex a == 0 -> a_egain a == 0 -> a_hgain a == 0 -> a_profit a == 0 ->
  moic (running (addon_project_cashflow a)) (a_ccap a + a_capex a) (a_coam a + a_opex a) life
  == moic (running (base_project_cashflow a)) (a_ccap a) (a_coam a) life.
Proof.
  intros Hc Ho He Hh Hp. unfold moic.
  rewrite (last_ext _ _ (zero_addon_cumulative a Hc Ho He Hh Hp) 0 0 (Qeq_refl 0)), Hc, Ho, !Qplus_0_r. reflexivity.
Qed.

(* ---------- a zero-rate ITC / zero fees / zero incentives / zero grant, carried through to the cash flow ---------- *)
Definition with_ccap (c : cf_in) (x : Q) : cf_in :=
  {| ci_kind := ci_kind c; ci_cy := ci_cy c; ci_ccap := x; ci_coam := ci_coam c; ci_carbon := ci_carbon c;
     ci_gi := ci_gi c; ci_ni := ci_ni c; ci_eE := ci_eE c; ci_eH := ci_eH c; ci_eC := ci_eC c;
     ci_pE := ci_pE c; ci_pH := ci_pH c; ci_pC := ci_pC c; ci_pCarb := ci_pCarb c |}.
Lemma cashflow_ccap_ext c x y : x == y -> Forall2 Qeq (total_cashflow (with_ccap c x)) (total_cashflow (with_ccap c y)).
Proof.
  intros H. unfold total_cashflow. apply Forall2_app.
  - cbn [with_ccap ci_cy]. apply repeat_F2eq. unfold capex_year. cbn [with_ccap ci_cy ci_ccap]. now rewrite H.
  - unfold total_ops. cbn [with_ccap ci_kind ci_eE ci_eH ci_eC ci_pE ci_pH ci_pC ci_carbon ci_gi ci_ni ci_pCarb ci_coam].
    apply F2eq_refl.
Qed.
Theorem neutral_adjustments_cashflow (k : cost_in) (c : cf_in) (r : Q) :
  k_ritc k == 0 -> k_flat k == 0 -> k_other k == 0 -> k_grant k == 0 ->
  Forall2 Qeq (total_cashflow (with_ccap c (ccap k))) (total_cashflow (with_ccap c (ccap_pre k))) /\
  npv r (total_cashflow (with_ccap c (ccap k))) == npv r (total_cashflow (with_ccap c (ccap_pre k))) /\
  payback (running (total_cashflow (with_ccap c (ccap k)))) == payback (running (total_cashflow (with_ccap c (ccap_pre k)))).
Proof.
  intros H1 H2 H3 H4. pose proof (cashflow_ccap_ext c _ _ (neutral_adjustments k H1 H2 H3 H4)) as Hcf.
  split; [assumption|]. split; [now apply npv_ext|].
  apply payback_ext. unfold running. apply running_from_ext; [assumption | reflexivity].
Qed.

(* ---------- NPV is homogeneous of degree one in the cash flow (any discount rate, 1 + r = 0 included) ---------- *)
Theorem npv_scale r k : forall cf, npv r (map (Qmult k) cf) == k * npv r cf.
Proof. induction cf as [|x cf IH]; simpl; [ring|]. rewrite IH. unfold Qdiv. ring. Qed.
(* ---------- the payback period does not change when every cumulative cash flow is multiplied by k > 0 ---------- *)
Lemma Qle_bool_scale_l k x : 0 < k -> Qle_bool (k * x) 0 = Qle_bool x 0.
Proof.
  intros Hk. destruct (Qle_bool (k * x) 0) eqn:E1, (Qle_bool x 0) eqn:E2; try reflexivity.
  - apply Qle_bool_iff in E1. assert (~ x <= 0) by (intro H; apply Qle_bool_iff in H; congruence). nra.
  - apply Qle_bool_iff in E2. assert (~ k * x <= 0) by (intro H; apply Qle_bool_iff in H; congruence). nra.
Qed.
Lemma payback_loop_scale k : 0 < k -> forall l p i acc,
  payback_loop (k * p) i (map (Qmult k) l) acc == payback_loop p i l acc.
Proof.
  intros Hk. induction l as [|c l IH]; intros p i acc; cbn [map payback_loop]; [reflexivity|].
  rewrite IH. apply payback_loop_ext; [apply F2eq_refl | reflexivity|].
  unfold Qltb, Qleb. rewrite !Qle_bool_scale_l by assumption.
  destruct (negb (Qle_bool c 0)) eqn:Ec; cbn [andb]; [|reflexivity].
  destruct (Qle_bool p 0) eqn:Ep; [|reflexivity].
  apply negb_true_iff in Ec. assert (Hc : 0 < c).
  { destruct (Qlt_le_dec 0 c) as [H|H]; [assumption|]. apply Qle_bool_iff in H. congruence. }
  rewrite Qabs_Qmult, (Qabs_pos k) by lra.
  pose proof (Qabs_nonneg p) as Hp. field. nra.
Qed.
Theorem payback_scale k cum : 0 < k -> payback (map (Qmult k) cum) == payback cum.
Proof.
  intros Hk. unfold payback.
  assert (Hl : last (map (Qmult k) cum) 0 == k * last cum 0).
  { induction cum as [|x [|y cum] IH]; [simpl; ring | simpl; reflexivity |]. exact IH. }
  rewrite <- (payback_loop_scale k Hk cum (last cum 0) 0%nat 0).
  apply payback_loop_ext; [apply F2eq_refl | assumption | reflexivity].
Qed.

(* homogeneity of the code's own (vector) computation, through C01 *)
Lemma teq_sym a b : teq a b -> teq b a.
Proof. unfold teq. intros (H1 & H2 & H3). repeat split; symmetry; assumption. Qed.
Lemma teq_trans a b c : teq a b -> teq b c -> teq a c.
Proof. unfold teq. intros (H1 & H2 & H3) (G1 & G2 & G3). repeat split; etransitivity; eassumption. Qed.
Lemma tscale_teq k a b : teq a b -> teq (tscale k a) (tscale k b).
Proof.
  destruct a as [[a1 a2] a3], b as [[b1 b2] b3]. unfold teq, tscale. simpl. intros (H1 & H2 & H3).
  repeat split; [now rewrite H1 | now rewrite H2 | now rewrite H3].
Qed.
Theorem lcoe_code_homogeneous k c : wf_l c -> wf_l (scale_costs k c) ->
  teq (lcoe_code (scale_costs k c)) (tscale k (lcoe_code c)).
Proof.
  intros H1 H2. eapply teq_trans; [apply lcoe_code_is_spec; assumption|].
  eapply teq_trans; [apply lcoe_homogeneous|]. apply tscale_teq. apply teq_sym. now apply lcoe_code_is_spec.
Qed.
