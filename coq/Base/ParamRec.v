(* Base/ParamRec.v - the record type of one row of Gen/ParamTable.v (one input Parameter of one module
   class of /repo, dumped from the live object by tools/gen/paramtable.py).  Definitions only.
   Shared by C07, C19 (and any property that quantifies over the declared parameters). *)
From Coq Require Import QArith ZArith List String Bool.
Import ListNotations.
Open Scope Q_scope.

Inductive pkind : Type := KFloat | KInt | KBool | KStr | KList.

Definition pkind_eqb (a b : pkind) : bool :=
  match a, b with
  | KFloat, KFloat | KInt, KInt | KBool, KBool | KStr, KStr | KList, KList => true
  | _, _ => false
  end.

Record param : Type := mkParam {
  p_module   : string;        (* class that owns the ParameterDict entry *)
  p_name     : string;        (* Parameter.Name (= the input-file key) *)
  p_kind     : pkind;         (* floatParameter / intParameter / boolParameter / strParameter / listParameter *)
  p_default  : option Q;      (* DefaultValue when it compares equal to a number (ints as n#1); None otherwise
                                 (None, enum objects, strings, lists: `number == DefaultValue` is always False) *)
  p_value    : option Q;      (* .value right after __init__ (may differ from DefaultValue), same convention *)
  p_min      : Q;             (* float(Min)  - floatParameter, listParameter; 0 otherwise *)
  p_max      : Q;             (* float(Max) *)
  p_range    : list (Z * Z);  (* intParameter.AllowableRange as maximal runs (lo, hi), ascending *)
  p_units    : string;        (* CurrentUnits value ("" when not a unit string) *)
  p_pref     : string;        (* PreferredUnits value *)
  p_utype    : string;        (* UnitType name *)
  p_required : bool;
  p_jtype    : string;        (* json_parameter_type *)
  p_deftxt   : string         (* canonical text of DefaultValue for non-numeric comparison (see paramtable.py) *)
}.

Definition is_numeric (p : param) : bool :=
  match p_kind p with KFloat | KInt => true | _ => false end.

(* membership of an integer in a run-encoded AllowableRange *)
Definition in_runs (n : Z) (rs : list (Z * Z)) : bool :=
  existsb (fun r => (fst r <=? n)%Z && (n <=? snd r)%Z) rs.

Fixpoint runs_min (rs : list (Z * Z)) : option Z :=
  match rs with
  | [] => None
  | (lo, _) :: r => match runs_min r with Some m => Some (Z.min lo m) | None => Some lo end
  end.
Fixpoint runs_max (rs : list (Z * Z)) : option Z :=
  match rs with
  | [] => None
  | (_, hi) :: r => match runs_max r with Some m => Some (Z.max hi m) | None => Some hi end
  end.

(* every run is non-empty *)
Definition runs_wf (rs : list (Z * Z)) : bool := forallb (fun r => (fst r <=? snd r)%Z) rs.

Fixpoint find_param (cls name : string) (t : list param) : option param :=
  match t with
  | [] => None
  | p :: r => if String.eqb (p_module p) cls && String.eqb (p_name p) name then Some p else find_param cls name r
  end.
