(* Base/UStr.v - texts as lists of Unicode code points (C12).  [us] turns a Coq string literal (ASCII) into such a text.
   UA / US mirror the parts of Coq's Ascii / String interface the tokenizer development uses.  Definitions + their
   elementary lemmas only. *)
From Coq Require Import NArith List Bool String Ascii.
Import ListNotations.

Definition ustring := list N.

Fixpoint us (s : String.string) : ustring :=
  match s with
  | EmptyString => []
  | String c r => N_of_ascii c :: us r
  end.
Arguments us _%string.

Module UA.
  Definition eqb (a b : N) : bool := N.eqb a b.
  Lemma eqb_refl a : eqb a a = true. Proof. apply N.eqb_refl. Qed.
  Lemma eqb_eq a b : eqb a b = true <-> a = b. Proof. apply N.eqb_eq. Qed.
  Lemma eqb_neq a b : eqb a b = false <-> a <> b. Proof. apply N.eqb_neq. Qed.
  Lemma eqb_spec a b : reflect (a = b) (eqb a b). Proof. apply N.eqb_spec. Qed.
End UA.

Module US.
  Fixpoint eqb (a b : ustring) : bool :=
    match a, b with
    | [], [] => true
    | x :: a', y :: b' => N.eqb x y && eqb a' b'
    | _, _ => false
    end.
  Lemma eqb_refl a : eqb a a = true.
  Proof. induction a; cbn; [reflexivity|]. now rewrite N.eqb_refl. Qed.
  Lemma eqb_eq a b : eqb a b = true <-> a = b.
  Proof.
    revert b. induction a as [|x a IH]; destruct b as [|y b]; cbn; split; try congruence; try discriminate.
    - intros H. apply andb_prop in H as [H1 H2]. apply N.eqb_eq in H1. apply IH in H2. congruence.
    - intros H. inversion H; subst. now rewrite N.eqb_refl, eqb_refl.
  Qed.
  Lemma eqb_spec a b : reflect (a = b) (eqb a b).
  Proof. destruct (eqb a b) eqn:E; constructor; [now apply eqb_eq | intros H; apply eqb_eq in H; congruence]. Qed.
End US.
