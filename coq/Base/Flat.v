(* Base/Flat.v - the flat interface through which every numeric model is run
   against the implementation: a case is a list of rationals in, a [res] out.
   Executable definitions only. *)
From Coq Require Import QArith Qabs Qminmax Qround List ZArith Bool.
Import ListNotations.
Open Scope Q_scope.

Inductive res : Type :=
| Vals (l : list Q)
| Err (code : Z).

(* error codes shared by models and harness *)
Definition E_INDEX : Z := 1.      (* IndexError *)
Definition E_ZERODIV : Z := 2.    (* ZeroDivisionError *)
Definition E_VALUE : Z := 3.      (* ValueError *)
Definition E_STOP : Z := 4.       (* StopIteration / no such element *)
Definition E_ARGS : Z := 99.      (* malformed flat argument list: harness bug *)

Definition Qmax3 (a b c : Q) : Q := Qmax a (Qmax b c).

(* |a-b| <= tol * max(1,|a|,|b|);  tol = 0 means exact equality *)
Definition close (tol a b : Q) : bool :=
  Qle_bool (Qabs (a - b)) (tol * Qmax3 1 (Qabs a) (Qabs b)).

(* same, with an explicit scale for cancellation-prone sums *)
Definition close_scale (tol scale a b : Q) : bool :=
  Qle_bool (Qabs (a - b)) (tol * Qmax (Qmax3 1 (Qabs a) (Qabs b)) scale).

Fixpoint all_close (tol : Q) (a b : list Q) : bool :=
  match a, b with
  | [], [] => true
  | x :: a', y :: b' => close tol x y && all_close tol a' b'
  | _, _ => false
  end.

Definition res_close (tol : Q) (a b : res) : bool :=
  match a, b with
  | Vals x, Vals y => all_close tol x y
  | Err c, Err d => Z.eqb c d
  | _, _ => false
  end.

(* indices of the cases on which [f] is false *)
Fixpoint mismatches {A : Type} (f : A -> bool) (i : nat) (cs : list A) : list nat :=
  match cs with
  | [] => []
  | c :: r => if f c then mismatches f (S i) r else i :: mismatches f (S i) r
  end.

(* a model-vs-implementation case: flat inputs and what the implementation returned *)
Definition mcase : Type := (list Q * res)%type.
Definition agrees (tol : Q) (run : list Q -> res) (c : mcase) : bool :=
  res_close tol (run (fst c)) (snd c).
Definition run_cases (tol : Q) (run : list Q -> res) (cs : list mcase) : nat * list nat :=
  (length cs, mismatches (agrees tol run) 0 cs).

(* decoding helpers for flat arguments *)
Definition qnat (q : Q) : nat := Z.to_nat (Qfloor q).
Definition qZ (q : Q) : Z := Qfloor q.
Definition qbool (q : Q) : bool := negb (Qeq_bool q 0).
Definition natQ (n : nat) : Q := inject_Z (Z.of_nat n).
Definition boolQ (b : bool) : Q := if b then 1 else 0.

(* boolean comparisons used by models (strict / non-strict) *)
Definition Qltb (a b : Q) : bool := negb (Qle_bool b a).
Definition Qleb (a b : Q) : bool := Qle_bool a b.
Definition Qeqb (a b : Q) : bool := Qeq_bool a b.

Fixpoint sumQ (l : list Q) : Q :=
  match l with [] => 0 | x :: r => x + sumQ r end.

(* reduced running sum: same value as sumQ (Proofs/FlatFacts.v), small numerals when executed *)
Fixpoint sumQ_red_from (acc : Q) (l : list Q) : Q :=
  match l with [] => acc | x :: r => sumQ_red_from (Qred (acc + x)) r end.
Definition sumQ_red (l : list Q) : Q := sumQ_red_from 0 l.

(* split a flat list: first n elements and the rest *)
Definition take_drop (n : nat) (l : list Q) : list Q * list Q := (firstn n l, skipn n l).
