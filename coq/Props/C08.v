(* Props/C08.v - A run is a pure function of its input; runs do not contaminate each other.
   Only statements; every proof is [exact <lemma>] from Proofs/.
   Model: Model/Process.v (cwd, argv, files, clients with their path-keyed cache; GEOPHIRESv3.main, the client,
   the command-line entry point) and Model/Memo.v (functools.lru_cache).  [run : C -> option R] is the
   simulation on a file content (None = it raises), [hash] is hash(file path); both arbitrary.
   A history is any list of operations (requests through any client, file writes/deletes, chdir, argv
   assignments, new clients with caching on or off, command-line runs), of any length, from any state. *)
From Coq Require Import List ZArith NArith Bool Arith String.
From Verif Require Import Model.Process Model.Memo Gen.C08MemoTable Gen.C08StateTable Proofs.ProcessProofs Proofs.MemoProofs.
Import ListNotations.

(* RESTORE, current GEOPHIRES client (restore in `finally`) and the HIP-RA-X / HIP-RA clients: after EVERY request -
   served from the cache, run successfully, or failed - cwd and argv are what they were before it; for every
   history, every starting state, any path resolution. *)
Theorem C08_restore :
  forall (C R : Type) (run : C -> option R) (hash : nat -> Z) (resolve : dir -> nat -> nat) (opendir : dir -> dir -> dir)
         (runh : nat -> C -> option R)
         (K : Type) (keq : K -> K -> bool) (keyof : nat -> option C -> K) (ops : list (op C)) (st : state C R K),
  Forall (fun e => is_client_run C (eop e) = true ->
                   cwd (after e) = cwd (before e) /\ argv (after e) = argv (before e))
         (trace C R run hash resolve opendir runh K keq keyof true st ops).
Proof. exact trace_restore. Qed.
Print Assumptions C08_restore.

(* hence a whole history of requests, file edits and new clients ends where it started *)
Theorem C08_restore_history :
  forall (C R : Type) (run : C -> option R) (hash : nat -> Z) (resolve : dir -> nat -> nat) (opendir : dir -> dir -> dir)
         (runh : nat -> C -> option R)
         (K : Type) (keq : K -> K -> bool) (keyof : nat -> option C -> K) (ops : list (op C)) (st : state C R K),
  forallb (only_runs_and_files C) ops = true ->
  cwd (final C R run hash resolve opendir runh K keq keyof true st ops) = cwd st
  /\ argv (final C R run hash resolve opendir runh K keq keyof true st ops) = argv st.
Proof. exact final_restore. Qed.
Print Assumptions C08_restore_history.

(* The client of the PINNED tree (restore only after a successful run) refutes the clause: one failing request
   leaves the caller in the source directory with sys.argv = ['', <input>, <output>]. *)
Theorem C08_restore_pinned_refuted :
  exists e, In e (ptrace (plain_cfg [0]) false (DUser 0) [AUser 0; AUser 1] [NewClient true; Get 0 7])
            /\ is_get (eop e) = true
            /\ cwd (after e) = DSrc /\ cwd (before e) = DUser 0
            /\ argv (after e) = [AEmpty; AIn 7; AOut 7%Z] /\ argv (before e) = [AUser 0; AUser 1].
Proof. exact restore_pinned_refuted. Qed.
Print Assumptions C08_restore_pinned_refuted.

(* what the pinned client does guarantee: restore after every request that does not raise *)
Theorem C08_restore_pinned_partial :
  forall (C R : Type) (run : C -> option R) (hash : nat -> Z) (resolve : dir -> nat -> nat) (opendir : dir -> dir -> dir)
         (runh : nat -> C -> option R)
         (K : Type) (keq : K -> K -> bool) (keyof : nat -> option C -> K) (ops : list (op C)) (st : state C R K),
  Forall (fun e => is_get (eop e) = true -> eout e <> Raised ->
                   cwd (after e) = cwd (before e) /\ argv (after e) = argv (before e))
         (trace C R run hash resolve opendir runh K keq keyof false st ops).
Proof. exact trace_restore_pinned_partial. Qed.
Print Assumptions C08_restore_pinned_partial.

(* HIP-RA-X / HIP-RA clients (no cache, restore in `finally`): a request leaves the WHOLE state as it was *)
Theorem C08_hip_frame :
  forall (C R : Type) (run : C -> option R) (hash : nat -> Z) (resolve : dir -> nat -> nat) (opendir : dir -> dir -> dir)
         (runh : nat -> C -> option R)
         (K : Type) (keq : K -> K -> bool) (keyof : nat -> option C -> K) (fixed : bool) (ops : list (op C)) (st : state C R K),
  Forall (fun e => forall k p, eop e = HipGet k p -> after e = before e) (trace C R run hash resolve opendir runh K keq keyof fixed st ops).
Proof. exact trace_hip_frame. Qed.
Print Assumptions C08_hip_frame.

(* command-line entry point (restore in `finally`): cwd is given back whether main() returns or raises, and the
   argument list it was started with is still in place *)
Theorem C08_cli_restore :
  forall (C R : Type) (run : C -> option R) (hash : nat -> Z) (resolve : dir -> nat -> nat) (opendir : dir -> dir -> dir)
         (runh : nat -> C -> option R)
         (K : Type) (keq : K -> K -> bool) (keyof : nat -> option C -> K) (fixed : bool) (ops : list (op C)) (st : state C R K),
  Forall (fun e => forall p, eop e = Cli p ->
                   cwd (after e) = cwd (before e) /\ argv (after e) = [AUser 0; AIn p; AOut (hash p)])
         (trace C R run hash resolve opendir runh K keq keyof fixed st ops).
Proof. exact trace_cli_restore. Qed.
Print Assumptions C08_cli_restore.

(* MONTE-CARLO WORK PACKAGE embedded in the process (any number of iterations, from ANY state - other clients with
   anything cached, any files, any cwd/argv): every iteration writes its input file p (absolute), asks a NEW client,
   deletes the file.  At the end cwd and argv are unchanged, the clients that existed before are untouched, and the
   results of the embedded requests are, in order, the run of the iteration content (a failure when it does not run) *)
Theorem C08_mc_package :
  forall (C R : Type) (run : C -> option R) (hash : nat -> Z) (resolve : dir -> nat -> nat) (opendir : dir -> dir -> dir)
         (runh : nat -> C -> option R)
         (K : Type) (keq : K -> K -> bool) (keyof : nat -> option C -> K) (ps : list nat) (st : state C R K) (c : C),
  (forall p, In p ps -> forall d, resolve d p = p) ->
  let st' := final C R run hash resolve opendir runh K keq keyof true st (mc_package (List.length (clients st)) ps c) in
  cwd st' = cwd st /\ argv st' = argv st
  /\ firstn (List.length (clients st)) (clients st') = clients st
  /\ filter (fun o => match o with Done => false | _ => true end)
            (map (@eout C R K) (trace C R run hash resolve opendir runh K keq keyof true st (mc_package (List.length (clients st)) ps c)))
     = repeat (match run c with Some r => Returned r false | None => Raised end) (List.length ps).
Proof. exact mc_package_spec. Qed.
Print Assumptions C08_mc_package.

(* NO CONTAMINATION in the model: a request changes nothing but the cache of the client it went through *)
Theorem C08_get_frame :
  forall (C R : Type) (run : C -> option R) (hash : nat -> Z) (resolve : dir -> nat -> nat) (opendir : dir -> dir -> dir)
         (K : Type) (keq : K -> K -> bool) (keyof : nat -> option C -> K) (st : state C R K) (ci p : nat),
  let st' := fst (client_get C R run hash resolve opendir K keq keyof true st ci p) in
  cwd st' = cwd st /\ argv st' = argv st /\ files st' = files st
  /\ List.length (clients st') = List.length (clients st)
  /\ forall j, j <> ci -> nth_error (clients st') j = nth_error (clients st) j.
Proof. exact get_frame. Qed.
Print Assumptions C08_get_frame.

(* REFINEMENT clause "a client never returns a result computed from input content different from the request":
   the request is the file its path names FOR THE CALLER at request time.  The current clients open the request
   path in the caller's directory ([caller_opendir]; repaired by fa4a753).
   REFUTED by the path-keyed cache, for the pinned and the current client alike:
   (1) write c0, request, write c1, request again on the same caching client -> the run of c0 comes back although
       the file holds c1; *)
Theorem C08_cache_refines_run_refuted :
  forall fixed, exists e p r h,
    In e (ptrace (plain_cfg [0; 1]) fixed (DUser 0) [] [NewClient true; Write 0 0; Get 0 0; Write 0 1; Get 0 0])
    /\ eop e = Get 0 p /\ eout e = Returned r h
    /\ expected nat nat (crun [0; 1]) (files (before e)) p = Some 1 /\ r = 0.
Proof. exact cache_refines_refuted. Qed.
Print Assumptions C08_cache_refines_run_refuted.

(* (2) the key is the path AS GIVEN: the same RELATIVE name (100 = file 60 in directory 0, file 61 in directory 1)
       requested from two directories through one caching client is served from the cache in the second one. *)
Theorem C08_cache_relative_shared_refuted :
  forall fixed, exists e r h,
    In e (ptrace rel2_cfg fixed (DUser 0) [] [NewClient true; Write 60 0; Write 61 1; Get 0 100; Chdir (DUser 1); Get 0 100])
    /\ eop e = Get 0 100 /\ eout e = Returned r h /\ cwd (before e) = DUser 1
    /\ expected nat nat (crun [0; 1]) (files (before e)) (cresolve (g_rt rel2_cfg) (cwd (before e)) 100) = Some 1
    /\ r = 0.
Proof. exact cache_relative_shared_refuted. Qed.
Print Assumptions C08_cache_relative_shared_refuted.

(* The clients of the PINNED tree (path passed on as given, main() chdirs to the program directory before opening it:
   [pinned_opendir]) refuted the clause even with caching off: the caller in directory 0 asks for name 100 (its
   file 60, content 0) and gets the run of the source directory's file 90 (content 1) - or a failure when no such
   file exists there. *)
Theorem C08_relative_request_refuted :
  forall fixed, exists e r h,
    In e (ptrace_with pinned_opendir rel_cfg fixed (DUser 0) [] [NewClient false; Write 60 0; Get 0 100])
    /\ eop e = Get 0 100 /\ eout e = Returned r h
    /\ expected nat nat (crun [0; 1]) (files (before e)) (cresolve (g_rt rel_cfg) (cwd (before e)) 100) = Some 0
    /\ r = 1.
Proof. exact relative_request_refuted. Qed.
Print Assumptions C08_relative_request_refuted.

(* PROVED for the current clients under the hypotheses the path-keyed cache needs: hash is injective on the requested
   paths [ps], they name the same file from every directory (true of absolute paths), and no file is written or
   deleted while a caching client holds a result under the key of a path naming it.  Then, for every history, every
   result returned (by a GEOPHIRES client, a HIP-RA client or the command line) is the run of the content the
   requested file has at request time. *)
Theorem C08_cache_refines_run_partial :
  forall (C R : Type) (run : C -> option R) (hash : nat -> Z) (resolve : dir -> nat -> nat) (runh : nat -> C -> option R) (ps : list nat) (fixed : bool),
  (forall p q, In p ps -> In q ps -> hash p = hash q -> p = q) ->
  (forall p, In p ps -> forall d, resolve d p = resolve DSrc p) ->
  forall (ops : list (op C)) (d : dir) (a : list arg) (f : fs C),
  (forall ci p, In (Get ci p) ops -> In p ps) ->
  Forall (fun e => forall w, wpath C (eop e) = Some w -> forall p, resolve DSrc p = w ->
                   forall cl, In cl (clients (before e)) -> caching cl = true ->
                   cache_lookup Z.eqb (hash p) (cache cl) = None)
         (trace C R run hash resolve caller_opendir runh Z Z.eqb (path_key hash) fixed (init d a f) ops) ->
  Forall (fun e => forall orc p r h, request C R run runh (eop e) = Some (orc, p) -> eout e = Returned r h ->
                   expected_with C R orc (files (before e)) (resolve (cwd (before e)) p) = Some r)
         (trace C R run hash resolve caller_opendir runh Z Z.eqb (path_key hash) fixed (init d a f) ops).
Proof. exact trace_refines_init. Qed.
Print Assumptions C08_cache_refines_run_partial.

(* with caching off the clause holds for the current clients with NO hypothesis: any hash, any paths (relative
   ones from changing directories included), files rewritten at will *)
Theorem C08_nocache_refines_run :
  forall (C R : Type) (run : C -> option R) (hash : nat -> Z) (resolve : dir -> nat -> nat) (runh : nat -> C -> option R)
         (K : Type) (keq : K -> K -> bool) (keyof : nat -> option C -> K) (fixed : bool) (ops : list (op C)) (st : state C R K),
  (forall cl, In cl (clients st) -> caching cl = false) ->
  (forall b, In (NewClient b) ops -> b = false) ->
  Forall (fun e => forall orc p r h, request C R run runh (eop e) = Some (orc, p) -> eout e = Returned r h ->
                   expected_with C R orc (files (before e)) (resolve (cwd (before e)) p) = Some r)
         (trace C R run hash resolve caller_opendir runh K keq keyof fixed st ops).
Proof. exact trace_refines_nocache_current. Qed.
Print Assumptions C08_nocache_refines_run.

(* the same with the clients of the pinned tree, or any other way of opening the path ([opendir] arbitrary), needs the
   path hypothesis "the request path names the same file for the caller and for the program" ... *)
Theorem C08_nocache_refines_run_any_opendir :
  forall (C R : Type) (run : C -> option R) (hash : nat -> Z) (resolve : dir -> nat -> nat) (opendir : dir -> dir -> dir)
         (runh : nat -> C -> option R)
         (K : Type) (keq : K -> K -> bool) (keyof : nat -> option C -> K) (fixed : bool) (ops : list (op C)) (st : state C R K),
  (forall cl, In cl (clients st) -> caching cl = false) ->
  (forall b, In (NewClient b) ops -> b = false) ->
  Forall (fun e => (forall ci p, eop e = Get ci p -> resolve (cwd (before e)) p = resolve (opendir DSrc (cwd (before e))) p)
                   /\ (forall k p, eop e = HipGet k p -> resolve (cwd (before e)) p = resolve (opendir (DPkg k) (cwd (before e))) p))
         (trace C R run hash resolve opendir runh K keq keyof fixed st ops) ->
  Forall (fun e => forall orc p r h, request C R run runh (eop e) = Some (orc, p) -> eout e = Returned r h ->
                   expected_with C R orc (files (before e)) (resolve (cwd (before e)) p) = Some r)
         (trace C R run hash resolve opendir runh K keq keyof fixed st ops).
Proof. exact trace_refines_nocache. Qed.
Print Assumptions C08_nocache_refines_run_any_opendir.

(* ... which absolute paths satisfy in every history, whatever the clients do *)
Theorem C08_absolute_paths_resolve_same :
  forall (C R : Type) (run : C -> option R) (hash : nat -> Z) (resolve : dir -> nat -> nat) (opendir : dir -> dir -> dir)
         (runh : nat -> C -> option R)
         (K : Type) (keq : K -> K -> bool) (keyof : nat -> option C -> K) (fixed : bool),
  (forall d p, resolve d p = p) -> forall (ops : list (op C)) (st : state C R K),
  Forall (fun e => (forall ci p, eop e = Get ci p -> resolve (cwd (before e)) p = resolve (opendir DSrc (cwd (before e))) p)
                   /\ (forall k p, eop e = HipGet k p -> resolve (cwd (before e)) p = resolve (opendir (DPkg k) (cwd (before e))) p))
         (trace C R run hash resolve opendir runh K keq keyof fixed st ops).
Proof. exact absolute_resolves_same. Qed.
Print Assumptions C08_absolute_paths_resolve_same.

(* ... and which opening the path in the caller's directory (the repair fa4a753) satisfies for any paths *)
Theorem C08_caller_dir_resolves_same :
  forall (C R : Type) (run : C -> option R) (hash : nat -> Z) (resolve : dir -> nat -> nat) (opendir : dir -> dir -> dir)
         (runh : nat -> C -> option R)
         (K : Type) (keq : K -> K -> bool) (keyof : nat -> option C -> K) (fixed : bool),
  (forall pkg d, opendir pkg d = d) -> forall (ops : list (op C)) (st : state C R K),
  Forall (fun e => (forall ci p, eop e = Get ci p -> resolve (cwd (before e)) p = resolve (opendir DSrc (cwd (before e))) p)
                   /\ (forall k p, eop e = HipGet k p -> resolve (cwd (before e)) p = resolve (opendir (DPkg k) (cwd (before e))) p))
         (trace C R run hash resolve opendir runh K keq keyof fixed st ops).
Proof. exact caller_dir_resolves_same. Qed.
Print Assumptions C08_caller_dir_resolves_same.

(* THE REPAIR of the cache: a key that determines the run - e.g. the path hash TOGETHER WITH the content of the
   file at request time - satisfies the clause for every history of the current clients with no further hypothesis:
   files rewritten at will, any hash, relative paths from changing directories *)
Theorem C08_sound_key_refines_run :
  forall (C R : Type) (run : C -> option R) (hash : nat -> Z) (resolve : dir -> nat -> nat) (runh : nat -> C -> option R)
         (K : Type) (keq : K -> K -> bool) (keyof : nat -> option C -> K) (fixed : bool),
  (forall p c p' c', keq (keyof p c) (keyof p' c') = true ->
                     match c with Some x => run x | None => None end = match c' with Some x => run x | None => None end) ->
  forall (ops : list (op C)) (d : dir) (a : list arg) (f : fs C),
  Forall (fun e => forall orc p r h, request C R run runh (eop e) = Some (orc, p) -> eout e = Returned r h ->
                   expected_with C R orc (files (before e)) (resolve (cwd (before e)) p) = Some r)
         (trace C R run hash resolve caller_opendir runh K keq keyof fixed (init d a f) ops).
Proof. exact trace_refines_sound_key_current. Qed.
Print Assumptions C08_sound_key_refines_run.

Theorem C08_content_key_refines_run :
  forall (C R : Type) (run : C -> option R) (hash : nat -> Z) (resolve : dir -> nat -> nat) (runh : nat -> C -> option R) (ceq : C -> C -> bool) (fixed : bool),
  (forall a b, ceq a b = true -> a = b) ->
  forall (ops : list (op C)) (d : dir) (a : list arg) (f : fs C),
  Forall (fun e => forall orc p r h, request C R run runh (eop e) = Some (orc, p) -> eout e = Returned r h ->
                   expected_with C R orc (files (before e)) (resolve (cwd (before e)) p) = Some r)
         (trace C R run hash resolve caller_opendir runh (Z * option C) (content_keq ceq) (content_key hash) fixed (init d a f) ops).
Proof. exact trace_refines_content_key_caller. Qed.
Print Assumptions C08_content_key_refines_run.

(* PURE FUNCTION OF THE INPUT: two requests to the same program, anywhere in any two safe histories (different
   lengths, clients, working directories, argv, other files), whose files hold the same content return the same
   result. *)
Theorem C08_result_function_of_content :
  forall (C R : Type) (run : C -> option R) (hash : nat -> Z) (resolve : dir -> nat -> nat) (runh : nat -> C -> option R) fixed1 fixed2 ps1 ps2 (st1 st2 : state C R Z) ops1 ops2
         e1 e2 orc p1 p2 r1 r2 h1 h2,
  safe_history C R run hash resolve runh fixed1 ps1 st1 ops1 -> safe_history C R run hash resolve runh fixed2 ps2 st2 ops2 ->
  In e1 (trace C R run hash resolve caller_opendir runh Z Z.eqb (path_key hash) fixed1 st1 ops1) -> In e2 (trace C R run hash resolve caller_opendir runh Z Z.eqb (path_key hash) fixed2 st2 ops2) ->
  request C R run runh (eop e1) = Some (orc, p1) -> request C R run runh (eop e2) = Some (orc, p2) ->
  eout e1 = Returned r1 h1 -> eout e2 = Returned r2 h2 ->
  fs_lookup (resolve (cwd (before e1)) p1) (files (before e1))
    = fs_lookup (resolve (cwd (before e2)) p2) (files (before e2)) ->
  r1 = r2.
Proof. exact result_function_of_content. Qed.
Print Assumptions C08_result_function_of_content.

(* MEMO TABLES (functools.lru_cache), any maxsize, any sequence of calls: memoising a function that does not
   distinguish arguments Python's key equality identifies returns exactly what the function returns. *)
Theorem C08_memo_pure :
  forall (K V : Type) (keq : K -> K -> bool) (f : K -> V) (m : option nat) (xs : list K),
  (forall a b, keq a b = true -> f a = f b) ->
  map fst (fst (memo_calls keq f m [] xs)) = map f xs.
Proof. exact memo_pure. Qed.
Print Assumptions C08_memo_pure.

(* identity-keyed tables (Reservoir.Calculate(self, model)): objects with pairwise distinct identities never hit,
   so each call runs the body on its own object's state - even though the body is not a function of the key *)
Theorem C08_identity_memo_never_hits :
  forall (S V : Type) (body : S -> V) (m : option nat) (calls : list (nat * S)),
  NoDup (map fst calls) -> id_calls body m calls = map (fun c => (body (snd c), false)) calls.
Proof. exact @identity_memo_never_hits. Qed.
Print Assumptions C08_identity_memo_never_hits.

(* every memoised callable of the current source tree (Gen/C08MemoTable.v, regenerated on each run) is of one of
   these two transparent kinds *)
Theorem C08_memo_table_ok : forall e, In e c08_memo_table -> entry_ok e = true.
Proof. exact memo_table_ok_forall. Qed.
Print Assumptions C08_memo_table_ok.

(* STATE THAT OUTLIVES A RUN, beyond lru_cache (Gen/C08StateTable.v, regenerated from the source on each run):
   no Parameter construction takes its DefaultValue / value from an object shared between runs (a module- or
   class-level container, or a construction executed at import) ... *)
Theorem C08_param_defaults_fresh :
  forall d, In d c08_param_defaults -> pd_kind d <> DShared /\ pd_kind d <> DOther.
Proof. exact param_defaults_fresh_forall. Qed.
Print Assumptions C08_param_defaults_fresh.

(* ... and every container created at import, mutable default argument or `global` name that the source writes to is
   a guarded get-or-create memo / initialise-once singleton; every setting of the interpreter or of an imported library
   that the package writes (mp.dps, np.seterr, os.environ, os.chdir ...) is written by EVERY run, in its entry point,
   to an input-independent value (se_keyed_memo is the table's "harmless" flag) *)
Theorem C08_state_table_ok :
  forall e, In e c08_state_table -> se_mutated e = true -> se_keyed_memo e = true.
Proof. exact state_table_ok_forall. Qed.
Print Assumptions C08_state_table_ok.

(* HASH-SEED INDEPENDENCE of iteration orders (same generated file): every loop / comprehension of the source over a dict
   view or a set expression is listed, and none walks a set *)
Theorem C08_iteration_order_table_ok : forall i, In i c08_iterations -> it_kind i <> ISet.
Proof. exact iterations_ok_forall. Qed.
Print Assumptions C08_iteration_order_table_ok.

(* the verdicts on the implementation's observations are computed by these checkers; they are sound *)
Theorem C08_checkers_sound :
  forall fixed g d a ops os,
  session_check fixed g d a ops os = [] ->
  steps_ok g (g_files g) (ptrace g fixed d a ops) os.
Proof. exact session_check_sound. Qed.
Print Assumptions C08_checkers_sound.

Theorem C08_restore_checker_sound :
  forall o b, check_restore_step o b = true -> is_run o = true ->
  o_cwd_after b = o_cwd_before b /\ o_argv_after b = o_argv_before b.
Proof. exact check_restore_step_sound. Qed.
Print Assumptions C08_restore_checker_sound.

Theorem C08_refines_checker_sound :
  forall g f o b orc p, check_refines_step g f o b = true -> request_of g o = Some (orc, p) ->
  (forall r h, o_out b = Returned r h ->
     expected_with nat nat orc f (cresolve (g_rt g) (o_cwd_before b) p) = Some r)
  /\ (o_out b = Raised -> expected_with nat nat orc f (cresolve (g_rt g) (o_cwd_before b) p) = None).
Proof. exact check_refines_step_sound. Qed.
Print Assumptions C08_refines_checker_sound.

(* ---------- non-vacuity ---------- *)

(* a history with failing and successful requests (GEOPHIRES and HIP-RA) on which the restore theorem speaks *)
Example C08_restore_example :
  let g := mkCfg [0] [(1, 2)] [] [] in
  List.length (filter (fun e => is_client_run nat (eop e))
            (ptrace g true (DUser 3) [AUser 0]
               [NewClient true; Get 0 7; Write 1 0; Get 0 1; Get 0 1; Write 2 2; HipGet 1 2; HipGet 2 2])) = 5
  /\ map (@eout nat nat Z) (ptrace g true (DUser 3) [AUser 0] [Write 2 2; HipGet 1 2; HipGet 2 2; HipGet 1 9])
     = [Done; Returned (hipres 1 2) false; Raised; Raised].
Proof. split; vm_compute; reflexivity. Qed.

(* the hypotheses of the partial refinement theorem are satisfiable by a history that rewrites files (before they
   are cached, and other files afterwards), changes directory, and returns results *)
Example C08_refines_example :
  let ops := [NewClient true; Write 0 0; Write 0 1; Get 0 0; Chdir (DUser 2); Write 1 0; Get 0 1; Get 0 0] in
  let t := ptrace (plain_cfg [0; 1]) true DSrc [] ops in
  (forall p q, In p [0; 1] -> In q [0; 1] -> chash p = chash q -> p = q)
  /\ (forall ci p, In (Get ci p) ops -> In p [0; 1])
  /\ Forall (fun e => forall w, wpath nat (eop e) = Some w -> forall p, cresolve [] DSrc p = w ->
                      forall cl, In cl (clients (before e)) -> caching cl = true ->
                      cache_lookup Z.eqb (chash p) (cache cl) = None) t
  /\ (forall p, In p [0; 1] -> forall d, cresolve [] d p = cresolve [] DSrc p)
  /\ map (@eout nat nat Z) t = [Done; Done; Done; Returned 1 false; Done; Done; Returned 0 false; Returned 1 true].
Proof.
  simpl. split; [|split; [|split; [|split]]].
  - intros p q _ _ H. apply Nat2Z.inj. exact H.
  - intros ci p H. repeat (destruct H as [H|H]; [inversion H; subst; simpl; auto|]). destruct H.
  - vm_compute. repeat (apply Forall_cons; [|]); try apply Forall_nil; intros w H; try discriminate H;
      inversion H; subst; intros p Hp; subst; intros cl Hcl;
      repeat (destruct Hcl as [Hcl|Hcl]; [subst cl; intros _; reflexivity|]); destruct Hcl.
  - reflexivity.
  - vm_compute. reflexivity.
Qed.

(* relative names with the current clients and caching off: each request runs the file the name has in the caller's
   directory of the moment (source directory: file 90 = content 1; directory 0: file 60 = content 0) *)
Example C08_relative_example :
  map (@eout nat nat Z) (ptrace rel_cfg true DSrc [] [NewClient false; Get 0 100; Chdir (DUser 0); Write 60 0; Get 0 100])
  = [Done; Returned 1 false; Done; Done; Returned 0 false]
  /\ map (@eout nat nat Z) (ptrace_with pinned_opendir rel_cfg true DSrc []
                             [NewClient false; Get 0 100; Chdir (DUser 0); Write 60 0; Get 0 100])
     = [Done; Returned 1 false; Done; Done; Returned 1 false].
Proof. split; vm_compute; reflexivity. Qed.

(* with the content-keyed cache on top, relative names and rewritten files: every result is the caller's content *)
Example C08_repairs_example :
  map (@eout nat nat (Z * option nat))
      (ctrace_with caller_opendir rel_cfg true (DUser 0) []
         [NewClient true; Write 60 0; Get 0 100; Write 60 1; Get 0 100; Chdir DSrc; Get 0 100])
  = [Done; Done; Returned 0 false; Done; Returned 1 false; Done; Returned 1 true].
Proof. vm_compute. reflexivity. Qed.

(* the repaired (content-keyed) client on the stale witness: the second request runs the new content *)
Example C08_content_key_example :
  (forall a b, Nat.eqb a b = true -> a = b)
  /\ map (@eout nat nat (Z * option nat))
         (ctrace (plain_cfg [0; 1]) true (DUser 0) []
            [NewClient true; Write 0 0; Get 0 0; Write 0 1; Get 0 0; Write 0 0; Get 0 0])
     = [Done; Done; Returned 0 false; Done; Returned 1 false; Done; Returned 0 true].
Proof. split; [intros a b H; now apply Nat.eqb_eq|vm_compute; reflexivity]. Qed.

(* a function that respects key equality although the keys are not identical (1 == 1.0 in Python) *)
Example C08_memo_example :
  let keq := fun a b : nat * bool => Nat.eqb (fst a) (fst b) in
  (forall a b, keq a b = true -> fst a = fst b)
  /\ fst (memo_calls keq fst (Some 2) [] [(1, true); (2, true); (1, false); (3, true); (2, true)])
     = [(1, false); (2, false); (1, true); (3, false); (2, false)].
Proof. split; [intros a b H; now apply Nat.eqb_eq|vm_compute; reflexivity]. Qed.

(* distinct identities, different states *)
Example C08_identity_example :
  NoDup (map fst [(5, 10); (6, 10); (7, 30)])
  /\ id_calls (fun s : nat => s) (Some 2) [(5, 10); (6, 10); (7, 30)] = [(10, false); (10, false); (30, false)].
Proof. split; [repeat constructor; simpl; intuition discriminate|vm_compute; reflexivity]. Qed.

(* the generated table is not empty and contains both kinds *)
Example C08_memo_table_example :
  existsb (fun e => match me_kind e with ValueKeyed => true | _ => false end) c08_memo_table = true
  /\ existsb (fun e => match me_kind e with IdentityKeyed _ => true | _ => false end) c08_memo_table = true.
Proof. split; vm_compute; reflexivity. Qed.

Example C08_iteration_table_example :
  c08_iterations <> [] /\ existsb iteration_ok c08_iterations = true.
Proof. split; [discriminate|vm_compute; reflexivity]. Qed.

(* a work package of three iterations after ordinary requests, next to a client that holds a (stale) entry *)
Example C08_mc_package_example :
  map (@eout nat nat Z)
      (ptrace (plain_cfg [0; 1]) true (DUser 1) [AUser 0]
         ([NewClient true; Write 0 0; Get 0 0; Write 0 1] ++ mc_package 1 [5; 6; 7] 1 ++ [Get 0 0; Get 2 6]))
  = [Done; Done; Returned 0 false; Done;
     Done; Done; Returned 1 false; Done; Done; Done; Returned 1 false; Done; Done; Done; Returned 1 false; Done;
     Returned 0 true; Returned 1 true].   (* the last two are hits of the path-keyed cache: file 0 was rewritten, file 6 deleted *)
Proof. vm_compute. reflexivity. Qed.

(* the generated tables are not empty *)
Example C08_state_table_example :
  c08_param_defaults <> [] /\ existsb default_ok c08_param_defaults = true
  /\ existsb (fun d => match pd_kind d with DFresh => true | _ => false end) c08_param_defaults = true.
Proof. split; [discriminate|split; vm_compute; reflexivity]. Qed.

(* the session checker accepts a faithful observation of the stale witness only with the STALE code at step 4 *)
Example C08_checker_example :
  session_check true (plain_cfg [0; 1]) (DUser 0) [AUser 0]
    [NewClient true; Write 0 0; Get 0 0; Write 0 1; Get 0 0]
    [mkObs (DUser 0) [AUser 0] (DUser 0) [AUser 0] Done; mkObs (DUser 0) [AUser 0] (DUser 0) [AUser 0] Done;
     mkObs (DUser 0) [AUser 0] (DUser 0) [AUser 0] (Returned 0 false);
     mkObs (DUser 0) [AUser 0] (DUser 0) [AUser 0] Done;
     mkObs (DUser 0) [AUser 0] (DUser 0) [AUser 0] (Returned 0 true)] = [44%N].
Proof. vm_compute. reflexivity. Qed.
