(* Props/C10.v - The client returns exactly what the report says.
   Only statements; every proof is [exact <lemma>] from Proofs/.  The model is Model/ResultParser.v
   (GeophiresXResult of geophires_x_client/geophires_x_result.py); set.pop() is modelled as an arbitrary
   choice [k] among the distinct matching lines. *)
From Coq Require Import String Ascii List ZArith QArith Qabs Bool PeanoNat.
From Verif Require Import Base.Flat Model.ResultParser Model.ResultParserFast Model.ResultHistory Proofs.ResultHistoryProofs Proofs.ResultParserProofs Proofs.ResultParserProofs2
     Proofs.ResultParserFastProofs Proofs.ResultParserTableProofs
     Gen.C10Fields Gen.C10Labels.
Import ListNotations.
Open Scope string_scope.

(* ---- a printed scalar line is read back: number and unit, whatever the widths ----------------------------
   For EVERY label, every indentation and padding (so also a value that overflows its column and leaves a
   single blank), every blank-free value token (negative, huge, 1,234.5, N/A ...), every blank-free unit and
   every trailing blank text: the client's value is _parse_number of exactly that token and its unit exactly
   that unit.  Side conditions: the label does not start with a blank, label+':' does not occur again in the
   value region, and label and value are at least two blanks apart in total (indentation + padding). *)
Theorem C10_roundtrip_unit :
  forall name tok unit trail indent pad,
  head_not_space name ->
  ws_free tok = true -> tok <> "" -> ws_free unit = true -> unit <> "" -> all_ws trail = true ->
  (2 <= indent + pad)%nat ->
  contains (name ++ ":") (spaces pad ++ (tok ++ " " ++ unit) ++ trail) = false ->
  field_of_line name false (render_scalar indent name pad tok (Some unit) trail)
  = MR (parse_number tok) (Some unit).
Proof. exact roundtrip_unit. Qed.
Print Assumptions C10_roundtrip_unit.

(* a line without unit: the unit is "count" exactly for labels starting with "Number", nothing otherwise *)
Theorem C10_roundtrip_bare :
  forall name tok trail indent pad,
  head_not_space name ->
  ws_free tok = true -> tok <> "" -> all_ws trail = true ->
  (2 <= indent + pad)%nat ->
  contains (name ++ ":") (spaces pad ++ tok ++ trail) = false ->
  field_of_line name false (render_scalar indent name pad tok None trail)
  = MR (parse_number tok) (if prefixb "Number" name then Some "count" else None).
Proof. exact roundtrip_bare. Qed.
Print Assumptions C10_roundtrip_bare.

(* the field's marker finds the printed line at every indentation >= the client's minimum *)
Theorem C10_line_is_found :
  forall name tok trail indent pad u k,
  (1 <= pad)%nat ->
  contains (field_marker indent name) (render_scalar (k + indent) name pad tok u trail) = true.
Proof. exact marker_finds_line. Qed.
Print Assumptions C10_line_is_found.

(* ---- the same structure on every invocation (all hash seeds) ------------------------------------------------
   Full clause: "the result does not depend on which matching line set.pop() returns".  The model refutes it:
   two lines with one label and different content (what the writers print when the display unit of a quantity
   shown in two sections is changed) give two different answers. *)
Theorem C10_deterministic_refuted :
  exists name lines k1 k2 r1 r2,
    get_result_field k1 name false 4 lines = Some r1 /\
    get_result_field k2 name false 4 lines = Some r2 /\ r1 <> r2.
Proof. exact choice_matters. Qed.
Print Assumptions C10_deterministic_refuted.

(* Proved part: if every line carrying the label prints the same token and unit (any indentation, padding and
   trailing blanks, e.g. the SUMMARY and the ENGINEERING copy of "Well depth"), every choice gives that value,
   for every report (list of lines) of every length. *)
Theorem C10_deterministic_partial :
  forall name indent lines tok unit,
  head_not_space name -> ws_free tok = true -> tok <> "" -> ws_free unit = true -> unit <> "" ->
  (forall l, In l lines -> contains (field_marker indent name) l = true ->
     exists ind pad trail, all_ws trail = true /\ (2 <= ind + pad)%nat /\
       contains (name ++ ":") (spaces pad ++ (tok ++ " " ++ unit) ++ trail) = false /\
       l = render_scalar ind name pad tok (Some unit) trail) ->
  forall k x, get_result_field k name false indent lines = Some x -> x = MR (parse_number tok) (Some unit).
Proof. exact same_print_same_answer. Qed.
Print Assumptions C10_deterministic_partial.

(* the client's own test for "same value" (equality after collapsing blank runs) does not imply equal answers *)
Theorem C10_ws_equal_is_not_enough :
  exists a b, normalize_ws a = normalize_ws b /\ field_of_line "X" false a <> field_of_line "X" false b.
Proof. exact ws_equal_lines_may_parse_differently. Qed.
Print Assumptions C10_ws_equal_is_not_enough.

(* a result exists as soon as one line carries the label *)
Theorem C10_found_when_printed :
  forall name is_str indent lines l,
  In l lines -> contains (field_marker indent name) l = true ->
  exists x, get_result_field 0 name is_str indent lines = Some x.
Proof. exact some_choice. Qed.
Print Assumptions C10_found_when_printed.

(* ---- never a value from another line ------------------------------------------------------------------------
   Over the tables regenerated from the CURRENT sources (every field of _RESULT_FIELDS_BY_CATEGORY x every
   label any f.write of the five report writers can print): a field's marker occurs in the printed prefix of a
   line only if that line carries the field's own label, and in no banner / heading / note line at all. *)
Theorem C10_no_foreign_match :
  forall f l, In f C10Fields.fields -> In l C10Labels.writer_labels ->
  contains (marker_of f) (label_prefix l) = true -> own_label f l = true.
Proof. exact no_foreign_match_labels. Qed.
Print Assumptions C10_no_foreign_match.

Theorem C10_no_match_in_other_lines :
  forall f o, In f C10Fields.fields -> In o C10Labels.writer_other_lines -> contains (marker_of f) o = false.
Proof. exact no_match_in_other_lines. Qed.
Print Assumptions C10_no_match_in_other_lines.

(* the kernel check scans only the lines that have ": " or " = ": that loses no field *)
Theorem C10_prefilter_sound :
  forall f lines, candidates_of f (filter relevant_line lines) = candidates_of f lines.
Proof. exact candidates_prefilter. Qed.
Print Assumptions C10_prefilter_sound.

(* ---- profile tables: the same numbers in order, no row dropped, no column shifted ---------------------------
   For EVERY number of rows n >= 1 and columns m >= 1, every blank- and bar-free non-empty cell text, any
   separators made of blanks and '|' that keep a blank between two cells: the add-on style extraction
   (EXTENDED ECONOMIC, REVENUE & CASHFLOW, S-DAC-GT, CCUS profiles) returns exactly n rows, row i being
   _parse_number of the cells of printed row i in order. *)
Theorem C10_table :
  forall pre (rows : list row) m,
  List.length pre = 5%nat -> rows <> [] -> (1 <= m)%nat ->
  (forall r, In r rows -> row_ok r = true /\ List.length (snd r) = m) ->
  addons_rows (pre ++ map render rows) = Some (map (fun r => map parse_number (row_tokens r)) rows).
Proof. exact addons_rows_rendered. Qed.
Print Assumptions C10_table.

(* ---- csv export ---------------------------------------------------------------------------------------------
   field categories: exactly one row per field that has a value, carrying that value and unit *)
Theorem C10_csv_fields :
  forall (V : Type) cat (fs : list (string * option (V * option string))) r,
  In r (csv_fields cat fs) <->
  exists name v u, In (name, Some (v, u)) fs /\ r = CSV cat (escape_commas name) None v (unit_text u).
Proof. exact csv_fields_In. Qed.
Print Assumptions C10_csv_fields.

(* profile categories: for every number of columns and rows, the entry of column k (k-th title after the
   year) and data row j sits at position k*rows+j and carries the year of row j (its column 0), the cell
   (j, k+1) and the name / unit split of that title; the export has columns*rows entries *)
Theorem C10_csv_table :
  forall (V : Type) cat h0 (hs : list string) (rows : list (list V)) l,
  csv_table cat (h0 :: hs) rows = Some l ->
  List.length l = (List.length hs * List.length rows)%nat /\
  forall k h, nth_error hs k = Some h -> forall j r, nth_error rows j = Some r ->
    exists y v, nth_error r 0 = Some y /\ nth_error r (S k) = Some v /\
                nth_error l (k * List.length rows + j)
                = Some (CSV cat (fst (header_name_unit h)) (Some y) v (snd (header_name_unit h))).
Proof. exact csv_table_spec. Qed.
Print Assumptions C10_csv_table.

(* and it is defined whenever every row has a cell for every title (otherwise Python raises IndexError) *)
Theorem C10_csv_table_defined :
  forall (V : Type) cat h0 (hs : list string) (rows : list (list V)),
  (forall r, In r rows -> (List.length hs < List.length r)%nat) ->
  exists l, csv_table cat (h0 :: hs) rows = Some l.
Proof. exact csv_table_defined. Qed.
Print Assumptions C10_csv_table_defined.

(* ---- the .json next to the report: the reflective checker used on every run is sound ------------------------ *)
Theorem C10_json_rounds :
  forall q m e, rounds_to q m e = true ->
  (Qabs (q - mflt_Q m e) <= (1 # 2) * pow10Q e + float_tol * Qabs q)%Q.
Proof. exact rounds_to_sound. Qed.
Print Assumptions C10_json_rounds.

(* ---- equal-sign fields: "every printed label is found" is refuted by the line the writer prints for the
   BICYCLE model (two blanks before '='): the client reports no Economic Model for such a report ------------- *)
Theorem C10_equal_sign_label_found_refuted :
  exists lab v, strip lab = "Economic Model" /\
                eq_candidates "Economic Model" [spaces 6 ++ lab ++ " = " ++ v ++ NL] = [].
Proof. exact bicycle_line_not_found. Qed.
Print Assumptions C10_equal_sign_label_found_refuted.

(* Proved part: a line that prints the label followed by exactly " = " is read back as the text after the equal
   sign up to the end of the line, for every label, indentation >= 2 and value without a line break *)
Theorem C10_equal_sign_partial :
  forall name v n,
  head_not_space name ->
  all_chars (fun c => negb (Ascii.eqb c NLc)) v = true ->
  contains (eq_marker name) (v ++ NL) = false ->
  eq_of_line (eq_marker name) (spaces n ++ eq_marker name ++ v ++ NL) = MR (MStr v) None.
Proof. exact eq_roundtrip. Qed.
Print Assumptions C10_equal_sign_partial.

(* ---- rows of the HEATING / COOLING / ELECTRICITY production profiles ----------------------------------------
   For every number of rows, every row that starts with a blank, has >= 2 blank-free cells separated by blanks
   and nothing after the last cell: the rows come back in order, cell by cell, none dropped. *)
Theorem C10_profile_rows :
  forall (rows : list row),
  (forall r, In r rows -> prow_ok r = true /\ (2 <= List.length (snd r))%nat) ->
  data_rows (map render rows) = map (fun r => map parse_number (row_tokens r)) rows.
Proof. exact data_rows_rendered. Qed.
Print Assumptions C10_profile_rows.

(* ---- round 2 ------------------------------------------------------------------------------------------------
   _get_profile_lines: for every text  pre ++ banner ++ body ++ blank line ++ post  in which the banner first
   occurs after pre, does not occur again, and body has no empty line: the profile lines are exactly the lines of
   body (so the table ends at the first empty line and nothing of pre / post leaks in); no banner -> IndexError *)
Theorem C10_profile_lines :
  forall name pre body post,
  let banner := "*  " ++ name ++ "  *" in
  first_at banner pre (body ++ NL ++ NL ++ post) ->
  contains banner (body ++ NL ++ NL ++ post) = false ->
  first_at (NL ++ NL) body post ->
  get_profile_lines name (pre ++ banner ++ body ++ NL ++ NL ++ post) = Some (split_char NLc body).
Proof. exact profile_lines_found. Qed.
Print Assumptions C10_profile_lines.

Theorem C10_profile_lines_of_block :
  forall rest l, Forall (fun x => all_chars (fun c => negb (Ascii.eqb c NLc)) x = true) (l :: rest) ->
  split_char NLc (join_lines l rest) = l :: rest.
Proof. exact split_char_join. Qed.
Print Assumptions C10_profile_lines_of_block.

Theorem C10_profile_absent :
  forall name text, contains ("*  " ++ name ++ "  *") text = false -> get_profile_lines name text = None.
Proof. exact profile_lines_absent. Qed.
Print Assumptions C10_profile_absent.

(* header reconstruction of the production profiles: for every three (or more, or fewer) heading lines, whenever
   the reconstruction succeeds it yields exactly one title per word group of the FIRST heading line - the other
   lines only extend titles, they never add or drop a column *)
Theorem C10_header_count :
  forall h1 rest hs,
  header_lines 0 (h1 :: rest) [] = Some hs -> List.length hs = List.length (tl (resplit2 h1)).
Proof. exact header_count. Qed.
Print Assumptions C10_header_count.

(* the carbon revenue view: for every revenue table (any number of rows, any widths), when the view exists it is
   exactly the listed columns of every row, rows in order, and some carbon price is non-zero; when all carbon
   prices are zero there is no view *)
Theorem C10_carbon_view :
  forall cpi idx rows r,
  carbon_view cpi idx rows = Some (Some r) ->
  r = map (fun row => map (fun i => nth i row MNone) idx) rows /\ List.length r = List.length rows
  /\ existsb (fun row => mval_nonzero (nth cpi row MNone)) rows = true.
Proof. exact carbon_view_spec. Qed.
Print Assumptions C10_carbon_view.

Theorem C10_carbon_view_absent :
  forall cpi idx rows,
  (forall row, In row rows -> (cpi < List.length row)%nat) ->
  existsb (fun row => mval_nonzero (nth cpi row MNone)) rows = false ->
  carbon_view cpi idx rows = Some None.
Proof. exact carbon_view_absent. Qed.
Print Assumptions C10_carbon_view_absent.

(* _parse_number against the writers' fixed-point formats ({:w.pf}, {:,.pf}, {:w.0f}): for EVERY sign, every
   non-empty first digit group, every further ','-separated groups (thousands separators, any grouping) and every
   list of p decimals: the parsed figure is the integer (p = 0) resp. the decimal mantissa * 10^-p it spells *)
Theorem C10_number_integer :
  forall neg g gs, all_digits g = true -> forallb all_digits gs = true -> g <> [] ->
  parse_number (render_number neg g gs []) = MInt (sign_of neg * digits_val 0 (g ++ concat gs)).
Proof. exact parse_integer. Qed.
Print Assumptions C10_number_integer.

Theorem C10_number_decimal :
  forall neg g gs, all_digits g = true -> forallb all_digits gs = true -> g <> [] ->
  forall f fs, all_digits (f :: fs) = true ->
  parse_number (render_number neg g gs (f :: fs))
  = MFlt (sign_of neg * (digits_val 0 (g ++ concat gs) * 10 ^ Z.of_nat (List.length (f :: fs)) + digits_val 0 (f :: fs)))
         (- Z.of_nat (List.length (f :: fs))).
Proof. exact parse_decimal. Qed.
Print Assumptions C10_number_decimal.

Theorem C10_number_na : parse_number "N/A" = MNone.
Proof. exact parse_na. Qed.
Print Assumptions C10_number_na.

(* string-valued fields (End-Use Option, Power plant type, ...): for every label, widths and every value text that
   re.sub(r'\s\s+', '', .) leaves alone (e.g. words separated by single blanks: Proofs.solid_join), the value is
   that text, with unit None *)
Theorem C10_string_field :
  forall name indent pad v,
  head_not_space name -> (2 <= indent + pad)%nat ->
  contains (name ++ ":") (spaces pad ++ v ++ NL) = false ->
  solid v -> (exists c r, v = String c r /\ is_ws c = false) ->
  all_chars (fun c => negb (Ascii.eqb c NLc)) v = true ->
  field_of_line name true (spaces indent ++ name ++ ":" ++ spaces pad ++ v ++ NL) = MR (MStr v) None.
Proof. exact string_field_roundtrip. Qed.
Print Assumptions C10_string_field.

(* the harness hands a report to the kernel line by line: f.readlines() of the joined text gives back exactly those
   lines, each with its line break, for every number of lines *)
Theorem C10_readlines :
  forall ls, Forall (fun l => all_chars (fun c => negb (Ascii.eqb c NLc)) l = true) ls ->
  readlines (join_nl ls) = map (fun l => l ++ NL) ls.
Proof. exact readlines_join. Qed.
Print Assumptions C10_readlines.

(* the kernel check indexes every line once (texts in front of ": " / " = ", reversed) instead of scanning every
   line for every field: a marker m ++ sep matches a line iff reversed m starts one of the indexed texts, so the
   indexed check returns, for every report and every client answer, exactly what the plain model returns *)
Theorem C10_index_match :
  forall m sep l, existsb (prefixb (rev_str m)) (rev_prefixes sep "" l) = contains (m ++ sep) l.
Proof. exact fast_match_iff. Qed.
Print Assumptions C10_index_match.

Theorem C10_indexed_check_sound :
  forall t text raised r, check_report_fast t text raised r = check_report t text raised r.
Proof. exact check_report_fast_same. Qed.
Print Assumptions C10_indexed_check_sound.

(* ---- histories in one client process: report files are re-written and parsed again -------------------------
   The modelled GeophiresXResult is a function of the file's text: for EVERY history of Write / Parse operations
   over any number of paths, the answer to a Parse is the parse of the text the path holds at that moment, and two
   histories with the same writes (whatever was parsed before, however often) give the same answer. *)
Theorem C10_parse_after_history :
  forall (R : Type) (parse : string -> R) ops s p,
  nth_error (run parse s (ops ++ [Parse p])) (parses ops) = Some (option_map parse (lookup p (files_after s ops))).
Proof. exact parse_after_history. Qed.
Print Assumptions C10_parse_after_history.

Theorem C10_parse_is_function_of_text :
  forall (R : Type) (parse : string -> R) ops1 ops2 s p,
  filter is_write ops1 = filter is_write ops2 ->
  nth_error (run parse s (ops1 ++ [Parse p])) (parses ops1)
  = nth_error (run parse s (ops2 ++ [Parse p])) (parses ops2).
Proof. exact parse_is_function_of_text. Qed.
Print Assumptions C10_parse_is_function_of_text.

Theorem C10_rewritten_file_is_reparsed :
  forall (R : Type) (parse : string -> R) s p a b,
  run parse s [Write p a; Parse p; Write p b; Parse p] = [Some (parse a); Some (parse b)].
Proof. exact rewritten_file_is_reparsed. Qed.
Print Assumptions C10_rewritten_file_is_reparsed.

(* one result object, read and exported any number of times in any order: every read gives the parsed result and
   every export the csv of that result - the modelled as_csv is a pure function of the parsed result *)
Theorem C10_csv_is_pure :
  forall (Res C : Type) (csv : Res -> C) (r : Res) ops k,
  nth_error (answers csv r ops) k
  = option_map (fun o => match o with ReadResult => inl r | Export => inr (csv r) end) (nth_error ops k).
Proof. exact csv_is_pure. Qed.
Print Assumptions C10_csv_is_pure.

(* ---- non-vacuity: concrete instances satisfying the hypotheses ---------------------------------------------- *)
Example C10_ex_roundtrip :
  field_of_line "Well depth" false (render_scalar 6 "Well depth" 1 "-12,345,678.9" (Some "kilometer") NL)
  = MR (MFlt (-123456789) (-1)) (Some "kilometer")
  /\ contains ("Well depth" ++ ":") (spaces 1 ++ ("-12,345,678.9" ++ " " ++ "kilometer") ++ NL) = false.
Proof. split; vm_compute; reflexivity. Qed.

Example C10_ex_bare :
  field_of_line "Number of segments" false (render_scalar 6 "Number of segments" 28 "1" None (" " ++ NL))
  = MR (MInt 1) (Some "count").
Proof. vm_compute. reflexivity. Qed.

Example C10_ex_same_print :   (* the hypothesis of C10_deterministic_partial holds for two differently padded copies *)
  let lines := [render_scalar 6 "Well depth" 45 "3.0" (Some "kilometer") NL;
                render_scalar 6 "Well depth" 20 "3.0" (Some "kilometer") NL; "      Other:  1 m" ++ NL] in
  (forall l, In l lines -> contains (field_marker 4 "Well depth") l = true ->
     exists ind pad trail, all_ws trail = true /\ (2 <= ind + pad)%nat /\
       contains ("Well depth" ++ ":") (spaces pad ++ ("3.0" ++ " " ++ "kilometer") ++ trail) = false /\
       l = render_scalar ind "Well depth" pad "3.0" (Some "kilometer") trail)
  /\ get_result_field 1 "Well depth" false 4 lines = Some (MR (MFlt 30 (-1)) (Some "kilometer")).
Proof.
  split; [| vm_compute; reflexivity].
  intros l [<- | [<- | [<- | []]]] H.
  - exists 6%nat, 45%nat, NL. repeat split; try (vm_compute; reflexivity). apply Nat.leb_le; reflexivity.
  - exists 6%nat, 20%nat, NL. repeat split; try (vm_compute; reflexivity). apply Nat.leb_le; reflexivity.
  - vm_compute in H. discriminate.
Qed.

Example C10_ex_two_blank_gap_loses_the_unit :   (* why the theorems ask for ONE blank before the unit *)
  field_of_line "X" false ("      X:     5.0  MW" ++ NL) = MR MNone None.
Proof. vm_compute. reflexivity. Qed.

Example C10_ex_table :
  let r1 : row := ("  ", [("1", "      "); ("0.00", "   |   "); ("-25.67", "")]) in
  let r2 : row := ("  ", [("2", "      "); ("9.00", "   |   "); ("123456.78", "")]) in
  row_ok r1 = true /\ row_ok r2 = true /\
  addons_rows (["a"; "b"; "c"; "d"; "e"] ++ map render [r1; r2])
  = Some [[MInt 1; MFlt 0 (-2); MFlt (-2567) (-2)]; [MInt 2; MFlt 900 (-2); MFlt 12345678 (-2)]].
Proof. repeat split; vm_compute; reflexivity. Qed.

Example C10_ex_equal_sign :
  eq_of_line (eq_marker "Reservoir Model") (spaces 4 ++ eq_marker "Reservoir Model" ++ "Annual Percentage Thermal Drawdown Model" ++ NL)
  = MR (MStr "Annual Percentage Thermal Drawdown Model") None
  /\ contains (eq_marker "Reservoir Model") ("Annual Percentage Thermal Drawdown Model" ++ NL) = false.
Proof. split; vm_compute; reflexivity. Qed.

Example C10_ex_profile_rows :
  let r1 : row := ("  ", [("1", "           "); ("1.0000", "        "); ("-165.34", "")]) in
  prow_ok r1 = true /\ data_rows (map render [r1]) = [[MInt 1; MFlt 10000 (-4); MFlt (-16534) (-2)]].
Proof. split; vm_compute; reflexivity. Qed.

Example C10_ex_short_row_shifts :   (* why C10_table asks for rows of equal length: a missing cell moves the rest *)
  addons_rows (["a"; "b"; "c"; "d"; "e"] ++ ["  1   2.0   3.0"; "  2   4.0"])
  = Some [[MInt 1; MFlt 20 (-1); MFlt 30 (-1)]; [MInt 2; MNone; MFlt 40 (-1)]].
Proof. vm_compute. reflexivity. Qed.

Example C10_ex_csv :
  csv_table "P" ["Year"; "A (MW)"; "B"] [["1"; "x"; "y"]; ["2"; "z"; "w"]]
  = Some [CSV "P" "A" (Some "1") "x" "MW"; CSV "P" "A" (Some "2") "z" "MW";
          CSV "P" "B" (Some "1") "y" ""; CSV "P" "B" (Some "2") "w" ""].
Proof. vm_compute. reflexivity. Qed.

Example C10_ex_tables_nonempty :
  Nat.leb 200 (List.length C10Fields.fields) = true /\ Nat.leb 150 (List.length C10Labels.writer_labels) = true.
Proof. split; vm_compute; reflexivity. Qed.

Example C10_ex_json : rounds_to (2159876 # 100000) 2160 (-2) = true.
Proof. vm_compute. reflexivity. Qed.

Example C10_ex_number :
  render_number true [1%nat; 2%nat] [[3%nat; 4%nat; 5%nat]; [6%nat; 7%nat; 8%nat]] [9%nat; 0%nat] = "-12,345,678.90"
  /\ parse_number "-12,345,678.90" = MFlt (-1234567890) (-2)
  /\ parse_number (render_number false [4%nat; 2%nat] [] []) = MInt 42.
Proof. repeat split; vm_compute; reflexivity. Qed.

Example C10_ex_profile_lines :
  get_profile_lines "T" ("x" ++ NL ++ "*  T  *" ++ (NL ++ "***" ++ NL ++ "  1  2.0") ++ NL ++ NL ++ "rest")
  = Some [""; "***"; "  1  2.0"].
Proof. vm_compute. reflexivity. Qed.

Example C10_ex_header_count :
  header_lines 0 ["  YEAR       THERMAL               GEOFLUID"; "             DRAWDOWN             TEMPERATURE";
                  "                                   (deg C)"] []
  = Some ["YEAR"; "THERMAL DRAWDOWN"; "GEOFLUID TEMPERATURE (deg C)"].
Proof. vm_compute. reflexivity. Qed.

Example C10_ex_carbon_view :
  carbon_view 1 [0%nat; 1%nat] [[MInt 1; MFlt 1 (-2); MInt 7]; [MInt 2; MFlt 0 (-2); MInt 8]]
  = Some (Some [[MInt 1; MFlt 1 (-2)]; [MInt 2; MFlt 0 (-2)]]).
Proof. vm_compute. reflexivity. Qed.

Example C10_ex_index :
  rev_prefixes ": " "" "    Well depth: 3.0" = ["htped lleW    "]
  /\ existsb (prefixb (rev_str "    Well depth")) (rev_prefixes ": " "" "      Well depth: 3.0") = true.
Proof. split; vm_compute; reflexivity. Qed.

Example C10_ex_string_field :
  solid ("Direct-Use" ++ " " ++ "Heat")
  /\ field_of_line "End-Use Option" true (spaces 6 ++ "End-Use Option" ++ ":" ++ spaces 1 ++ "Direct-Use Heat" ++ NL)
     = MR (MStr "Direct-Use Heat") None.
Proof. split; [apply solid_join; [reflexivity | reflexivity | discriminate] | vm_compute; reflexivity]. Qed.

Example C10_ex_readlines : readlines (join_nl ["a b"; ""; "c"]) = ["a b" ++ NL; NL; "c" ++ NL].
Proof. vm_compute. reflexivity. Qed.

Example C10_ex_history :   (* the revenue table of the model after a re-write is the table of the new text *)
  forall a b, run revenue_table [] [Write "P" a; Parse "P"; Parse "P"; Write "P" b; Parse "P"]
              = [Some (revenue_table a); Some (revenue_table a); Some (revenue_table b)].
Proof. intros. reflexivity. Qed.

Example C10_ex_csv_pure :
  forall cats : list (string * catval string),
  answers csv_all cats [ReadResult; Export; ReadResult; Export] = [inl cats; inr (csv_all cats); inl cats; inr (csv_all cats)].
Proof. intros. reflexivity. Qed.
