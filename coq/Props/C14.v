(* Props/C14.v - Monte Carlo rows are reproducible and the statistics describe them.
   Only statements; every proof is [exact <lemma>] from Proofs/MCRowsProofs.v, Proofs/MCStatsProofs.v,
   Proofs/MonteCarloProofs.v. *)
From Coq Require Import List Arith Bool QArith Qminmax Permutation String Ascii Lia.
From Verif Require Import Model.MonteCarlo Proofs.MonteCarloProofs Model.MCRows Model.MCStats
                          Proofs.MCRowsProofs Proofs.MCStatsProofs.
Import ListNotations.
Open Scope nat_scope.
Open Scope string_scope.

(* a row written by work_package from output tokens (any number >= 1, each without comma, parenthesis or white
   space) and ANY text of sampled inputs is read back by the statistics step as exactly those tokens, in order;
   the two guards are the two reasons for which main() skips a line *)
Theorem C14_row_roundtrip :
  forall toks etext,
  toks <> [] -> forallb clean_token toks = true ->
  contains "-9999.0" (assemble_row toks etext) = false ->
  10 < String.length (strip (assemble_row toks etext)) ->
  parse_row (assemble_row toks etext) = Some toks.
Proof. exact row_roundtrip. Qed.
Print Assumptions C14_row_roundtrip.

(* a row is never longer than its tokens, its sampled-input text and three more characters: it goes to the file as ONE
   buffered write followed by flush (the harness observes one raw write() of exactly the row per work package) *)
Theorem C14_row_length_bound :
  forall toks etext,
  String.length (assemble_row toks etext) <= String.length (join_suffix ", " toks) + String.length etext + 3.
Proof. exact assemble_row_length. Qed.
Print Assumptions C14_row_length_bound.

(* the input simulated by an iteration (current code, db0b708: the sampled lines start on a new line): for EVERY base
   file, every sampled 'name, value' pair is a line of its own of that input - so the recorded value is the simulated
   one - and the lines of the base file are unchanged *)
Theorem C14_sampled_inputs_are_lines :
  forall base entries,
  forallb (fun e => no_nl (entry_line e)) entries = true ->
  (forall e, In e entries -> In (entry_line e) (file_lines (input_file base entries))) /\
  file_lines (input_file base entries) = (file_lines base ++ map entry_line entries ++ [""])%list.
Proof. exact (fun b es H => conj (fun e => input_file_lines b es e H) (input_file_base_lines b es H)). Qed.
Print Assumptions C14_sampled_inputs_are_lines.

(* the code before db0b708: true only of base files that end with a new line ... *)
Theorem C14_sampled_inputs_pinned_partial :
  forall b0 entries e,
  forallb (fun e => no_nl (entry_line e)) entries = true -> In e entries ->
  In (entry_line e) (file_lines (input_file_pinned (b0 ++ String NLc "") entries)).
Proof. exact input_file_pinned_lines. Qed.
Print Assumptions C14_sampled_inputs_pinned_partial.

(* ... and refuted otherwise: the first pair is glued to the last line (regression seed corpus/C14/base_without_final_newline) *)
Theorem C14_sampled_inputs_pinned_refuted :
  exists base entries e, In e entries /\ ~ In (entry_line e) (file_lines (input_file_pinned base entries))
    /\ file_lines (input_file_pinned base entries) = ["Reservoir Life Cycle, 25, yearsReservoir Area, 81.5"; ""].
Proof. exact input_file_pinned_glued. Qed.
Print Assumptions C14_sampled_inputs_pinned_refuted.

(* columns line up with the header exactly when every requested output is found (once) in the report ... *)
Theorem C14_alignment_partial :
  forall outputs lines,
  (List.length (row_tokens outputs lines) = List.length outputs <-> forallb (found lines) outputs = true) /\
  (forallb (found lines) outputs = true -> row_tokens outputs lines = map (value_of lines) outputs).
Proof. exact (fun o l => conj (proj2 (row_tokens_length o l)) (row_tokens_found o l)). Qed.
Print Assumptions C14_alignment_partial.

(* ... and otherwise a column holds the value of another output (the code skips what it does not find) *)
Theorem C14_alignment_refuted :
  exists outputs lines i, i < List.length (row_tokens outputs lines) /\ found lines (nth i outputs "") = true /\
    nth i (row_tokens outputs lines) "" <> value_of lines (nth i outputs "").
Proof. exact alignment_shift. Qed.
Print Assumptions C14_alignment_refuted.

(* appends: atomic appends in any order give a permutation of the rows; under the lock protocol of the current code
   the file holds exactly the finished work packages for every interleaving without time-out (the code before
   1d8733c needed mutual exclusion: C13_row_count_pinned_refuted; time-outs: C13_row_count_timeout_refuted) *)
Theorem C14_interleave :
  forall (A : Type) (row : nat -> A) tasks order, Permutation tasks order ->
  Permutation (map row tasks) (map row order).
Proof. exact (@interleave_perm). Qed.
Print Assumptions C14_interleave.

Theorem C14_interleave_lock :
  forall sched tasks, Forall (fun s => snd s = Step) sched -> NoDup tasks ->
  (forall t, In t tasks <-> finished (phases (lrun linit sched) t) = true) ->
  Permutation tasks (file (lrun linit sched)).
Proof. exact lock_file_perm. Qed.
Print Assumptions C14_interleave_lock.

(* the lock file stores a pass phrase; the code makes a fresh one (uuid1) in every work package.  A contender whose pass
   phrase differs from the stored one is refused in EVERY state: a work package that arrives while another is inside its
   critical section (its pass phrase verified in the lock file) stays outside ... *)
Theorem C14_distinct_pass_excludes :
  forall pass early st a b,
  pass a <> pass b -> lock st = Some (pass a) -> phases st b = PIdle -> lstep_pass pass early st b Step = st.
Proof. exact other_pass_refused. Qed.
Print Assumptions C14_distinct_pass_excludes.

(* ... and with one pass phrase shared by the work packages it is let in at once: both hold the lock (same schedule:
   distinct pass phrases keep work package 1 polling) *)
Theorem C14_shared_pass_refuted :
  let d := lrun_pass (fun t => t) true linit overlap_schedule in
  let s := lrun_pass (fun _ => 7) true linit overlap_schedule in
  (phases d 0 = PHolding /\ phases d 1 = PIdle) /\ (phases s 0 = PHolding /\ phases s 1 = PHolding).
Proof. exact shared_pass_no_exclusion. Qed.
Print Assumptions C14_shared_pass_refuted.

(* an iteration that fails removes its own row and nothing else *)
Theorem C14_failure_local :
  forall (A : Type) (sim : nat -> option A) t0 order,
  result_rows (fun t => if Nat.eqb t t0 then None else sim t) order
  = filter (fun p => negb (Nat.eqb (fst p) t0)) (result_rows sim order).
Proof. exact (@failure_local). Qed.
Print Assumptions C14_failure_local.

(* statistics do not depend on the order in which workers appended the rows ... *)
Theorem C14_stats_perm :
  forall x l y l', Permutation (x :: l) (y :: l') ->
  (min_of x l == min_of y l' /\ max_of x l == max_of y l' /\ median (x :: l) = median (y :: l') /\
   mean (x :: l) == mean (y :: l') /\ variance (x :: l) == variance (y :: l'))%Q.
Proof.
  exact (fun x l y l' P => conj (min_perm x l y l' P) (conj (max_perm x l y l' P) (conj (median_perm _ _ P)
          (conj (mean_perm _ _ P) (variance_perm _ _ P))))).
Qed.
Print Assumptions C14_stats_perm.

(* ... and are ordered as statistics must be *)
Theorem C14_stats_order :
  forall x l,
  (min_of x l <= median (x :: l) /\ median (x :: l) <= max_of x l /\
   min_of x l <= mean (x :: l) /\ mean (x :: l) <= max_of x l /\ 0 <= variance (x :: l))%Q.
Proof.
  exact (fun x l => conj (proj1 (median_bounds x l)) (conj (proj2 (median_bounds x l))
          (conj (proj1 (mean_bounds x l)) (conj (proj2 (mean_bounds x l)) (variance_nonneg x l))))).
Qed.
Print Assumptions C14_stats_order.

(* the reduced evaluation the harness runs on real rows computes the same mean and variance *)
Theorem C14_stats_evaluator :
  forall l, (mean_x l == mean l /\ variance_x l == variance l)%Q.
Proof. exact (fun l => conj (mean_x_eq l) (variance_x_eq l)). Qed.
Print Assumptions C14_stats_evaluator.

(* non-vacuity *)
Example C14_example_roundtrip :
  let line := assemble_row ["3.64e+14"; "199.57"] "Reservoir Area:81.5;Verif Unused B:-3.2;" in
  forallb clean_token ["3.64e+14"; "199.57"] = true /\ contains "-9999.0" line = false /\
  10 < String.length (strip line) /\ parse_row line = Some ["3.64e+14"; "199.57"].
Proof. vm_compute. repeat split; lia. Qed.

Example C14_example_alignment :
  row_tokens ["A"; "B"] ["  A: 1.5 u"; "  B: 2 u"; "other"] = ["1.5"; "2"]
  /\ forallb (found ["  A: 1.5 u"; "  B: 2 u"; "other"]) ["A"; "B"] = true.
Proof. vm_compute. split; reflexivity. Qed.

Example C14_example_stats :
  (median [3; 1; 2; 10] == 5 # 2 /\ mean [3; 1; 2; 10] == 4 /\ min_of 3 [1; 2; 10] == 1 /\ max_of 3 [1; 2; 10] == 10
   /\ variance [3; 1; 2; 10] == 25 # 2)%Q.
Proof. vm_compute. repeat split; reflexivity. Qed.

Example C14_example_failure :
  result_rows (fun t => if Nat.eqb t 1 then None else Some (10 * t)) [0; 1; 2] = [(0, 0); (2, 20)].
Proof. vm_compute. reflexivity. Qed.

Example C14_example_sampled_inputs :
  file_lines (input_file "Reservoir Life Cycle, 25, years" [("Reservoir Area", "81.5"); ("B", "2")])
  = ["Reservoir Life Cycle, 25, years"; "Reservoir Area, 81.5"; "B, 2"; ""]
  /\ file_lines (input_file_pinned ("Reservoir Life Cycle, 25" ++ String NLc "") [("Reservoir Area", "81.5")])
  = ["Reservoir Life Cycle, 25"; "Reservoir Area, 81.5"; ""].
Proof. split; vm_compute; reflexivity. Qed.

Example C14_example_pass_exclusion :   (* hypotheses of C14_distinct_pass_excludes met by the state after work package 0 acquired *)
  let st := lrun_pass (fun t => t) true linit [(0, Step); (0, Step); (0, Step)] in
  lock st = Some 0 /\ phases st 1 = PIdle /\ lstep_pass (fun t => t) true st 1 Step = st.
Proof. cbn. repeat split. Qed.
