(* Props/C13.v - Monte Carlo iterations are independent draws from the requested distributions.
   Only statements; every proof is [exact <lemma>] from Proofs/MonteCarloProofs.v.
   A raw draw is a pair (stream, position); a schedule is the list of worker ids that take tasks 0,1,2,...
   (any number of workers, any assignment). *)
From Coq Require Import List Arith Bool QArith Qminmax String Ascii.
From Verif Require Import Model.MonteCarlo Proofs.MonteCarloProofs Model.MCRows Model.MCSettings Proofs.MCSettingsProofs.
Import ListNotations.
Open Scope nat_scope.
Local Notation length := List.length (only parsing).   (* String.length is imported too *)

(* np.random.seed() at the start of every work package (the code as it is now): with pairwise distinct
   task seeds no raw draw is consumed twice - for every number of draws per task, parent state, schedule. *)
Theorem C13_fresh_no_reuse :
  forall seeds d g0 sched,
  (forall i j, i < length sched -> j < length sched -> seeds i = seeds j -> i = j) ->
  forall i j ki kj, i < length sched -> j < length sched -> ki < d -> kj < d ->
    nth ki (nth i (run_pool FreshPerTask seeds d g0 sched) []) (0, 0)
    = nth kj (nth j (run_pool FreshPerTask seeds d g0 sched) []) (0, 0) ->
    i = j /\ ki = kj.
Proof. exact fresh_no_reuse. Qed.
Print Assumptions C13_fresh_no_reuse.

Theorem C13_fresh_vectors_distinct :
  forall seeds d g0 sched, 0 < d ->
  (forall i j, i < length sched -> j < length sched -> seeds i = seeds j -> i = j) ->
  forall i j, i < length sched -> j < length sched -> i <> j ->
    nth i (run_pool FreshPerTask seeds d g0 sched) [] <> nth j (run_pool FreshPerTask seeds d g0 sched) [].
Proof. exact fresh_vectors_distinct. Qed.
Print Assumptions C13_fresh_vectors_distinct.

(* forked copies of the parent's generator, never reseeded (the code before 883a02d): the clause
   "draws are not replicated across workers" is refuted for EVERY schedule in which two workers run a task *)
Theorem C13_forkcopy_refuted :
  forall seeds d g0 sched w1 w2, w1 <> w2 -> In w1 sched -> In w2 sched ->
  exists i j, i <> j /\ i < length sched /\ j < length sched /\
    nth i (run_pool ForkCopy seeds d g0 sched) [] = nth j (run_pool ForkCopy seeds d g0 sched) [].
Proof. exact forkcopy_duplicates. Qed.
Print Assumptions C13_forkcopy_refuted.

(* ... and exactly which iterations coincide: those with the same rank on their worker *)
Theorem C13_forkcopy_pattern :
  forall seeds d g0 sched i j, 0 < d -> i < length sched -> j < length sched ->
  (nth i (run_pool ForkCopy seeds d g0 sched) [] = nth j (run_pool ForkCopy seeds d g0 sched) []
   <-> rank sched i = rank sched j).
Proof. exact forkcopy_dup_iff. Qed.
Print Assumptions C13_forkcopy_pattern.

(* supports of the documented transforms *)
Theorem C13_support_uniform :
  forall lo hi u : Q, (lo <= hi -> 0 <= u -> u < 1 -> lo <= uniform_t lo hi u /\ uniform_t lo hi u <= hi)%Q.
Proof. exact uniform_support. Qed.
Print Assumptions C13_support_uniform.

Theorem C13_support_triangular :
  forall sqrtf : Q -> Q,
  (forall x, 0 <= x -> 0 <= sqrtf x)%Q ->
  (forall x y, 0 <= x -> x <= y -> sqrtf x <= sqrtf y)%Q ->
  (forall a, 0 <= a -> sqrtf (a * a) == a)%Q ->
  forall l m r u : Q, (l <= m -> m <= r -> l < r -> 0 <= u -> u <= 1 ->
    l <= triangular_t sqrtf l m r u /\ triangular_t sqrtf l m r u <= r)%Q.
Proof. exact triangular_support. Qed.
Print Assumptions C13_support_triangular.

Theorem C13_support_binomial : forall p us, binomial_t p us <= length us.
Proof. exact binomial_support. Qed.
Print Assumptions C13_support_binomial.

Theorem C13_support_lognormal :
  forall expf : Q -> Q, (forall z, 0 < expf z)%Q -> forall mu sigma z : Q, (0 < lognormal_t expf (mu + sigma * z))%Q.
Proof. exact (fun expf H mu sigma z => lognormal_support expf H (mu + sigma * z)%Q). Qed.
Print Assumptions C13_support_lognormal.

(* the boolean test evaluated on the rows of real runs means what it should *)
Theorem C13_support_checker_sound :
  forall a b c x,
  (in_support DUniform [a; b] x = true -> Qmin a b <= x /\ x <= Qmax a b)%Q /\
  (in_support DTriangular [a; b; c] x = true -> a <= x /\ x <= c)%Q /\
  (in_support DLognormal [a; b] x = true -> 0 < x)%Q /\
  (in_support DBinomial [a; b] x = true -> 0 <= x /\ x <= a /\ exists k : Z, x == inject_Z k)%Q.
Proof.
  exact (fun a b c x => conj (in_support_uniform a b x) (conj (in_support_triangular a b c x)
          (conj (in_support_lognormal a b x) (in_support_binomial a b x)))).
Qed.
Print Assumptions C13_support_checker_sound.

(* result file: under EVERY schedule of the lock protocol, for the current code (early = true) and for the code before
   1d8733c (early = false), the rows are exactly the work packages that ended in DoneOk, each once *)
Theorem C13_rows_are_released_packages :
  forall early sched,
  NoDup (file (lrun_gen early linit sched)) /\
  forall t, In t (file (lrun_gen early linit sched)) <-> phases (lrun_gen early linit sched) t = PDoneOk.
Proof. exact lock_file_sound. Qed.
Print Assumptions C13_rows_are_released_packages.

(* current code (row flushed while the lock is believed held): one row per finished work package under EVERY
   interleaving in which nobody times out - whatever the lock file contained at the start (a stale lock left by a killed
   run) and with take-overs of stale locks allowed; mutual exclusion of the lock is not needed *)
Theorem C13_row_count_partial :
  forall l0 sched, Forall (fun s => snd s <> Timeout) sched ->
  let st := lrun (LS l0 (fun _ => PIdle) []) sched in
  forall t, finished (phases st t) = true -> In t (file st).
Proof. exact flush_no_loss_from. Qed.
Print Assumptions C13_row_count_partial.

(* the unconditional clause stays refuted by the 10 s time-out: the work package finishes, its row is dropped *)
Theorem C13_row_count_timeout_refuted :
  exists sched, phases (lrun linit sched) 0 = PDoneLost /\ phases (lrun linit sched) 1 = PDoneOk /\
    file (lrun linit sched) = [1].
Proof. exact (ex_intro _ timeout_schedule lock_timeout_loses_row). Qed.
Print Assumptions C13_row_count_timeout_refuted.

(* the code before 1d8733c: an interleaving of two work packages, no time-out, both finish, one row in the file
   (the same interleaving is forced on the real code by the check; regression seed corpus/C13/lock_double_acquire) *)
Theorem C13_row_count_pinned_refuted :
  exists sched, Forall (fun s => snd s = Step) sched /\
    phases (lrun_pinned linit sched) 0 = PDoneLost /\ phases (lrun_pinned linit sched) 1 = PDoneOk /\
    file (lrun_pinned linit sched) = [1].
Proof. exact (ex_intro _ double_acquire_schedule lock_loses_row_pinned). Qed.
Print Assumptions C13_row_count_pinned_refuted.

(* ... it needed mutual exclusion, which the lock protocol does not give *)
Theorem C13_row_count_pinned_partial :
  forall sched, mutex_run_pinned linit sched ->
  forall t, finished (phases (lrun_pinned linit sched) t) = true -> In t (file (lrun_pinned linit sched)).
Proof. exact (mutex_no_loss false). Qed.
Print Assumptions C13_row_count_pinned_partial.

(* ---- the settings file (main) and the '#' feature (check_and_replace_mean), string level *)

(* every INPUT line contributes its fields, every OUTPUT line its label, in file order, whatever else the file holds *)
Theorem C13_settings_lines_in_order :
  forall lines s, read_settings lines = Some s ->
  s_inputs s = map input_fields (filter is_input_line lines) /\
  s_outputs s = map output_field (filter is_output_line lines).
Proof. exact read_settings_order. Qed.
Print Assumptions C13_settings_lines_in_order.

(* a line without a comma - a blank line - is an IndexError of the reader, wherever it stands *)
Theorem C13_settings_blank_line_is_error :
  forall pre post, read_settings (pre ++ String (ascii_of_nat 10) "" :: post) = None.
Proof. exact read_settings_blank_line. Qed.
Print Assumptions C13_settings_blank_line_is_error.

(* a distribution word fires at most one distribution; when every INPUT line names one of the five, a work package makes
   exactly one numpy call per INPUT line, in file order, with the line's numeric fields in order *)
Theorem C13_one_entry_per_input :
  (forall w, List.length (dispatch w) <= 1) /\
  (forall inputs, forallb recognised inputs = true -> expected_calls inputs = map the_call inputs).
Proof. exact (conj dispatch_at_most_one expected_calls_in_order). Qed.
Print Assumptions C13_one_entry_per_input.

(* '#': the first field that contains '#' is replaced by the raw second comma field of the FIRST line of the base file
   that starts with the parameter name *)
Theorem C13_mean_first_occurrence :
  forall fields pre l post i x v rest,
  first_hash fields 0 = Some i ->
  forallb (fun y => negb (prefix (hd "" fields) y)) pre = true -> prefix (hd "" fields) l = true ->
  split_char "," l = x :: v :: rest ->
  replace_mean fields (pre ++ l :: post) = Some (set_nth i v fields).
Proof. exact replace_mean_first_occurrence. Qed.
Print Assumptions C13_mean_first_occurrence.

(* that is the line the simulator takes the parameter from (last line whose name field is the name: C12) when no earlier
   line starts with the name and no later line defines the parameter ... *)
Theorem C13_mean_is_simulated_value_partial :
  forall name pre l post,
  forallb (fun y => negb (prefix name y)) pre = true -> forallb (fun y => negb (names_param name y)) post = true ->
  prefix name l = true -> names_param name l = true ->
  mean_source_line name (pre ++ l :: post) = Some l /\ simulated_line name (pre ++ l :: post) = Some l.
Proof. exact mean_source_is_simulated_line. Qed.
Print Assumptions C13_mean_is_simulated_value_partial.

(* ... and refuted otherwise: a parameter given twice, and a longer parameter name with the same beginning earlier in the
   file ('Reservoir Volume Option' before 'Reservoir Volume': the layout of the shipped examples) *)
Theorem C13_mean_is_simulated_value_refuted :
  (exists fields base i v, first_hash fields 0 = Some i /\ replace_mean fields base = Some (set_nth i v fields) /\
     simulated_value (hd "" fields) base = Some "160" /\ v = " 150" ++ NL1) /\
  (exists fields base i v, first_hash fields 0 = Some i /\ replace_mean fields base = Some (set_nth i v fields) /\
     simulated_value (hd "" fields) base = Some "1e9" /\ v = "4").
Proof. exact mean_not_simulated_value. Qed.
Print Assumptions C13_mean_is_simulated_value_refuted.

(* non-vacuity *)
Example C13_example_fresh :   (* 3 workers, 5 tasks, 2 draws each, injective seeds: ten different raw draws *)
  (forall i j : nat, 100 + i = 100 + j -> i = j) /\
  run_pool FreshPerTask (fun t => 100 + t) 2 (G 7 3) [0; 1; 2; 0; 1]
  = [[(100, 0); (100, 1)]; [(101, 0); (101, 1)]; [(102, 0); (102, 1)]; [(103, 0); (103, 1)]; [(104, 0); (104, 1)]].
Proof. split; [intros i j H; apply (Nat.add_cancel_l i j 100); exact H | vm_compute; reflexivity]. Qed.

Example C13_example_forkcopy :   (* same schedule, forked copies: tasks 0,1,2 coincide and so do 3,4 *)
  predicted_classes ForkCopy 2 [0; 1; 2; 0; 1] = [0; 0; 0; 3; 3]
  /\ predicted_classes FreshPerTask 2 [0; 1; 2; 0; 1] = [0; 1; 2; 3; 4].
Proof. split; vm_compute; reflexivity. Qed.

Example C13_example_mutex :   (* a schedule with polling that satisfies the mutual-exclusion hypothesis *)
  mutex_run_pinned linit [(0, Step); (0, Step); (1, Step); (0, Step); (1, Step); (0, Step); (1, Step); (1, Step); (1, Step); (1, Step)]
  /\ file (lrun_pinned linit [(0, Step); (0, Step); (1, Step); (0, Step); (1, Step); (0, Step); (1, Step); (1, Step); (1, Step); (1, Step)]) = [0; 1].
Proof.
  split; [|vm_compute; reflexivity].
  cbn. repeat split; try reflexivity;
    intros t u; destruct t as [|[|t]]; destruct u as [|[|u]]; cbn; intros; congruence.
Qed.

Example C13_example_flush :   (* the double acquisition, current code: no time-out, both rows *)
  Forall (fun s => snd s = Step) double_acquire_schedule /\ file (lrun linit double_acquire_schedule) = [0; 1].
Proof. split; [repeat constructor | reflexivity]. Qed.

Example C13_example_stale_lock :   (* stale lock of a dead owner taken over, three work packages, three rows *)
  Forall (fun s => snd s <> Timeout) (stale_serial_schedule 3) /\ file (lrun (lstale 7) (stale_serial_schedule 3)) = [0; 1; 2].
Proof. split; [repeat constructor; discriminate | reflexivity]. Qed.

Example C13_example_triangular_hyps :   (* the hypotheses on sqrt are satisfiable on the points used: identity on {0,1} *)
  (triangular_t (fun x => x) 0 1 1 1 == 1)%Q.
Proof. vm_compute. reflexivity. Qed.


Example C13_example_settings :
  let lines := ["INPUT, Reservoir Temperature, normal, #, 5" ++ NL1; "OUTPUT, Stored Heat (rock)" ++ NL1;
                "INPUT, Reservoir Area,uniform, 50, 120" ++ NL1; "ITERATIONS, 12" ++ NL1] in
  settings_agree lines [["Reservoir Temperature"; " normal"; " #"; " 5"]; ["Reservoir Area"; "uniform"; " 50"; " 120"]]
                 ["Stored Heat (rock)"] (Some "12") None = true
  /\ replace_mean ["Reservoir Temperature"; " normal"; " #"; " 5"] ["Reservoir Temperature, 250.0" ++ NL1; "Reservoir Area, 55.0" ++ NL1]
     = Some ["Reservoir Temperature"; " normal"; " 250.0" ++ NL1; " 5"]
  /\ forallb recognised [(" normal", [150; 5]%Q); ("uniform", [50; 120]%Q)] = true.
Proof. repeat split; vm_compute; reflexivity. Qed.
