(* Props/C18.v - Outputs respond monotonically where the model says they must.  Statements only. *)
From Coq Require Import QArith Qminmax List ZArith Bool.
From Verif Require Import Base.Flat Model.CashFlow Model.Lcoe Model.Costs Model.Gradient Model.Drawdown Model.Ramey
     Proofs.CashFlowProofs Proofs.LcoeProofs Proofs.MonoProofs Gen.WellCost.
Import ListNotations.
Open Scope Q_scope.

(* bottom-hole temperature does not decrease when the depth increases (any number of layers) *)
Theorem C18_bht_depth : forall Ts Tmax upper gb d1 d2, Gradient.wf upper gb -> Ts <= Tmax -> d1 <= d2 ->
  trock Ts Tmax upper gb d1 <= trock Ts Tmax upper gb d2.
Proof. exact trock_mono_depth. Qed.
Print Assumptions C18_bht_depth.

(* ... nor when any gradient (as normalised by the reader, degC/m) increases, the layering being the same *)
Theorem C18_bht_gradient : forall Ts Tmax upper upper' gb gb' d,
  Gradient.wf upper gb -> Gradient.wf upper' gb' -> Ts <= Tmax -> 0 <= d -> grads_le upper upper' -> gb <= gb' ->
  trock Ts Tmax upper gb d <= trock Ts Tmax upper' gb' d.
Proof. exact trock_mono_gradient. Qed.
Print Assumptions C18_bht_gradient.

(* the reader's magnitude heuristic (a gradient > 1 is taken as degC/km) breaks this for the INPUT value across 1.0 *)
Theorem C18_bht_input_gradient_refuted : exists g g' : Q, g <= g' /\ norm_gradient g' < norm_gradient g.
Proof. exact gradient_heuristic_not_monotone. Qed.
Print Assumptions C18_bht_input_gradient_refuted.

(* on either side of the heuristic the input gradient is monotone: both inputs above 1 (degC/km) or both at most 1 (degC/m) *)
Theorem C18_bht_input_gradient_partial : forall g g' : Q, g <= g' -> (1 < g \/ g' <= 1) -> norm_gradient g <= norm_gradient g'.
Proof. exact norm_gradient_mono_same_side. Qed.
Print Assumptions C18_bht_input_gradient_partial.

(* percentage-drawdown model: at every time the temperature does not increase when the drawdown rate increases *)
Theorem C18_tdp_rate : forall Trock Tinj dd dd' ts, Tinj <= Trock -> Forall (fun t => 0 <= t) ts -> dd <= dd' ->
  Forall2 Qle (tdp_series Trock Tinj dd' ts) (tdp_series Trock Tinj dd ts).
Proof. exact tdp_series_mono_rate. Qed.
Print Assumptions C18_tdp_rate.

(* Ramey: the initial production temperature does not decrease when the flow rate (hence the coefficient A) increases;
   E x = 1 - exp(-x) enters through its concavity in chord form, the Ramey time function through A > 0 *)
Theorem C18_ramey_flow : forall (E : Q -> Q) Trock g depth A1 A2,
  (forall x y, 0 < x -> x <= y -> x * E y <= y * E x) -> 0 <= g -> 0 < depth -> 0 < A1 -> A1 <= A2 ->
  produced_temperature Trock (drop0_E E g depth A1) <= produced_temperature Trock (drop0_E E g depth A2).
Proof. exact initial_production_temperature_mono. Qed.
Print Assumptions C18_ramey_flow.

Theorem C18_ramey_A_flow : forall flow flow' cpw f pi krock, 0 < cpw -> 0 < f -> 0 < pi -> 0 < krock -> flow <= flow' ->
  ramey_A flow cpw f pi krock <= ramey_A flow' cpw f pi krock.
Proof. exact ramey_A_mono. Qed.
Print Assumptions C18_ramey_A_flow.

(* well cost: every correlation of the table regenerated from the current source is non-decreasing on 500..15000 m *)
Lemma table_mono_ok : forallb mono_ok well_cost_table = true.
Proof. vm_compute. reflexivity. Qed.
Theorem C18_wellcost : forall row d1 d2, In row well_cost_table -> 500 <= d1 -> d1 <= d2 -> d2 <= max_depth_m ->
  quad_cost (snd row) d1 <= quad_cost (snd row) d2.
Proof. exact (table_row_mono well_cost_table table_mono_ok). Qed.
Print Assumptions C18_wellcost.

Theorem C18_adjusted_wellcost : forall simple coef d1 d2 per_m adj, 0 <= adj -> 0 <= per_m ->
  (forall a b, 500 <= a -> a <= b -> b <= max_depth_m -> quad_cost coef a <= quad_cost coef b) ->
  500 <= d1 -> d1 <= d2 -> d2 <= max_depth_m ->
  one_vertical_well simple coef d1 per_m adj <= one_vertical_well simple coef d2 per_m adj.
Proof. exact one_vertical_well_mono. Qed.
Print Assumptions C18_adjusted_wellcost.

(* NPV does not increase when capital or O&M cost increase *)
Theorem C18_npv_cost : forall r c ccap ccap' coam coam', 0 < 1 + r -> (1 <= ci_cy c)%nat -> ccap <= ccap' -> coam <= coam' ->
  npv r (total_cashflow (with_costs c ccap' coam')) <= npv r (total_cashflow (with_costs c ccap coam)).
Proof. exact npv_antitone_in_costs. Qed.
Print Assumptions C18_npv_cost.

(* no levelized cost decreases when a cost argument increases (positive energy denominators; BICYCLE under
   non-negativity of its capital coefficient, which a large tax-credit rate can violate) *)
Theorem C18_lcoe_cost : forall c cap cap' om om' xs xs' a_std a_std' a_bic a_bic' avgE energy unit,
  lev_mono_conditions c avgE energy unit ->
  cap <= cap' -> om <= om' -> xs <= xs' -> Forall2 Qle a_std a_std' -> Forall2 Qle a_bic a_bic' ->
  lev spec_levelizers c cap om xs a_std a_bic avgE energy unit <= lev spec_levelizers c cap' om' xs' a_std' a_bic' avgE energy unit.
Proof. exact lev_mono. Qed.
Print Assumptions C18_lcoe_cost.

(* capital cost is monotone in the sum of its components when the credit rate is at most 100 % *)
Theorem C18_ccap_components : forall k k', k_total_valid k = false -> k_total_valid k' = false ->
  k_ritc_provided k' = k_ritc_provided k -> k_ritc k' == k_ritc k -> k_ritc k <= 1 ->
  k_flat k' == k_flat k -> k_other k' == k_other k -> k_grant k' == k_grant k ->
  components_sum k <= components_sum k' -> ccap k <= ccap k'.
Proof. exact ccap_mono_components. Qed.
Print Assumptions C18_ccap_components.

(* ---- non-vacuity ---- *)
Example ex_layers : Gradient.wf [(5 # 100, 1000)] (3 # 100) /\ trock 15 400 [(5 # 100, 1000)] (3 # 100) 3000 == 125.
Proof. split; [split; [reflexivity | repeat constructor] | vm_compute; reflexivity]. Qed.
Example ex_row : exists row, In row well_cost_table /\ 0 < quad_cost (snd row) 3000.
Proof. exists (nth 0 well_cost_table (0%Z, false, (0, 0, 0))). split; [left; reflexivity | vm_compute; reflexivity]. Qed.
