(* Props/C01.v - Levelized cost equals its documented definition.
   Statements only; proofs are `exact <lemma of Proofs/LcoeProofs.v>`. *)
From Coq Require Import QArith List ZArith Bool.
From Verif Require Import Base.Flat Model.CashFlow Model.Lcoe Proofs.LcoeProofs.
Import ListNotations.
Open Scope Q_scope.

(* the whole function: for every lifetime, every series of that length, every economic model, end-use and plant
   type, the numpy-vector computation of the code equals the documented closed forms (LCOE, LCOH, LCOC) *)
Theorem C01_code_is_documented_formula : forall c : lc_in, wf_l c -> teq (lcoe_code c) (lcoe_spec c).
Proof. exact lcoe_code_is_spec. Qed.
Print Assumptions C01_code_is_documented_formula.

(* standard levelized cost: sum over the discount vector = sum_{t<n} x_t/(1+d)^t *)
Theorem C01_std : forall (c : lc_in) (cap : Q) (annual energy : list Q),
  length annual = l_life c -> length energy = l_life c -> ~ 1 + l_disc c == 0 ->
  std_num c cap annual == (1 + l_inflc c) * cap + npv_sigma_from (l_disc c) 0 annual /\
  std_den c energy == npv_sigma_from (l_disc c) 0 energy.
Proof.
  intros c cap annual energy Ha He Hd. split.
  - rewrite (std_num_eq c cap annual Ha). unfold std_num_spec. now rewrite geo0_sigma.
  - rewrite (std_den_eq c energy He). unfold std_den_spec. now apply geo0_sigma.
Qed.
Print Assumptions C01_std.

(* BICYCLE: inflation and discount vectors over t = 1..n *)
Theorem C01_bicycle : forall (c : lc_in) (cap : Q) (annual energy : list Q),
  length annual = l_life c -> length energy = l_life c ->
  bic_num c cap annual == bic_num_spec c cap annual /\
  bic_den c energy == geo_sigma_from (bic_qg c) 1 energy.
Proof.
  intros c cap annual energy Ha He. split.
  - now apply bic_num_eq.
  - rewrite (bic_den_eq c energy He). unfold bic_den_spec. apply geo1_sigma.
Qed.
Print Assumptions C01_bicycle.

Theorem C01_fcr_electricity : forall c : lc_in, l_econ c = 1%Z -> classify (l_enduse c) (l_plant c) = LElec ->
  lcoe_spec c = ((l_fcr c * (1 + l_inflc c) * l_ccap c + l_coam c + 0) / (sumQ (l_net c) / natQ (length (l_net c))) * e8, 0, 0).
Proof. exact spec_fcr_electricity. Qed.
Print Assumptions C01_fcr_electricity.

Theorem C01_std_electricity : forall c : lc_in, l_econ c = 2%Z -> classify (l_enduse c) (l_plant c) = LElec ->
  lcoe_spec c = (((1 + l_inflc c) * l_ccap c + geo0 (/ (1 + l_disc c)) (repeat (l_coam c) (l_life c)))
                 / geo0 (/ (1 + l_disc c)) (l_net c) * e8, 0, 0).
Proof. exact spec_std_electricity. Qed.
Print Assumptions C01_std_electricity.

Theorem C01_std_heat : forall c : lc_in, l_econ c = 2%Z -> classify (l_enduse c) (l_plant c) = LHeat ->
  lcoe_spec c = (0, ((1 + l_inflc c) * l_ccap c
                     + geo0 (/ (1 + l_disc c)) (map (Qplus (l_coam c)) (map (Qmult (l_elec_buy c / e6)) (l_pump c))))
                    / geo0 (/ (1 + l_disc c)) (l_heat c) * (e8 * mmbtu), 0).
Proof. exact spec_std_heat. Qed.
Print Assumptions C01_std_heat.

Theorem C01_bicycle_electricity : forall c : lc_in,
  l_econ c <> 1%Z -> l_econ c <> 2%Z -> classify (l_enduse c) (l_plant c) = LElec ->
  lcoe_spec c = (bic_num_spec c (l_ccap c) (repeat (l_coam c) (l_life c)) / geo1 (bic_qg c) (l_net c) * e8, 0, 0).
Proof. exact spec_bicycle_electricity. Qed.
Print Assumptions C01_bicycle_electricity.

(* all 8 x 9 (end-use, plant type) cells select the documented branch *)
Theorem C01_branch_table : forall e p : Z, In e enduses -> In p plants -> classify e p = documented_kind e p.
Proof. exact branch_table. Qed.
Print Assumptions C01_branch_table.

Theorem C01_cogen_split : forall c : lc_in,
  l_ccap c * l_ratio c + l_ccap c * (1 - l_ratio c) == l_ccap c /\
  l_coam c * l_ratio c + l_coam c * (1 - l_ratio c) == l_coam c.
Proof. exact cogen_split. Qed.
Print Assumptions C01_cogen_split.

(* what the "breakeven price" is: selling each year's energy at the levelized cost recovers, in present value, exactly the
   (construction-inflated) capital cost plus the discounted O&M - standard model; annualised for the FCR model *)
Theorem C01_breakeven_std : forall c : lc_in, l_econ c = 2%Z -> classify (l_enduse c) (l_plant c) = LElec ->
  ~ geo0 (/ (1 + l_disc c)) (l_net c) == 0 ->
  let price_usd_per_kwh := fst (fst (lcoe_spec c)) / 100 in
  geo0 (/ (1 + l_disc c)) (map (fun e => e * (price_usd_per_kwh / 1000000)) (l_net c))
  == (1 + l_inflc c) * l_ccap c + geo0 (/ (1 + l_disc c)) (repeat (l_coam c) (l_life c)).
Proof. exact breakeven_std_electricity. Qed.
Print Assumptions C01_breakeven_std.

Theorem C01_breakeven_fcr : forall c : lc_in, l_econ c = 1%Z -> classify (l_enduse c) (l_plant c) = LElec ->
  ~ sumQ (l_net c) == 0 -> ~ natQ (length (l_net c)) == 0 ->
  let price_usd_per_kwh := fst (fst (lcoe_spec c)) / 100 in
  avg (l_net c) * (price_usd_per_kwh / 1000000) == l_fcr c * (1 + l_inflc c) * l_ccap c + l_coam c.
Proof. exact breakeven_fcr_electricity. Qed.
Print Assumptions C01_breakeven_fcr.

(* the reduced-fraction form executed by the correspondence computes the same values *)
Theorem C01_executable_form : forall c : lc_in, wf_l c -> teq (lcoe_exec c) (lcoe_spec c).
Proof. exact lcoe_exec_is_spec. Qed.
Print Assumptions C01_executable_form.

(* ---- non-vacuity ---- *)
Definition ex1 : lc_in :=
  {| l_econ := 2; l_enduse := 31; l_plant := 1; l_ccap := 100; l_coam := 3; l_ratio := 3#4; l_fcr := 1#10; l_inflc := 1#50;
     l_disc := 7#100; l_fib := 1#2; l_bir := 1#20; l_ctr := 3#10; l_eir := 1#10; l_rinfl := 1#50; l_ptr := 1#100; l_gtr := 1#50;
     l_ritc := 0; l_life := 3; l_net := [90000000; 80000000; 70000000]; l_heat := [50000000; 40000000; 30000000]; l_cool := [];
     l_pump := [2000000; 2100000; 2200000]; l_hp := []; l_elec_buy := 7#100; l_avg_pump := 0; l_avg_hp := 0; l_avg_ng := 0;
     l_ng := []; l_demand := 0 |}.
Example ex1_wf : wf_l ex1.
Proof. unfold wf_l; simpl. repeat split. Qed.
Example ex1_values : let '(a, b, d) := lcoe_exec ex1 in (0 < a /\ 0 < b /\ d == 0).
Proof. vm_compute. repeat split; discriminate. Qed.
