(* Props/C20.v - All entry points give the same answer.
   Only statements; every proof is [exact <lemma>] from Proofs/.  The model (Model/CliPaths.v) is the path handling of
   geophires_x/__main__.py, GEOPHIRESv3.main (after fix 4b78654), Model.__init__, GeophiresXClient and the part of
   pathlib.PurePosixPath they use; the simulation itself is an arbitrary function [run]. *)
From Coq Require Import String Ascii List Bool ZArith.
From Verif Require Import Model.Tokenizer Model.CliPaths Proofs.CliPathsProofs.
Import ListNotations.
Open Scope string_scope.

(* python -m geophires_x <inp> <out> started in ANY directory cwd, with the package installed ANYWHERE (pkg, the
   directory GEOPHIRESv3.main chdir()s into): the report goes to Path(out).absolute() taken in the starting directory
   and the JSON next to it - the chdir does not leak into the output location *)
Theorem C20_cli_requested_path : forall cwd pkg inp out : string,
  wf_abs (parse cwd) = true ->
  main_files cwd pkg (cli_argv cwd inp (Some out)) =
  {| f_report := absolute cwd out; f_json := json_path (absolute cwd out) |}.
Proof. exact cli_files. Qed.
Print Assumptions C20_cli_requested_path.

(* a relative output path from cwd and its absolute form from any other directory / installation name the same files *)
Theorem C20_relative_absolute : forall cwd cwd' pkg pkg' inp inp' out : string,
  wf_abs (parse cwd) = true -> wf_abs (parse cwd') = true ->
  main_files cwd pkg (cli_argv cwd inp (Some out)) = main_files cwd' pkg' (cli_argv cwd' inp' (Some (absolute cwd out))).
Proof. exact cli_relative_absolute. Qed.
Print Assumptions C20_relative_absolute.

(* no output argument: HDR.out and HDR.json in the starting directory *)
Theorem C20_default : forall cwd pkg inp : string,
  wf_abs (parse cwd) = true ->
  main_files cwd pkg (cli_argv cwd inp None) =
  {| f_report := to_str {| p_root := p_root (parse cwd); p_parts := (p_parts (parse cwd) ++ ["HDR.out"])%list |};
     f_json := Some (to_str {| p_root := p_root (parse cwd); p_parts := (p_parts (parse cwd) ++ ["HDR.json"])%list |}) |}.
Proof. exact cli_default. Qed.
Print Assumptions C20_default.

(* the JSON file of EVERY absolute normalised report path lies in the report's directory and is called stem.json
   (code after fix 4b78654: Path.with_name) *)
Theorem C20_json_path : forall p : path,
  wf_abs p = true -> p_parts p <> [] ->
  exists j, json_path (to_str p) = Some (to_str j) /\ wf_abs j = true /\
            p_root j = p_root p /\ p_parts j = (removelast (p_parts p) ++ [(stem (last (p_parts p) "") ++ ".json")%string])%list.
Proof. exact json_path_spec. Qed.
Print Assumptions C20_json_path.

(* the code before the fix (str.replace over the whole path string) does not: a directory carrying the file's name is
   rewritten too.  Witness a.out/a.out (corpus/C20): a regression of the fix is reported with this replay. *)
Theorem C20_json_path_pinned_refuted :
  exists out, json_path out = Some "a.out/a.json" /\ json_path_pinned out = "a.json/a.json" /\ out = "a.out/a.out".
Proof. exact json_path_pinned_counterexample. Qed.
Print Assumptions C20_json_path_pinned_refuted.

(* the client looks for the JSON where main() wrote it (with_suffix vs with_name(stem + '.json')), for every path *)
Theorem C20_client_json_agrees : forall out : string, client_json_path out = json_path out.
Proof. exact client_json_agrees. Qed.
Print Assumptions C20_client_json_agrees.

(* command line, client (from any directory) and direct pipeline, for ANY simulation function (success, exception or
   bare sys.exit()), any input and any absolute normalised output path: same status (0 / non-zero resp. returns /
   raises), same files, same report (command line after fix 3ff4cc0) *)
Theorem C20_entry_points_agree :
  forall (run : string -> sim) cwd1 cwd2 cwd3 pkg1 pkg2 pkg3 inp1 inp2 inp3 (p : path) (text : string),
  wf_abs (parse cwd1) = true -> wf_abs p = true ->
  cli run cwd1 pkg1 inp1 (Some (to_str p)) text true = client run cwd2 pkg2 inp2 (to_str p) text
  /\ client run cwd2 pkg2 inp2 (to_str p) text = direct run cwd3 pkg3 [""; inp3; to_str p] text true.
Proof. exact entry_points_agree. Qed.
Print Assumptions C20_entry_points_agree.

(* the command line before the fix (cli_pinned) reported success (status 0) where the client raises.  Witness input
   'Reservoir Model, 5' without a reservoir output file (tools/props/C20.py SPECIAL, corpus/C20): a regression of the
   fix is reported with that replay. *)
Theorem C20_entry_points_agree_pinned_refuted :
  exists (run : string -> sim) (text : string), run text = SimAbort /\
    o_exit (cli_pinned run "/w" "/pkg" "in.txt" (Some "/w/o.out") text true) = 0%Z /\
    o_exit (client run "/w" "/pkg" "/w/in.txt" "/w/o.out" text) = 1%Z.
Proof. exact entry_points_pinned_counterexample. Qed.
Print Assumptions C20_entry_points_agree_pinned_refuted.

(* exit status: ANY failure of the simulation (exception or bare sys.exit()) gives a non-zero status and no report;
   success gives status 0 and the report text of [run] at the files named above; a missing output directory gives
   non-zero and no report *)
Theorem C20_exit :
  forall (run : string -> sim) (cwd pkg inp : string) (out : option string) (text : string) (dir_ok : bool),
  ((forall rep, run text <> SimOk rep) -> o_exit (cli run cwd pkg inp out text dir_ok) <> 0%Z
                         /\ o_files (cli run cwd pkg inp out text dir_ok) = None
                         /\ o_report (cli run cwd pkg inp out text dir_ok) = None)
  /\ (forall rep, run text = SimOk rep -> dir_ok = true ->
        o_exit (cli run cwd pkg inp out text dir_ok) = 0%Z
        /\ o_files (cli run cwd pkg inp out text dir_ok) = Some (main_files cwd pkg (cli_argv cwd inp out))
        /\ o_report (cli run cwd pkg inp out text dir_ok) = Some rep)
  /\ (dir_ok = false -> o_exit (cli run cwd pkg inp out text dir_ok) <> 0%Z
                        /\ o_files (cli run cwd pkg inp out text dir_ok) = None).
Proof. exact exit_status. Qed.
Print Assumptions C20_exit.

(* the command line before the fix: status 0 and no report for failures signalled with a bare sys.exit() *)
Theorem C20_exit_pinned_refuted :
  exists (run : string -> sim) (text : string), run text = SimAbort /\
    forall cwd pkg inp out dir_ok,
      o_exit (cli_pinned run cwd pkg inp out text dir_ok) = 0%Z /\ o_files (cli_pinned run cwd pkg inp out text dir_ok) = None.
Proof. exact exit_status_pinned_counterexample. Qed.
Print Assumptions C20_exit_pinned_refuted.

(* non-vacuity *)
Example C20_example_paths :
  wf_abs (parse "/var/tmp/w//d1/./") = true
  /\ main_files "/var/tmp/w/d1" "/repo/src/geophires_x" (cli_argv "/var/tmp/w/d1" "in.txt" (Some "sub/../a.out/a.out"))
     = {| f_report := "/var/tmp/w/d1/sub/../a.out/a.out"; f_json := Some "/var/tmp/w/d1/sub/../a.out/a.json" |}
  /\ fs_canon "/var/tmp/w/d1/sub/../a.out/a.json" = "/var/tmp/w/d1/a.out/a.json".
Proof. vm_compute. repeat split. Qed.

Example C20_example_default :
  main_files "/w" "/pkg" (cli_argv "/w" "in.txt" None) = {| f_report := "/w/HDR.out"; f_json := Some "/w/HDR.json" |}.
Proof. vm_compute. reflexivity. Qed.

Example C20_example_names :
  map json_name ["a.out"; "noext"; ".hidden"; "a.b.c"; "trail."] = ["a.json"; "noext.json"; ".hidden.json"; "a.b.json"; "trail..json"]
  /\ wf_abs {| p_root := "/"; p_parts := ["tmp"; "geophires-result_1.out"] |} = true.
Proof. vm_compute. split; reflexivity. Qed.

Example C20_example_entry_points :
  let run := fun t : string => if String.eqb t "bad" then SimFail else SimOk ("report of " ++ t) in
  o_exit (cli run "/w" "/pkg" "i" (Some "o.out") "ok" true) = 0%Z
  /\ o_report (cli run "/w" "/pkg" "i" (Some "o.out") "ok" true) = Some "report of ok"
  /\ o_exit (cli run "/w" "/pkg" "i" (Some "o.out") "bad" true) = 1%Z
  /\ o_exit (cli run "/w" "/pkg" "i" (Some "nodir/o.out") "ok" false) = 1%Z
  /\ o_exit (cli (fun _ => SimAbort) "/w" "/pkg" "i" (Some "o.out") "x" true) = 1%Z.
Proof. vm_compute. repeat split. Qed.

(* GEOPHIRESv3.main() called directly (sys.argv = [a; inp; rel] or [a; inp]) with a RELATIVE or MISSING output argument:
   the files do not depend on the caller's directory at all; the report is resolved against the PACKAGE directory main()
   chdir()s into (a relative name lands there, the default HDR.out too) while the default JSON goes to the caller's
   directory.  Tied by tools/props/C20.py on real runs with the chdir target substituted by a scratch directory. *)
Theorem C20_direct_pipeline_paths : forall cwd cwd' pkg a inp rel : string,
  wf_abs (parse pkg) = true -> wf_abs (parse cwd) = true -> is_abs (parse rel) = false ->
  main_files cwd pkg [a; inp; rel] = main_files cwd' pkg [a; inp; rel]
  /\ parse (f_report (main_files cwd pkg [a; inp; rel]))
     = {| p_root := p_root (parse pkg); p_parts := (p_parts (parse pkg) ++ p_parts (parse rel))%list |}
  /\ parse (f_report (main_files cwd pkg [a; inp]))
     = {| p_root := p_root (parse pkg); p_parts := (p_parts (parse pkg) ++ ["HDR.out"])%list |}
  /\ option_map parse (f_json (main_files cwd pkg [a; inp]))
     = Some {| p_root := p_root (parse cwd); p_parts := (p_parts (parse cwd) ++ ["HDR.json"])%list |}.
Proof. exact direct_pipeline_paths. Qed.
Print Assumptions C20_direct_pipeline_paths.

Example C20_example_direct_relative :
  main_files "/w" "/pkg" [""; "/w/in.txt"; "rel.out"] = {| f_report := "/pkg/rel.out"; f_json := Some "/pkg/rel.json" |}
  /\ main_files "/w" "/pkg" [""; "/w/in.txt"] = {| f_report := "/pkg/HDR.out"; f_json := Some "/w/HDR.json" |}
  /\ is_abs (parse "rel.out") = false /\ wf_abs (parse "/pkg") = true.
Proof. vm_compute. repeat split; reflexivity. Qed.

(* ================= HIP-RA-X (python -m hip_ra_x.hip_ra_x, HipRaXClient, the Monte-Carlo driver's client call) ================= *)

(* with ABSOLUTE normalised input and output paths the script (from any directory, package installed anywhere) and the
   client read the same input file, give the same outcome and write the report to exactly the requested path *)
Theorem C20_hip_entry_points_agree :
  forall (hrun : string -> hsim) (cwd cwd' pkg pkg' : string) (pin pout : path),
  wf_abs pin = true -> wf_abs pout = true ->
  hip_script hrun cwd pkg (to_str pin) (Some (to_str pout)) true = hip_client hrun cwd' pkg' (to_str pin) (to_str pout) true
  /\ (forall rep, hrun (fs_canon (to_str pin)) = HOk rep ->
        hip_script hrun cwd pkg (to_str pin) (Some (to_str pout)) true
        = {| ho_raises := false; ho_report_at := Some (to_str pout); ho_text := Some rep |}).
Proof. exact hip_entry_points_agree. Qed.
Print Assumptions C20_hip_entry_points_agree.

(* where the script's arguments lead in general: nothing depends on the starting directory; input, output and the
   default HIP.out are all resolved against the PACKAGE directory main() chdir()s into before it reads sys.argv[1] *)
Theorem C20_hip_script_paths :
  forall (cwd cwd' pkg inp : string) (out : option string) (dir_ok : bool) (hrun : string -> hsim),
  wf_abs (parse pkg) = true ->
  hip_script hrun cwd pkg inp out dir_ok = hip_script hrun cwd' pkg inp out dir_ok
  /\ parse (h_input (hip_files pkg [""; inp])) = join (parse pkg) (parse inp)
  /\ parse (h_report (hip_files pkg [""; inp])) = {| p_root := p_root (parse pkg); p_parts := (p_parts (parse pkg) ++ ["HIP.out"])%list |}
  /\ (forall o, parse (h_report (hip_files pkg [""; inp; o])) = join (parse pkg) (parse o)).
Proof. exact hip_script_paths. Qed.
Print Assumptions C20_hip_script_paths.

(* so the clause "writes the report to the requested relative path" (C20_cli_requested_path for GEOPHIRES) is REFUTED
   for the HIP-RA-X command line: a relative input is looked for, and a relative output written, in the package
   directory.  FINDING, reproduced by tools/props/C20.py (key hip-ra-x-cli:relative-path-resolved-against-package-dir). *)
Theorem C20_hip_requested_path_refuted :
  exists cwd pkg inp out, wf_abs (parse cwd) = true /\ wf_abs (parse pkg) = true /\ is_abs (parse inp) = false /\
    h_input (hip_files pkg [""; inp; out]) <> absolute cwd inp /\ h_report (hip_files pkg [""; inp; out]) <> absolute cwd out
    /\ h_input (hip_files pkg [""; inp; out]) = "/pkg/in.txt".
Proof. exact hip_requested_path_counterexample. Qed.
Print Assumptions C20_hip_requested_path_refuted.

(* exit status of the script: a failure while the parameters are read gives a non-zero status and no report; success
   with an existing output directory gives status 0 and the report at the resolved path ... *)
Theorem C20_hip_exit_partial :
  forall (hrun : string -> hsim) (cwd pkg inp : string) (out : option string) (dir_ok : bool),
  (hrun (fs_canon (h_input (hip_files pkg ("" :: inp :: match out with Some o => [o] | None => [] end)))) = HFail ->
     hip_status (hip_script hrun cwd pkg inp out dir_ok) <> 0%Z /\ ho_report_at (hip_script hrun cwd pkg inp out dir_ok) = None)
  /\ (forall rep, hrun (fs_canon (h_input (hip_files pkg ("" :: inp :: match out with Some o => [o] | None => [] end)))) = HOk rep ->
        dir_ok = true ->
        hip_status (hip_script hrun cwd pkg inp out dir_ok) = 0%Z
        /\ ho_report_at (hip_script hrun cwd pkg inp out dir_ok)
           = Some (h_report (hip_files pkg ("" :: inp :: match out with Some o => [o] | None => [] end)))
        /\ ho_text (hip_script hrun cwd pkg inp out dir_ok) = Some rep).
Proof. exact hip_exit_status. Qed.
Print Assumptions C20_hip_exit_partial.

(* ... but when the report cannot be written (main() swallows every exception of Calculate and PrintOutputs) the
   script exits with status 0 and no report, where the client raises.  FINDING (key hip-ra-x-cli:exit-0-report-not-written). *)
Theorem C20_hip_exit_refuted :
  exists (hrun : string -> hsim), forall cwd pkg inp out,
    hip_status (hip_script hrun cwd pkg inp out false) = 0%Z /\ ho_report_at (hip_script hrun cwd pkg inp out false) = None
    /\ ho_raises (hip_client hrun cwd pkg inp "/tmp/r.out" false) = true.
Proof. exact hip_exit_counterexample. Qed.
Print Assumptions C20_hip_exit_refuted.

(* ================= the input file the clients read (fix fa4a753) ================= *)

(* the same relative input path from the same directory names the same file for the command line and for
   GeophiresXClient: both hand main() the path made absolute in the caller's directory, so the chdir into the package
   cannot redirect it *)
Theorem C20_input_file_agrees : forall cwd pkg pkg' inp : string, forall (out : option string) (out' : string),
  wf_abs (parse cwd) = true ->
  input_file pkg (cli_argv cwd inp out) = absolute cwd inp /\ input_file pkg' (client_argv cwd inp out') = absolute cwd inp.
Proof. exact input_file_agrees. Qed.
Print Assumptions C20_input_file_agrees.

(* before the fix the client passed the path on as given and main() opened it relative to the package directory *)
Theorem C20_input_file_pinned_refuted :
  exists cwd pkg inp out, wf_abs (parse cwd) = true /\ wf_abs (parse pkg) = true /\
    input_file pkg (client_argv_pinned inp out) <> absolute cwd inp /\ input_file pkg (client_argv_pinned inp out) = "/pkg/in.txt".
Proof. exact input_file_pinned_counterexample. Qed.
Print Assumptions C20_input_file_pinned_refuted.

(* HipRaXClient with a relative input path built in cwd reads cwd/inp - the same run as with the absolute path, from
   anywhere, whatever the package directory ... *)
Theorem C20_hip_client_relative_input :
  forall (hrun : string -> hsim) (cwd cwd' pkg pkg' inp : string) (pout : path),
  wf_abs (parse cwd) = true -> wf_abs pout = true ->
  hip_client hrun cwd pkg inp (to_str pout) true = hip_client hrun cwd' pkg' (absolute cwd inp) (to_str pout) true
  /\ h_input (hip_files pkg [""; absolute cwd inp; to_str pout]) = absolute cwd inp.
Proof. exact hip_client_relative. Qed.
Print Assumptions C20_hip_client_relative_input.

(* ... which the client before the fix did not (it looked in the package directory and raised) *)
Theorem C20_hip_client_pinned_refuted :
  exists (hrun : string -> hsim) cwd pkg inp out,
    ho_raises (hip_client hrun cwd pkg inp out true) = false /\ ho_raises (hip_client_pinned hrun pkg inp out true) = true.
Proof. exact hip_client_pinned_counterexample. Qed.
Print Assumptions C20_hip_client_pinned_refuted.

Example C20_example_input_file :
  input_file "/pkg" (client_argv "/w/d1" "../in.txt" "/tmp/o.out") = "/w/d1/../in.txt" /\ wf_abs (parse "/w/d1") = true
  /\ fs_canon "/w/d1/../in.txt" = "/w/in.txt".
Proof. vm_compute. repeat split; reflexivity. Qed.

Example C20_example_hip :
  hip_files "/repo/src/hip_ra_x" [""; "/w/in.txt"; "/w/o.out"] = {| h_input := "/w/in.txt"; h_report := "/w/o.out" |}
  /\ hip_files "/pkg" [""; "in.txt"] = {| h_input := "/pkg/in.txt"; h_report := "/pkg/HIP.out" |}
  /\ wf_abs (parse "/w/in.txt") = true
  /\ hip_status (hip_script (fun p => if String.eqb p "/w/in.txt" then HOk "r" else HFail) "/w" "/pkg" "in.txt" (Some "/w/o.out") true) = 1%Z.
Proof. vm_compute. repeat split; reflexivity. Qed.

(* ================= which file a Model reads; histories of client calls ================= *)

(* Model(input_file=A) reads A whatever the hosting process has in sys.argv; sys.argv[1] is only the fall-back *)
Theorem C20_keyword_input_wins : forall (a : string) (argv : list string),
  model_input_source (Some a) argv = Some a /\ model_input_source None argv = nth_error argv 1.
Proof. exact keyword_input_wins. Qed.
Print Assumptions C20_keyword_input_wins.

(* for EVERY history of client calls in one process (successes, exceptions, bare sys.exit() in any order) the working
   directory after each call is the one before it, and each call gives exactly what it gives when made alone - so the
   agreement of the entry points (C20_entry_points_agree, C20_input_file_agrees) survives any history *)
Theorem C20_client_history : forall (run : string -> sim) (pkg cwd : string) (qs : list creq),
  history (client_step run) pkg cwd qs
  = map (fun q => (cwd, client run cwd pkg (q_inp q) (q_out q) (q_text q))) qs.
Proof. exact history_independent. Qed.
Print Assumptions C20_client_history.

(* a client that restores the directory only after a successful main() does not: after one failing call the process
   sits in the package directory and the next relative input path names another file *)
Theorem C20_client_history_leaky_refuted :
  exists (run : string -> sim) pkg cwd q1 q2,
    map fst (history (client_step_leaky run) pkg cwd [q1; q2]) = [pkg; pkg] /\ pkg <> cwd
    /\ input_file pkg (client_argv pkg (q_inp q2) (q_out q2)) <> input_file pkg (client_argv cwd (q_inp q2) (q_out q2)).
Proof. exact history_leaky_counterexample. Qed.
Print Assumptions C20_client_history_leaky_refuted.

Example C20_example_history :
  map fst (history (client_step sim_of_text) "/pkg" "/w"
             [{| q_inp := "a"; q_out := "/o"; q_text := "fail" |}; {| q_inp := "b"; q_out := "/o"; q_text := "abort" |};
              {| q_inp := "c"; q_out := "/o"; q_text := "ok" |}]) = ["/w"; "/w"; "/w"]
  /\ model_input_source (Some "/w/A.txt") [""; "/w/B.txt"; "/w/o.out"] = Some "/w/A.txt".
Proof. vm_compute. split; reflexivity. Qed.

(* ================= the report file after a history of runs ================= *)

(* the report is written truncate-then-write: after ANY history of successful runs (any entry point, any order, any
   paths) the file at P holds exactly one report - that of the last run that targeted P; paths nobody wrote stay absent *)
Theorem C20_report_file_is_last_run : forall (runs : list (string * N)) (p : string),
  fs_lookup p (after_runs false runs) = option_map (fun id => [id]) (last_run_to p runs).
Proof. exact report_file_is_last_run. Qed.
Print Assumptions C20_report_file_is_last_run.

(* in append mode a second run onto an existing path leaves the old report followed by the new one *)
Theorem C20_report_file_append_refuted :
  exists runs p, last_run_to p runs = Some 2%N /\ fs_lookup p (after_runs true runs) = Some [1%N; 2%N]
                 /\ fs_lookup p (after_runs false runs) = Some [2%N].
Proof. exact report_file_append_counterexample. Qed.
Print Assumptions C20_report_file_append_refuted.

Example C20_example_report_file :
  report_file_check [("/w/a.out", 1%N); ("/w/b.out", 7%N); ("/w/a.out", 3%N)] "/w/a.out" [3%N] = true
  /\ last_run_to "/w/a.out" [("/w/a.out", 1%N); ("/w/b.out", 7%N); ("/w/a.out", 3%N)] = Some 3%N.
Proof. vm_compute. split; reflexivity. Qed.
