(* Props/C19.v - The published parameter schema matches what the simulator accepts.
   Only statements; every proof is [exact <lemma>] from Proofs/SchemaProofs.v.
   The tables (Gen/ParamTable: every Parameter of every module class, discovered by scanning the packages;
   Gen/SchemaTables: the schema generated now, the committed JSON files, the client's field list) are regenerated
   from the tree under test on every run.  The theorems are the soundness of the executable comparisons for ANY
   tables - the check evaluates the comparisons on the regenerated tables inside Coq - plus the link
   "schema-allowed <-> reader-accepted" for every value, which rests on the reader model of C07. *)
From Coq Require Import QArith ZArith List String Bool.
From Verif Require Import Base.Flat Base.ParamRec Model.RangeReader Proofs.RangeReaderProofs Model.Schema Proofs.SchemaProofs.
Import ListNotations.
Open Scope Q_scope.

(* names: none missing, none extra *)
Theorem C19_names :
  forall t sch, names_ok t sch = true -> forall n, In n (pnames t) <-> In n (snames sch).
Proof. exact names_sound. Qed.
Print Assumptions C19_names.

(* fields of every consistently declared parameter *)
Theorem C19_fields :
  forall t sch, fields_ok t sch = true ->
  forall s p, In s sch -> find_name (s_name s) t = Some p -> consistent t p = true -> fields_match p s = true.
Proof. exact fields_sound. Qed.
Print Assumptions C19_fields.

(* "consistently declared": every class that accepts the name declares the same kind, default, bounds, unit, type *)
Theorem C19_consistent :
  forall t p q, consistent t p = true -> In q t -> p_name q = p_name p -> same_decl p q = true.
Proof. exact consistent_same. Qed.
Print Assumptions C19_consistent.

(* what fields_match says: type and unit equal; bounds equal to Min/Max resp. min/max of the AllowableRange *)
Theorem C19_fields_meaning :
  forall p s, fields_match p s = true ->
  s_type s = p_jtype p /\ s_units s = p_units p /\
  (p_kind p = KFloat -> exists a b, s_min s = Some a /\ a == p_min p /\ s_max s = Some b /\ b == p_max p) /\
  (p_kind p = KInt -> oQ_eqb (s_min s) (option_map inject_Z (runs_min (p_range p))) = true /\
                      oQ_eqb (s_max s) (option_map inject_Z (runs_max (p_range p))) = true /\
                      oQ_eqb (s_default s) (p_default p) = true).
Proof. exact fields_match_meaning. Qed.
Print Assumptions C19_fields_meaning.

(* enforcement, floats: for EVERY value, allowed by the schema entry <-> inside the domain the reader enforces ... *)
Theorem C19_enforced_float :
  forall p s, p_kind p = KFloat -> fields_match p s = true -> forall v, schema_allows s v = in_domain p v.
Proof. exact enforced_float. Qed.
Print Assumptions C19_enforced_float.

(* ... hence accepted and used resp. rejected by name by the reader (C07 model), the sentinel aside *)
Theorem C19_enforced_float_reader :
  forall p s v, p_kind p = KFloat -> fields_match p s = true -> is_sentinel p v = false ->
  (schema_allows s v = true -> final_is p (read_param p v) v) /\
  (schema_allows s v = false -> read_param p v = Reject (p_name p)).
Proof. exact enforced_float_reader. Qed.
Print Assumptions C19_enforced_float_reader.

(* enforcement, ints/options: whatever the reader's domain contains is schema-allowed ... *)
Theorem C19_enforced_int_sound :
  forall p s v, p_kind p = KInt -> fields_match p s = true -> in_domain p v = true -> schema_allows s v = true.
Proof. exact enforced_int_sound. Qed.
Print Assumptions C19_enforced_int_sound.

(* ... and exactly that when the option list is published or the AllowableRange is a single interval
   (PARTIAL: a gapped AllowableRange without published options is only described by its min and max) *)
Theorem C19_enforced_int_exact_partial :
  forall p s, p_kind p = KInt -> fields_match p s = true -> runs_wf (p_range p) = true -> int_exact p s = true ->
  forall v, schema_allows s v = in_domain p v.
Proof. exact enforced_int_exact. Qed.
Print Assumptions C19_enforced_int_exact_partial.

(* enforcement, array parameters read through ReadParameter (Gradients, Thicknesses): for EVERY first element and
   whatever follows it, allowed by the schema entry <-> the reader stores the supplied list (otherwise it warns and
   keeps the current list) ... *)
Theorem C19_enforced_list :
  forall p s, p_kind p = KList -> fields_match p s = true ->
  forall v rest, lstored (read_list p v rest) = schema_allows_elem s v.
Proof. exact enforced_list_first. Qed.
Print Assumptions C19_enforced_list.

Theorem C19_enforced_list_stored :
  forall p s v rest, p_kind p = KList -> fields_match p s = true ->
  (schema_allows_elem s v = true -> read_list p v rest = LStore (v :: rest)) /\
  (schema_allows_elem s v = false -> read_list p v rest = LKeep).
Proof. exact enforced_list_stored. Qed.
Print Assumptions C19_enforced_list_stored.

(* ... PARTIAL: only the first element is ever checked; an out-of-bounds later element is stored (refuted clause) *)
Theorem C19_list_rest_refuted :
  exists p s v w, p_kind p = KList /\ f_min p s = true /\ f_max p s = true /\ schema_allows_elem s v = true /\
                  schema_allows_elem s w = false /\ read_list p v [w] = LStore [v; w].
Proof. exact list_rest_refuted. Qed.
Print Assumptions C19_list_rest_refuted.

(* the generated parameter reference (.rst): every row of a consistently declared parameter shows the type, the
   preferred unit, the default and the Min / Max the simulator enforces (names: C19_names applies to the rows too) *)
Theorem C19_rst_fields :
  forall t sch, rst_ok t sch = true ->
  forall s p, In s sch -> find_name (s_name s) t = Some p -> consistent t p = true -> rst_match p s = true.
Proof. exact rst_sound. Qed.
Print Assumptions C19_rst_fields.

Theorem C19_rst_meaning :
  forall p s, rst_match p s = true ->
  s_type s = p_jtype p /\ s_units s = p_pref p /\
  (p_kind p = KFloat -> exists a b, s_min s = Some a /\ a == p_min p /\ s_max s = Some b /\ b == p_max p).
Proof. exact rst_match_meaning. Qed.
Print Assumptions C19_rst_meaning.

Theorem C19_rst_enforced_float :
  forall p s, p_kind p = KFloat -> rst_match p s = true -> forall v, schema_allows s v = in_domain p v.
Proof. exact rst_enforced_float. Qed.
Print Assumptions C19_rst_enforced_float.

(* committed files = generated schema (entry by entry: name and content hash; both inclusions) *)
Theorem C19_committed :
  forall a b, same_entries a b = true ->
  (forall e, In e a -> exists e', In e' b /\ s_name e' = s_name e /\ s_digest e' = s_digest e) /\
  (forall e, In e b -> exists e', In e' a /\ s_name e' = s_name e /\ s_digest e' = s_digest e).
Proof. exact same_entries_sound. Qed.
Print Assumptions C19_committed.

Theorem C19_committed_result :
  forall a b, same_rfields a b = true -> forall x, In x a <-> In x b.
Proof. exact same_rfields_sound. Qed.
Print Assumptions C19_committed_result.

(* every field of the result schema is a field the client extracts *)
Theorem C19_result_fields :
  forall client sch, result_fields_ok client sch = true -> forall c n d, In (c, n, d) sch -> In (c, n) client.
Proof. exact result_fields_sound. Qed.
Print Assumptions C19_result_fields.

(* ... and on a real report: every schema field whose label the report prints is extracted with a value (the check
   evaluates report_ok on the labels printed by / values extracted from reports of real runs) *)
Theorem C19_report_fields :
  forall sch printed extracted, report_ok sch printed extracted = true ->
  forall c n d, In (c, n, d) sch -> In (c, n) printed -> In (c, n) extracted.
Proof. exact report_sound. Qed.
Print Assumptions C19_report_fields.

(* string parameters: every text is allowed by a schema entry of type string and is held verbatim by the reader *)
Theorem C19_string_enforced :
  forall p e, p_kind p = KStr -> f_type p e = true -> String.eqb (p_jtype p) "string" = true ->
  forall s, schema_allows_string e s = true /\ read_string p s = Some s.
Proof. exact string_enforced. Qed.
Print Assumptions C19_string_enforced.

(* the pinned tree refutes the names clause: 30 accepted input names are not published; none is extra *)
Theorem C19_names_refuted :
  (exists n, In n pinned_accepted_names /\ ~ In n pinned_schema_names) /\
  List.length (filter (fun n => negb (mem_str n pinned_schema_names)) pinned_accepted_names) = 30%nat /\
  forallb (fun n => mem_str n pinned_accepted_names) pinned_schema_names = true.
Proof. exact pinned_names_refuted. Qed.
Print Assumptions C19_names_refuted.

(* ... and the bounds clause for 'Maximum Drawdown' (reader Max 1.000001, schema "1.0"): 1.0000005 is accepted *)
Theorem C19_bound_refuted :
  exists p s v, s_name s = p_name p /\ f_max p s = false /\ schema_allows s v = false /\ read_param p v = Accept v.
Proof. exact pinned_bound_refuted. Qed.
Print Assumptions C19_bound_refuted.

(* ---- non-vacuity ---- *)
Definition ex_depth : param :=
  mkParam "Reservoir" "Reservoir Depth" KFloat (Some (3#1)) (Some (3#1)) (1#10) (15#1) [] "kilometer" "kilometer"
          "LENGTH" true "number" "3/1".
Definition ex_depth_entry : sentry :=
  mkS "Reservoir Depth" "number" "kilometer" "Reservoir" (Some (3#1)) "3/1" (Some (1#10)) (Some (15#1)) [] "d".
Definition ex_enduse : param :=
  mkParam "SurfacePlant" "End-Use Option" KInt (Some (1#1)) (Some (1#1)) 0 0 [(1,2)%Z; (31,32)%Z; (41,42)%Z; (51,52)%Z]
          "" "" "NONE" false "integer" "1/1".
Definition ex_enduse_entry : sentry :=
  mkS "End-Use Option" "integer" "" "Surface Plant" (Some (1#1)) "1/1" (Some (1#1)) (Some (52#1))
      [1; 2; 31; 32; 41; 42; 51; 52]%Z "d".

Example C19_example :
  names_ok [ex_depth; ex_enduse] [ex_depth_entry; ex_enduse_entry] = true /\
  fields_ok [ex_depth; ex_enduse] [ex_depth_entry; ex_enduse_entry] = true /\
  consistent [ex_depth; ex_enduse] ex_depth = true /\
  fields_match ex_depth ex_depth_entry = true /\ fields_match ex_enduse ex_enduse_entry = true /\
  int_exact ex_enduse ex_enduse_entry = true /\
  schema_allows ex_depth_entry (15#1) = true /\ schema_allows ex_depth_entry (1501#100) = false /\
  schema_allows ex_enduse_entry (3#1) = false /\ schema_allows ex_enduse_entry (31#1) = true /\
  same_entries [ex_depth_entry] [ex_depth_entry] = true /\
  result_fields_ok [("SUMMARY OF RESULTS", "LCOE")]%string [("SUMMARY OF RESULTS", "LCOE", "d")]%string = true /\
  names_ok [ex_depth; ex_enduse] [ex_depth_entry] = false /\
  report_ok [("S", "LCOE", "d"); ("S", "LCOH", "d")]%string [("S", "LCOE")]%string [("S", "LCOE")]%string = true /\
  report_ok [("S", "LCOE", "d")]%string [("S", "LCOE")]%string [] = false /\
  rst_match ex_depth ex_depth_entry = true /\ rst_ok [ex_depth; ex_enduse] [ex_depth_entry] = true /\
  fields_match w_gradients w_gradients_entry = true /\ read_list w_gradients (500#1) [0] = LStore [500#1; 0] /\
  read_list w_gradients (5001#10) [0] = LKeep.
Proof. repeat split; vm_compute; reflexivity. Qed.
