(* Props/C15.v - Pumping power and modelled pressures stay physical.
   Only statements; every proof is [exact <lemma>] from Proofs/. *)
From Coq Require Import QArith Qminmax List ZArith Bool.
From Verif Require Import Base.Flat Model.Pressure Model.Pumping Model.Friction Model.WellDP Model.Hydrostatic
     Proofs.PressureProofs Proofs.PumpingProofs Proofs.FrictionProofs Proofs.WellDPProofs Proofs.HydrostaticProofs.
Import ListNotations.
Open Scope Q_scope.

(* ------------------------------------------------------------------------------------------------------
   Production-reservoir pressure.  FULL clause: "for every overpressure >= 100 % and every depletion rate > 0
   the series exists, starts at p0*op/100, declines monotonically at the stated rate, never below p0".
   The faithful model REFUTES "the series exists": a rate above 100 % per time step truncates the step count
   int((100/rate)*k) to 0 and the code divides by it. *)
Theorem C15_prod_pressure_defined_refuted :
  exists life k p0 op rate,
    (0 < life * k)%nat /\ 0 < p0 /\ 100 <= op /\ 0 < rate /\ prod_pressure life k p0 op rate = Err E_ZERODIV.
Proof. exact prod_pressure_defined_refuted. Qed.
Print Assumptions C15_prod_pressure_defined_refuted.

(* ... and exactly there: every rate above 100*k %/yr with an overpressure other than 100 % raises, whatever else *)
Theorem C15_prod_pressure_fast_depletion_is_error :
  forall life k p0 op rate,
    (0 < life * k)%nat -> ~ op == 100 -> 100 * natQ k < rate ->
    prod_pressure life k p0 op rate = Err E_ZERODIV.
Proof. exact prod_pressure_fast_is_error. Qed.
Print Assumptions C15_prod_pressure_fast_depletion_is_error.

(* The clause under the missing hypothesis rate <= 100*k: for EVERY lifetime, steps per year, hydrostatic pressure
   p0 >= 0, overpressure op >= 100 and rate in (0, 100*k] the series l has one entry per time step and
   - s = int(100*k/rate) >= 1 is the number of depletion steps,
   - l[0] = p0*op/100, every entry >= p0, the series never rises,
   - while t+1 <= s it drops by exactly (p0*op/100 - p0)/s per step, from step s on it is p0. *)
Theorem C15_prod_pressure_partial :
  forall life k p0 op rate,
  (0 < life * k)%nat -> 0 <= p0 -> 100 <= op -> 0 < rate -> rate <= 100 * natQ k ->
  exists l s,
    prod_pressure life k p0 op rate = Vals l /\ length l = (life * k)%nat /\
    (1 <= s)%Z /\ inject_Z s <= 100 * natQ k / rate /\ 100 * natQ k / rate < inject_Z s + 1 /\
    nth 0 l 0 == p0 * (op / 100) /\
    (forall t, (t < life * k)%nat -> p0 <= nth t l 0) /\
    (forall t, (S t < life * k)%nat -> nth (S t) l 0 <= nth t l 0) /\
    (forall t, (S t < life * k)%nat -> (Z.of_nat (S t) <= s)%Z ->
               nth (S t) l 0 == nth t l 0 - (p0 * (op / 100) - p0) / inject_Z s) /\
    (forall t, (t < life * k)%nat -> (s <= Z.of_nat t)%Z -> nth t l 0 == p0).
Proof. exact prod_pressure_physical. Qed.
Print Assumptions C15_prod_pressure_partial.

(* the same as one closed form per time step: l[t] = max(p0, p0*op/100 - (p0*op/100 - p0)/s * t) *)
Theorem C15_prod_pressure_closed_form :
  forall life k p0 op rate s,
  (0 < life * k)%nat -> 0 <= p0 -> 100 <= op -> depletion_steps rate k = Some s -> (1 <= s)%Z ->
  exists l, prod_pressure life k p0 op rate = Vals l /\ length l = (life * k)%nat /\
            forall t, (t < life * k)%nat -> nth t l 0 == prod_closed p0 op s t.
Proof. exact prod_pressure_closed. Qed.
Print Assumptions C15_prod_pressure_closed_form.

(* the same for ANY step count s >= 1 - in particular the one the code's float expression int((100.0/rate)*k) produced
   when it differs from the exact truncation (rounding of that expression is outside the model) *)
Theorem C15_prod_pressure_closed_form_any_steps :
  forall life k p0 op s,
  (0 < life * k)%nat -> 0 <= p0 -> 100 <= op -> (1 <= s)%Z ->
  exists l, prod_pressure_with life k p0 op (Some s) = Vals l /\ length l = (life * k)%nat /\
            forall t, (t < life * k)%nat -> nth t l 0 == prod_closed p0 op s t.
Proof. exact prod_pressure_with_closed. Qed.
Print Assumptions C15_prod_pressure_closed_form_any_steps.

(* "at the stated depletion rate": rate % of the initial overpressure per year, spread over k steps, is
   delta*rate/(100*k) per step.  The truncated step count never makes the decline slower than stated ... *)
Theorem C15_decline_never_slower_than_stated :
  forall delta rate k s,
  0 <= delta -> 0 < rate -> (0 < k)%nat -> (1 <= s)%Z -> inject_Z s <= 100 * natQ k / rate ->
  delta * rate / (100 * natQ k) <= delta / inject_Z s.
Proof. exact decline_never_slower. Qed.
Print Assumptions C15_decline_never_slower_than_stated.

(* ... and it is exactly the stated rate whenever 100*k/rate is a whole number of steps *)
Theorem C15_decline_exact_when_divisible :
  forall delta rate k s,
  0 < rate -> (0 < k)%nat -> inject_Z s == 100 * natQ k / rate ->
  delta / inject_Z s == delta * rate / (100 * natQ k).
Proof. exact decline_exact_when_divisible. Qed.
Print Assumptions C15_decline_exact_when_divisible.

(* ------------------------------------------------------------------------------------------------------
   Injection-reservoir pressure: for every lifetime, steps per year, start pressure and inflation rate (any sign)
   entry t is p0 + rate/k*t; it rises by exactly rate/k per step, strictly when rate > 0. *)
Theorem C15_inj_pressure :
  forall life k p0 rate,
  (0 < life * k)%nat ->
  exists l, inj_pressure life k p0 rate = Vals l /\ length l = (life * k)%nat /\
    (forall t, (t < life * k)%nat -> nth t l 0 == inj_closed p0 rate k t) /\
    (forall t, (S t < life * k)%nat -> nth (S t) l 0 == nth t l 0 + rate / natQ k) /\
    (0 < rate -> forall t, (S t < life * k)%nat -> nth t l 0 < nth (S t) l 0).
Proof. exact inj_pressure_rises. Qed.
Print Assumptions C15_inj_pressure.

(* which series a run gets.  FULL clause: "with an overpressure input the injection series is defined".
   REFUTED by the faithful model: without an injection-reservoir depth or inflation rate the code reads an
   unassigned local variable. *)
Theorem C15_inj_stage_defined_refuted :
  exists life k p infl prod l, prod = Vals l /\ (0 < life * k)%nat /\
    inj_stage true false false life k p infl prod = Err E_UNBOUND.
Proof. exact inj_stage_defined_refuted. Qed.
Print Assumptions C15_inj_stage_defined_refuted.

Theorem C15_inj_stage_partial :
  forall d i life k p infl prod,
  d || i = true -> inj_stage true d i life k p infl prod = inj_pressure life k p infl.
Proof. exact inj_stage_split. Qed.
Print Assumptions C15_inj_stage_partial.

Theorem C15_inj_stage_without_overpressure :
  forall life k p infl d i prod, inj_stage false d i life k p infl prod = prod.
Proof. exact inj_stage_same. Qed.
Print Assumptions C15_inj_stage_without_overpressure.

(* A second WellBores.Calculate on the same model (district heating).  FULL clause: "the injection series is defined
   again".  REFUTED: with an overpressure input and a split reservoir the first pass succeeds and the second raises
   TypeError (the stored series is compared with 0); every such input does; without overpressure it is harmless. *)
Theorem C15_second_pass_defined_refuted :
  exists d i life k p infl prod l,
    inj_stage true d i life k p infl prod = Vals l /\ inj_stage_second_pass true d i life k p infl prod = Err E_TYPE.
Proof. exact second_pass_defined_refuted. Qed.
Print Assumptions C15_second_pass_defined_refuted.

Theorem C15_second_pass_partial :
  (forall d i life k p infl prod, d || i = true -> inj_stage_second_pass true d i life k p infl prod = Err E_TYPE) /\
  (forall life k p infl d i prod, inj_stage_second_pass false d i life k p infl prod = prod).
Proof. exact (conj second_pass_type_error second_pass_same). Qed.
Print Assumptions C15_second_pass_partial.

(* ------------------------------------------------------------------------------------------------------
   Pumping power, productivity/injectivity-index model (pumped and self-flowing), every series length:
   production, injection and total power are >= 0 at every time step for ANY pressure drops, densities,
   efficiency, flow and well counts; with production pumps the total is exactly injection + production,
   without them it is the injection power. *)
Theorem C15_index_model_nonneg_and_sum :
  forall pumping nprod q wl eff dpp dpi rhop rhoi pp pi t,
  prod_power_series pumping nprod q eff dpp rhop = Some pp ->
  inj_power_series nprod q wl eff dpi rhoi = Some pi ->
  total_power pumping pi pp = Some t ->
  length t = length pi /\
  (forall i, (i < length pp)%nat -> 0 <= nth i pp 0) /\
  (forall i, (i < length pi)%nat -> 0 <= nth i pi 0) /\
  (forall i, (i < length t)%nat -> 0 <= nth i t 0) /\
  (forall i, (i < length t)%nat -> nth i t 0 == if pumping then nth i pi 0 + nth i pp 0 else nth i pi 0).
Proof. exact index_stage. Qed.
Print Assumptions C15_index_model_nonneg_and_sum.

(* impedance model: the power series is >= 0 at every time step, for any overall pressure drop *)
Theorem C15_impedance_model_nonneg :
  forall ninj q wl eff dp rho l,
  imp_power_series ninj q wl eff dp rho = Some l ->
  length l = length dp /\ forall i, (i < length l)%nat -> 0 <= nth i l 0.
Proof. exact imp_series_nonneg. Qed.
Print Assumptions C15_impedance_model_nonneg.

(* what the clamp does: zero when the wells self-flow, the demand itself otherwise *)
Theorem C15_impedance_clamp :
  forall ninj q wl eff dp rho,
  (imp_power_raw ninj q wl eff dp rho < 0 -> imp_power ninj q wl eff dp rho = 0) /\
  (0 <= imp_power_raw ninj q wl eff dp rho -> imp_power ninj q wl eff dp rho = imp_power_raw ninj q wl eff dp rho).
Proof. exact imp_power_cases. Qed.
Print Assumptions C15_impedance_clamp.

(* ------------------------------------------------------------------------------------------------------
   Friction.  Laminar flow: DP = 128 mu q depth/(pi rho D^4)/1000 exactly, hence never larger for a larger
   diameter (all positive flows, densities, viscosities, depths). *)
Theorem C15_friction_laminar_closed :
  forall q rho mu pi depth d,
  ~ q == 0 -> ~ rho == 0 -> ~ mu == 0 -> ~ pi == 0 -> ~ d == 0 ->
  dp_laminar q rho mu pi depth d == 128 * mu * q * depth / (pi * rho * 1000) / (d * d * d * d).
Proof. exact dp_laminar_closed. Qed.
Print Assumptions C15_friction_laminar_closed.

Theorem C15_friction_laminar :
  forall q rho mu pi depth d1 d2,
  0 < q -> 0 < rho -> 0 < mu -> 0 < pi -> 0 <= depth -> 0 < d1 -> d1 <= d2 ->
  dp_laminar q rho mu pi depth d2 <= dp_laminar q rho mu pi depth d1.
Proof. exact dp_laminar_mono. Qed.
Print Assumptions C15_friction_laminar.

(* Any regime, any turbulent correlation [colebrook relroughness Re] (library code: log10, sqrt, powers):
   PARTIAL - if the friction factor of the code grows slower than D^5 (premise, checked on the real
   WellPressureDrop over the parameter box on every run), the pressure loss never increases with D.
   The premise covers the laminar/turbulent switch as well. *)
Theorem C15_friction_turbulent_partial :
  forall colebrook q rho mu pi depth,
  0 < rho -> 0 < pi -> 0 <= depth ->
  (forall d1 d2, 0 < d1 -> d1 <= d2 ->
      well_f colebrook q mu pi d2 * pow5 d1 <= well_f colebrook q mu pi d1 * pow5 d2) ->
  forall d1 d2, 0 < d1 -> d1 <= d2 ->
    dp_of (well_f colebrook q mu pi d2) q rho pi depth d2 <= dp_of (well_f colebrook q mu pi d1) q rho pi depth d1.
Proof. exact well_dp_mono. Qed.
Print Assumptions C15_friction_turbulent_partial.

(* the laminar factor 64/Re meets that premise unconditionally *)
Theorem C15_friction_laminar_growth :
  forall q mu pi d1 d2,
  0 < q -> 0 < mu -> 0 < pi -> 0 < d1 -> d1 <= d2 ->
  f_laminar (reynolds q mu pi d2) * pow5 d1 <= f_laminar (reynolds q mu pi d1) * pow5 d2.
Proof. exact laminar_growth. Qed.
Print Assumptions C15_friction_laminar_growth.

(* the per-run check of the premise is sound: where the checker accepts two (diameter, friction factor) pairs
   produced by the code, the modelled pressure loss at the larger diameter is not larger *)
Theorem C15_friction_checker_sound :
  forall f1 f2 q rho pi depth d1 d2,
  growth_ok d1 f1 d2 f2 = true ->
  0 < rho -> 0 < pi -> 0 <= depth -> 0 < d1 -> 0 < d2 ->
  dp_of f2 q rho pi depth d2 <= dp_of f1 q rho pi depth d1.
Proof. exact growth_ok_sound. Qed.
Print Assumptions C15_friction_checker_sound.

(* ------------------------------------------------------------------------------------------------------
   How the friction term enters the pump pressures (index model: production and injection pump; impedance model:
   overall drop): always with a plus sign - pump pressure = (everything else) + frictional loss. *)
Theorem C15_friction_enters_with_plus_sign :
  (forall pwh phyd q pikpa rho depth fric,
     dp_prod_index pwh phyd q pikpa rho depth fric == dp_prod_index pwh phyd q pikpa rho depth 0 + fric) /\
  (forall phyd q wl nprod ninj iikpa rho depth fric pout,
     dp_inj_index phyd q wl nprod ninj iikpa rho depth fric pout ==
     dp_inj_index phyd q wl nprod ninj iikpa rho depth 0 pout + fric) /\
  (forall imp nprod q rhores rhop rhoi depth dpp dpi,
     dp_overall (dp_reserv imp nprod q rhores) dpp (dp_buoyancy rhop rhoi depth) dpi ==
     dp_overall (dp_reserv imp nprod q rhores) 0 (dp_buoyancy rhop rhoi depth) 0 + dpp + dpi).
Proof. exact (conj dp_prod_index_split (conj dp_inj_index_split imp_overall_split)). Qed.
Print Assumptions C15_friction_enters_with_plus_sign.

(* hence, with everything but the diameter equal and the growth premise on the friction factors, neither the
   production pump pressure nor the (clamped) production pumping power grows with the production-well diameter ... *)
Theorem C15_prod_pump_vs_diameter_partial :
  forall pwh phyd q pikpa rho pi depth nprod eff f1 f2 d1 d2,
  0 < rho -> 0 < pi -> 0 <= depth -> 0 < d1 -> 0 < d2 -> 0 <= nprod -> 0 <= q -> 0 < eff ->
  f2 * pow5 d1 <= f1 * pow5 d2 ->
  let dp d f := dp_prod_index pwh phyd q pikpa rho depth (dp_of f q rho pi depth d) in
  dp d2 f2 <= dp d1 f1 /\
  prod_power true nprod q eff (dp d2 f2) rho <= prod_power true nprod q eff (dp d1 f1) rho.
Proof. exact prod_index_vs_diameter. Qed.
Print Assumptions C15_prod_pump_vs_diameter_partial.

(* ... nor the injection pump pressure / power with the injection-well diameter ([qw]: flow in one injection well) *)
Theorem C15_inj_pump_vs_diameter_partial :
  forall phyd q qw wl nprod ninj iikpa rho pi depth pout eff f1 f2 d1 d2,
  0 < rho -> 0 < pi -> 0 <= depth -> 0 < d1 -> 0 < d2 -> 0 <= nprod -> 0 <= q -> 0 <= 1 + wl -> 0 < eff ->
  f2 * pow5 d1 <= f1 * pow5 d2 ->
  let dp d f := dp_inj_index phyd q wl nprod ninj iikpa rho depth (dp_of f qw rho pi depth d) pout in
  dp d2 f2 <= dp d1 f1 /\
  inj_power nprod q wl eff (dp d2 f2) rho <= inj_power nprod q wl eff (dp d1 f1) rho.
Proof. exact inj_index_vs_diameter. Qed.
Print Assumptions C15_inj_pump_vs_diameter_partial.

(* impedance model: a smaller well friction (either well) never gives a larger overall drop or pumping power *)
Theorem C15_impedance_vs_friction :
  forall imp nprod ninj q wl eff rhores rhop rhoi depth dpp1 dpp2 dpi1 dpi2,
  0 <= ninj -> 0 <= q -> 0 <= 1 + wl -> 0 < rhoi -> 0 < eff -> dpp2 <= dpp1 -> dpi2 <= dpi1 ->
  let dpo dpp dpi := dp_overall (dp_reserv imp nprod q rhores) dpp (dp_buoyancy rhop rhoi depth) dpi in
  dpo dpp2 dpi2 <= dpo dpp1 dpi1 /\
  imp_power ninj q wl eff (dpo dpp2 dpi2) rhoi <= imp_power ninj q wl eff (dpo dpp1 dpi1) rhoi.
Proof. exact imp_vs_friction. Qed.
Print Assumptions C15_impedance_vs_friction.

(* ------------------------------------------------------------------------------------------------------
   What surrounds the friction factor in WellPressureDrop / InjectionWellPressureDrop.
   Velocity conserves mass; the code's Reynolds number 4q/(mu pi D) is rho v D/mu; both fall when D grows. *)
Theorem C15_velocity_and_reynolds :
  (forall q rho pi d, ~ rho == 0 -> ~ pi == 0 -> ~ d == 0 -> velocity q rho pi d * rho * (pi / 4 * (d * d)) == q) /\
  (forall q rho mu pi d, ~ rho == 0 -> ~ mu == 0 -> ~ pi == 0 -> ~ d == 0 ->
     reynolds q mu pi d == rho * velocity q rho pi d * d / mu) /\
  (forall q rho pi d1 d2, 0 <= q -> 0 < rho -> 0 < pi -> 0 < d1 -> d1 <= d2 -> velocity q rho pi d2 <= velocity q rho pi d1) /\
  (forall q mu pi d1 d2, 0 <= q -> 0 < mu -> 0 < pi -> 0 < d1 -> d1 <= d2 -> reynolds q mu pi d2 <= reynolds q mu pi d1).
Proof. exact (conj velocity_mass_balance (conj reynolds_textbook (conj velocity_antimono reynolds_antimono))). Qed.
Print Assumptions C15_velocity_and_reynolds.

(* the laminar/turbulent switch as the code has it: Re < 2300 -> 64/Re; Re >= 2300 (2300 included) -> the turbulent
   correlation with relative roughness 1E-4/D; a laminar well stays laminar when D grows; just below the switch the
   factor is above 64/2300, so f is not continuous at the switch in general (none is claimed) *)
Theorem C15_regime_switch :
  (forall colebrook q mu pi d, reynolds q mu pi d < 2300 -> well_f colebrook q mu pi d = f_laminar (reynolds q mu pi d)) /\
  (forall colebrook q mu pi d, 2300 <= reynolds q mu pi d ->
     well_f colebrook q mu pi d = colebrook ((1 # 10000) / d) (reynolds q mu pi d)) /\
  (forall q mu pi d1 d2, 0 <= q -> 0 < mu -> 0 < pi -> 0 < d1 -> d1 <= d2 ->
     reynolds q mu pi d1 < 2300 -> reynolds q mu pi d2 < 2300) /\
  (forall re, 0 < re -> re < 2300 -> 64 / 2300 < f_laminar re).
Proof. exact (conj well_f_laminar_branch (conj well_f_turbulent_branch (conj laminar_stays_laminar laminar_factor_above_limit))). Qed.
Print Assumptions C15_regime_switch.

(* a whole series gets ONE branch, chosen by the average Reynolds number ... *)
Theorem C15_series_branch :
  (forall q pi d mu fturb, laminar_regime q pi d mu = true ->
     friction_series q pi d mu fturb = map (fun m => f_laminar (reynolds q m pi d)) mu) /\
  (forall q pi d mu fturb, laminar_regime q pi d mu = false -> friction_series q pi d mu fturb = fturb).
Proof. exact (conj friction_series_laminar friction_series_turbulent). Qed.
Print Assumptions C15_series_branch.

(* ... so a time step whose own Re is >= 2300 can be given the laminar factor (what the code does) *)
Theorem C15_regime_decided_by_average :
  exists q pi d mu fturb, laminar_regime q pi d mu = true /\ 2300 <= reynolds q (nth 0 mu 0) pi d /\
    nth 0 (friction_series q pi d mu fturb) 0 == f_laminar (reynolds q (nth 0 mu 0) pi d).
Proof. exact regime_decided_by_average. Qed.
Print Assumptions C15_regime_decided_by_average.

(* every step's pressure loss is f_i * rho_i * v_i^2/2 * L/D / 1000 with the step's own factor and density, in both wells
   (the injection well with the flow nprod/ninj*q*(1+waterloss)) *)
Theorem C15_pressure_loss_per_step :
  (forall q pi depth d f rho i, (i < length f)%nat -> (i < length rho)%nat ->
     nth i (dp_series q pi depth d f rho) 0 = dp_of (nth i f 0) q (nth i rho 0) pi depth d) /\
  (forall f q rho pi depth d,
     dp_of f q rho pi depth d = f * (rho * (velocity q rho pi d * velocity q rho pi d) / 2) * (depth / d) / 1000).
Proof. exact (conj dp_series_nth dp_of_formula). Qed.
Print Assumptions C15_pressure_loss_per_step.

(* ------------------------------------------------------------------------------------------------------
   Static (litho-/hydrostatic) column rho*g*depth: positive, strictly increasing and additive in depth, monotone in
   the density - for all positive densities and depths. *)
Theorem C15_static_pressure :
  (forall rho depth, 0 < rho -> 0 < depth -> 0 < static_pressure_MPa rho depth) /\
  (forall rho d1 d2, 0 <= rho -> d1 <= d2 -> static_pressure_MPa rho d1 <= static_pressure_MPa rho d2) /\
  (forall rho d1 d2, 0 < rho -> d1 < d2 -> static_pressure_MPa rho d1 < static_pressure_MPa rho d2) /\
  (forall rho d1 d2, static_pressure_MPa rho (d1 + d2) == static_pressure_MPa rho d1 + static_pressure_MPa rho d2) /\
  (forall r1 r2 depth, 0 <= depth -> r1 <= r2 -> static_pressure_MPa r1 depth <= static_pressure_MPa r2 depth).
Proof. exact (conj static_pos (conj static_mono (conj static_strict (conj static_additive static_density_mono)))). Qed.
Print Assumptions C15_static_pressure.

(* Built-in hydrostatic correlation 1/CP*(exp(x) - 1), x = rho*9.81*CP/1000*(depth - CT/2*grad*depth^2):
   for ANY function in the place of math.exp that is > 1 on positive arguments the pressure is positive as long as
   CT*grad*depth < 2 ... *)
Theorem C15_hydrostatic_positive :
  forall ex rho pw grad depth,
  (forall x, 0 < x -> 1 < ex x) ->
  0 < rho -> 0 < depth -> ct_of pw * grad * depth < 2 -> 0 < hydrostatic_kPa ex rho pw grad depth.
Proof. exact hydrostatic_pos. Qed.
Print Assumptions C15_hydrostatic_positive.

(* ... and, for any non-decreasing [ex], non-decreasing in depth up to the vertex depth <= 1/(CT*grad) (PARTIAL:
   beyond it the code's correlation decreases with depth, next theorem) *)
Theorem C15_hydrostatic_monotone_partial :
  forall ex rho pw grad d1 d2,
  (forall x y, x <= y -> ex x <= ex y) ->
  0 <= rho -> 0 <= d1 -> d1 <= d2 -> ct_of pw * grad * d2 <= 1 ->
  hydrostatic_kPa ex rho pw grad d1 <= hydrostatic_kPa ex rho pw grad d2.
Proof. exact hydrostatic_mono. Qed.
Print Assumptions C15_hydrostatic_monotone_partial.

Theorem C15_hydrostatic_monotone_refuted :
  exists rho ct grad d1 d2, 0 < rho /\ 0 < ct /\ 0 < grad /\ 0 < d1 /\ d1 < d2 /\
    hydro_arg rho ct grad d2 < hydro_arg rho ct grad d1.
Proof. exact hydro_arg_not_monotone. Qed.
Print Assumptions C15_hydrostatic_monotone_refuted.

(* never below the temperature-corrected linear column when ex x >= 1 + x (a fact about exp) *)
Theorem C15_hydrostatic_lower_bound :
  forall ex rho pw grad depth,
  (forall x, 1 + x <= ex x) ->
  rho * (981 # 100) / 1000 * (depth - ct_of pw / 2 * grad * (depth * depth)) <= hydrostatic_kPa ex rho pw grad depth.
Proof. exact hydrostatic_lower_bound. Qed.
Print Assumptions C15_hydrostatic_lower_bound.

(* ------------------------------------------------------------------------------------------------------
   non-vacuity: the hypotheses are satisfiable and the models compute what the comments say *)
Example C15_example_prod :
  (exists l, prod_pressure 2 3 1000 150 40 = Vals l /\ length l = 6%nat /\ nth 0 l 0 == 1500 /\
             nth 1 l 0 == 10000 # 7 /\ nth 5 l 0 == 8000 # 7)
  /\ depletion_steps 40 3 = Some 7%Z /\ 40 <= 100 * natQ 3.
Proof.
  split. { eexists. split; [vm_compute; reflexivity|]. repeat split; vm_compute; reflexivity. }
  split; [vm_compute; reflexivity|]. vm_compute. discriminate.
Qed.

Example C15_example_prod_floor :
  exists l, prod_pressure 3 1 1000 120 50 = Vals l /\ nth 0 l 0 == 1200 /\ nth 1 l 0 == 1100 /\ nth 2 l 0 == 1000.
Proof. eexists. split; [vm_compute; reflexivity|]. repeat split; vm_compute; reflexivity. Qed.

Example C15_example_inj :
  exists l, inj_pressure 1 4 9000 200 = Vals l /\ nth 3 l 0 == 9150.
Proof. eexists. split; [vm_compute; reflexivity|]. vm_compute. reflexivity. Qed.

Example C15_example_stage :
  inj_stage true true false 1 2 9000 200 (Vals [1; 1]) = inj_pressure 1 2 9000 200 /\ (true || false = true).
Proof. split; reflexivity. Qed.

Example C15_example_index :
  exists pp pi t,
    prod_power_series true 2 50 (8 # 10) [-500; 900] [900; 900] = Some pp /\
    inj_power_series 2 50 (2 # 100) (8 # 10) [700; -100] [980; 980] = Some pi /\
    total_power true pi pp = Some t /\ nth 0 pp 0 == 0 /\ nth 1 pi 0 == 0 /\ 0 < nth 0 t 0 /\ 0 < nth 1 t 0.
Proof.
  eexists; eexists; eexists. split; [vm_compute; reflexivity|]. split; [vm_compute; reflexivity|].
  split; [vm_compute; reflexivity|]. repeat split; vm_compute; reflexivity.
Qed.

Example C15_example_impedance :
  imp_power_raw 2 50 (2 # 100) (8 # 10) (-300) 980 < 0 /\ imp_power 2 50 (2 # 100) (8 # 10) (-300) 980 = 0
  /\ 0 < imp_power 2 50 (2 # 100) (8 # 10) 3000 980.
Proof. repeat split; vm_compute; reflexivity. Qed.

Example C15_example_friction :
  dp_laminar 1 1000 (1 # 1000) (355 # 113) 3000 (7 # 10) < dp_laminar 1 1000 (1 # 1000) (355 # 113) 3000 (5 # 10)
  /\ growth_ok (2 # 10) (15 # 1000) (25 # 100) (16 # 1000) = true
  /\ well_f (fun _ _ => 2 # 100) 1 (1 # 1000) (355 # 113) (7 # 10) == 64 / reynolds 1 (1 # 1000) (355 # 113) (7 # 10).
Proof. repeat split; vm_compute; reflexivity. Qed.

Example C15_example_pump_pressure :
  dp_prod_index 1500 29000 55 (5 # 100) 900 3000 200 == dp_prod_index 1500 29000 55 (5 # 100) 900 3000 0 + 200
  /\ 0 < dp_prod_index 1500 29000 55 (5 # 100) 900 3000 200
  /\ (16 # 1000) * pow5 (2 # 10) <= (15 # 1000) * pow5 (25 # 100).
Proof. split; [vm_compute; reflexivity|]. split; [vm_compute; reflexivity|]. vm_compute. discriminate. Qed.

Example C15_example_hydrostatic :
  0 < static_pressure_MPa 1000 3000 /\ static_pressure_MPa 1000 3000 == 2941995 # 100000
  /\ 0 < hydro_arg 990 (ct_of (5 # 100)) (5 # 100) 3000 /\ ct_of (5 # 100) * (5 # 100) * 3000 <= 1
  /\ 0 < hydrostatic_kPa (fun x => 1 + x) 990 (5 # 100) (5 # 100) 3000.
Proof. repeat split; vm_compute; try reflexivity; discriminate. Qed.
