(* Props/C16.v - Price and incentive schedules have the documented shape.
   Only statements; every proof is [exact <lemma>] from Proofs/. *)
From Coq Require Import QArith Qminmax List ZArith Bool.
From Verif Require Import Base.Flat Model.Price Proofs.PriceProofs.
Import ListNotations.
Open Scope Q_scope.

(* The schedule of a product, for EVERY lifetime, escalation start (any integer), rate, start/end price
   (including start > end), PTC duration <= lifetime and inflation setting:
   year k is  min(start + max(0,k-esc)*rate , end)  +  PTC_k,
   PTC_k = ptc (x (1+infl)^k if inflation adjusted) for k < duration and 0 afterwards. *)
Theorem C16_schedule_shape :
  forall life prov dur ptc adj infl start endp esc rate r,
  product_schedule life prov dur ptc adj infl start endp esc rate = Some r ->
  length r = life /\
  forall k, (k < life)%nat ->
    nth k r 0 == Qmin (start + esc_term esc rate k) endp
                 + (if prov then ptc_term dur ptc adj infl k else 0).
Proof. exact product_schedule_year. Qed.
Print Assumptions C16_schedule_shape.

(* the schedule exists exactly when the PTC duration fits in the lifetime (the code raises IndexError otherwise) *)
Theorem C16_schedule_defined :
  forall life prov dur ptc adj infl start endp esc rate,
  (prov = false \/ (dur <= life)%nat) ->
  exists r, product_schedule life prov dur ptc adj infl start endp esc rate = Some r.
Proof. exact product_schedule_defined. Qed.
Print Assumptions C16_schedule_defined.

Theorem C16_duration_too_long_is_error :
  forall life dur ptc adj infl start endp esc rate,
  (life < dur)%nat -> product_schedule life true dur ptc adj infl start endp esc rate = None.
Proof. exact product_schedule_error. Qed.
Print Assumptions C16_duration_too_long_is_error.

(* before PTC, the price never exceeds the ending price *)
Theorem C16_cap : forall start endp esc rate i, price_at start endp esc rate i <= endp.
Proof. exact price_at_le_end. Qed.
Print Assumptions C16_cap.

(* up to and including the escalation start year the price is the starting price (capped) *)
Theorem C16_start : forall start endp esc rate i,
  (Z.of_nat i <= esc)%Z -> price_at start endp esc rate i == Qmin start endp.
Proof. exact price_at_before_escalation. Qed.
Print Assumptions C16_start.

(* from the escalation start year on, the uncapped price rises by exactly [rate] per year *)
Theorem C16_linear : forall esc rate i,
  (esc <= Z.of_nat i)%Z -> esc_term esc rate (S i) == esc_term esc rate i + rate.
Proof. exact esc_term_step. Qed.
Print Assumptions C16_linear.

(* PTC window on the PTC schedule itself *)
Theorem C16_ptc_window : forall life dur ptc adj infl pl,
  ptc_model life dur ptc adj infl = Some pl ->
  (dur <= life)%nat /\ length pl = life /\
  forall k, (k < life)%nat -> nth k pl 0 == ptc_term dur ptc adj infl k.
Proof. exact ptc_model_nth. Qed.
Print Assumptions C16_ptc_window.

(* construction years: zero price, then the schedule unchanged *)
Theorem C16_construction_zero : forall cy l k,
  (k < cy)%nat -> nth k (pad_construction cy l) 0 == 0.
Proof. exact pad_construction_zero. Qed.
Print Assumptions C16_construction_zero.

Theorem C16_construction_shift : forall cy l k,
  nth (cy + k) (pad_construction cy l) 0 = nth k l 0.
Proof. exact pad_construction_shift. Qed.
Print Assumptions C16_construction_shift.

(* non-vacuity: a concrete schedule meeting the hypotheses (start > end would also do) *)
Example C16_example :
  exists r, product_schedule 5 true 2 (1#100) true (2#100) (5#100) (7#100) 1 (1#100) = Some r /\
            nth 4 r 0 == 7#100 /\ nth 1 r 0 == (5#100) + (1#100) * (102#100).
Proof. eexists. split. vm_compute. reflexivity. split; vm_compute; reflexivity. Qed.

(* investment tax credit, grants, incentives and fees change capital cost by exactly their stated amounts *)
From Verif Require Import Model.Costs Proofs.CostsProofs.
Theorem C16_itc_grants : forall k : cost_in,
  (k_ritc_provided k = true -> ritc_value k == k_ritc k * ccap_pre k /\
                               ccap k == (1 - k_ritc k) * ccap_pre k + k_flat k - k_other k - k_grant k) /\
  (k_ritc_provided k = false -> ritc_value k == 0 /\ ccap k == ccap_pre k + k_flat k - k_other k - k_grant k).
Proof. exact itc_exact. Qed.
Print Assumptions C16_itc_grants.

(* annual fees and tax relief change annual O&M by exactly their stated amounts *)
Theorem C16_fees_tax_relief : forall k : cost_in,
  coam k == coam_pre k + redrill_amortised k + k_annual_fee k - k_taxrelief k.
Proof. exact coam_fees_exact. Qed.
Print Assumptions C16_fees_tax_relief.
