(* Props/C11.v - Economic results scale the way the definitions require.  Statements only. *)
From Coq Require Import QArith List ZArith Bool.
From Verif Require Import Base.Flat Model.CashFlow Model.Lcoe Model.Costs
     Proofs.CashFlowProofs Proofs.LcoeProofs Proofs.CostsProofs Proofs.ScalingProofs Props.C01.
Import ListNotations.
Open Scope Q_scope.

(* multiplying every cost input (capital, O&M, electricity purchase rate and the other annual cost streams) by k
   multiplies LCOE, LCOH and LCOC by k: every k, all three economic models, every end-use and plant type, every lifetime *)
Theorem C11_homogeneous : forall (k : Q) (c : lc_in), teq (lcoe_spec (scale_costs k c)) (tscale k (lcoe_spec c)).
Proof. exact lcoe_homogeneous. Qed.
Print Assumptions C11_homogeneous.

(* ... and the same holds of what the code computes (numpy-vector transcription), by C01 *)
Theorem C11_homogeneous_code : forall (k : Q) (c : lc_in), wf_l c -> wf_l (scale_costs k c) ->
  teq (lcoe_code (scale_costs k c)) (tscale k (lcoe_code c)).
Proof. exact lcoe_code_homogeneous. Qed.
Print Assumptions C11_homogeneous_code.

(* halving the end-use efficiency (heat series x 1/2) doubles the levelized cost of direct-use heat *)
Theorem C11_efficiency : forall c : lc_in, classify (l_enduse c) (l_plant c) = LHeat ->
  snd (fst (lcoe_spec (with_heat c (map (Qmult (1 # 2)) (l_heat c))))) == 2 * snd (fst (lcoe_spec c)).
Proof. exact lcoh_doubles_when_efficiency_halves. Qed.
Print Assumptions C11_efficiency.

Theorem C11_efficiency_general : forall (s : Q) (c : lc_in), classify (l_enduse c) (l_plant c) = LHeat ->
  snd (fst (lcoe_spec (with_heat c (map (Qmult s) (l_heat c))))) == / s * snd (fst (lcoe_spec c)).
Proof. exact lcoh_efficiency_scaling. Qed.
Print Assumptions C11_efficiency_general.

(* sale prices are not an argument of the levelized-cost function (its input record [lc_in] has no price field);
   NPV is non-decreasing in every yearly sale price when the energies sold are non-negative and 1 + r > 0 ... *)
Theorem C11_npv_price_monotone : forall (r : Q) (c : cf_in) (pE pH pC pE' pH' pC' : list Q), 0 < 1 + r ->
  nonneg (ci_eE c) -> nonneg (ci_eH c) -> nonneg (ci_eC c) ->
  Forall2 Qle pE pE' -> Forall2 Qle pH pH' -> Forall2 Qle pC pC' ->
  npv r (total_cashflow (with_prices c pE pH pC)) <= npv r (total_cashflow (with_prices c pE' pH' pC')).
Proof. exact npv_mono_in_prices. Qed.
Print Assumptions C11_npv_price_monotone.

(* ... and strictly increasing as soon as one operating year with positive energy gets a strictly higher price *)
Theorem C11_npv_price_strict : forall (r : Q) (c : cf_in) (pE pE' : list Q), 0 < 1 + r ->
  ci_kind c = KElec -> ci_carbon c = false -> nonneg (ci_eE c) -> Forall2 Qle pE pE' ->
  (exists j, 0 < nth j (ci_eE c) 0 /\ nth j pE 0 < nth j pE' 0 /\ (j < length (ci_eE c))%nat /\ (j < length pE)%nat) ->
  npv r (total_cashflow (with_prices c pE (ci_pH c) (ci_pC c))) < npv r (total_cashflow (with_prices c pE' (ci_pH c) (ci_pC c))).
Proof. exact npv_strict_in_electricity_price. Qed.
Print Assumptions C11_npv_price_strict.

(* ... for every single-product end-use, with or without carbon revenue (the carbon-price series, identical in both
   runs, covers the years the product is sold): electricity, direct-use heat, cooling *)
Theorem C11_npv_price_strict_elec_carbon : forall (r : Q) (c : cf_in) (pE pE' : list Q), 0 < 1 + r ->
  ci_kind c = KElec -> nonneg (ci_eE c) -> Forall2 Qle pE pE' ->
  (ci_carbon c = true -> (length (ci_eE c) <= length (ci_pCarb c))%nat) ->
  (exists j, 0 < nth j (ci_eE c) 0 /\ nth j pE 0 < nth j pE' 0 /\ (j < length (ci_eE c))%nat /\ (j < length pE)%nat) ->
  npv r (total_cashflow (with_prices c pE (ci_pH c) (ci_pC c))) < npv r (total_cashflow (with_prices c pE' (ci_pH c) (ci_pC c))).
Proof. exact npv_strict_in_electricity_price_carbon. Qed.
Print Assumptions C11_npv_price_strict_elec_carbon.

Theorem C11_npv_price_strict_heat : forall (r : Q) (c : cf_in) (pH pH' : list Q), 0 < 1 + r ->
  ci_kind c = KHeat -> nonneg (ci_eH c) -> Forall2 Qle pH pH' ->
  (ci_carbon c = true -> (length (ci_eH c) <= length (ci_pCarb c))%nat) ->
  (exists j, 0 < nth j (ci_eH c) 0 /\ nth j pH 0 < nth j pH' 0 /\ (j < length (ci_eH c))%nat /\ (j < length pH)%nat) ->
  npv r (total_cashflow (with_prices c (ci_pE c) pH (ci_pC c))) < npv r (total_cashflow (with_prices c (ci_pE c) pH' (ci_pC c))).
Proof. exact npv_strict_in_heat_price. Qed.
Print Assumptions C11_npv_price_strict_heat.

Theorem C11_npv_price_strict_cooling : forall (r : Q) (c : cf_in) (pC pC' : list Q), 0 < 1 + r ->
  ci_kind c = KCool -> nonneg (ci_eC c) -> Forall2 Qle pC pC' ->
  (ci_carbon c = true -> (length (ci_eC c) <= length (ci_eH c))%nat /\ (length (ci_eC c) <= length (ci_pCarb c))%nat) ->
  (exists j, 0 < nth j (ci_eC c) 0 /\ nth j pC 0 < nth j pC' 0 /\ (j < length (ci_eC c))%nat /\ (j < length pC)%nat) ->
  npv r (total_cashflow (with_prices c (ci_pE c) (ci_pH c) pC)) < npv r (total_cashflow (with_prices c (ci_pE c) (ci_pH c) pC')).
Proof. exact npv_strict_in_cooling_price. Qed.
Print Assumptions C11_npv_price_strict_cooling.

(* co-generation sells electricity and heat: a strictly higher price of either product in one year where it is sold,
   with no price of the other product falling, raises NPV strictly *)
Theorem C11_npv_price_strict_cogen_elec : forall (r : Q) (c : cf_in) (pE pE' pH pH' : list Q), 0 < 1 + r ->
  ci_kind c = KCogen -> nonneg (ci_eE c) -> nonneg (ci_eH c) -> Forall2 Qle pE pE' -> Forall2 Qle pH pH' ->
  (length (ci_eE c) <= length (ci_eH c))%nat -> (length (ci_eE c) <= length pH)%nat ->
  (ci_carbon c = true -> (length (ci_eE c) <= length (ci_pCarb c))%nat) ->
  (exists j, 0 < nth j (ci_eE c) 0 /\ nth j pE 0 < nth j pE' 0 /\ (j < length (ci_eE c))%nat /\ (j < length pE)%nat) ->
  npv r (total_cashflow (with_prices c pE pH (ci_pC c))) < npv r (total_cashflow (with_prices c pE' pH' (ci_pC c))).
Proof. exact npv_strict_in_cogen_electricity_price. Qed.
Print Assumptions C11_npv_price_strict_cogen_elec.

Theorem C11_npv_price_strict_cogen_heat : forall (r : Q) (c : cf_in) (pE pE' pH pH' : list Q), 0 < 1 + r ->
  ci_kind c = KCogen -> nonneg (ci_eE c) -> nonneg (ci_eH c) -> Forall2 Qle pE pE' -> Forall2 Qle pH pH' ->
  (length (ci_eH c) <= length (ci_eE c))%nat -> (length (ci_eH c) <= length pE)%nat ->
  (ci_carbon c = true -> (length (ci_eH c) <= length (ci_pCarb c))%nat) ->
  (exists j, 0 < nth j (ci_eH c) 0 /\ nth j pH 0 < nth j pH' 0 /\ (j < length (ci_eH c))%nat /\ (j < length pH)%nat) ->
  npv r (total_cashflow (with_prices c pE pH (ci_pC c))) < npv r (total_cashflow (with_prices c pE' pH' (ci_pC c))).
Proof. exact npv_strict_in_cogen_heat_price. Qed.
Print Assumptions C11_npv_price_strict_cogen_heat.

(* a zero-rate tax credit, zero fees, zero incentives and a zero grant leave capital cost unchanged *)
Theorem C11_neutral_adjustments : forall k : cost_in,
  k_ritc k == 0 -> k_flat k == 0 -> k_other k == 0 -> k_grant k == 0 -> ccap k == ccap_pre k.
Proof. exact neutral_adjustments. Qed.
Print Assumptions C11_neutral_adjustments.

(* an add-on with zero gains and zero cost leaves energies, CAPEX and OPEX unchanged *)
Theorem C11_neutral_addon : forall (e : list Q) (capex opex : Q),
  Forall2 Qeq (addon_energy 0 e) e /\ capex + 0 == capex /\ opex + 0 == opex.
Proof. exact zero_addon_neutral. Qed.
Print Assumptions C11_neutral_addon.

(* ... stated on the cash-flow model of EconomicsAddOns.Calculate (the one the C04 correspondence evaluates against the
   code's own AddOn / Project cash-flow vectors): an add-on with zero CAPEX, OPEX, gains and profit has an all-zero
   cash flow, and the project cash flow with it equals, year by year, the project cash flow without it *)
Theorem C11_zero_addon_cashflow : forall a : addon_in,
  a_capex a == 0 -> a_opex a == 0 -> a_egain a == 0 -> a_hgain a == 0 -> a_profit a == 0 ->
  allzero (addon_cashflow a).
Proof. exact zero_addon_cashflow_is_zero. Qed.
Print Assumptions C11_zero_addon_cashflow.

Theorem C11_zero_addon_project : forall a : addon_in,
  a_capex a == 0 -> a_opex a == 0 -> a_egain a == 0 -> a_hgain a == 0 -> a_profit a == 0 ->
  Forall2 Qeq (addon_project_cashflow a) (base_project_cashflow a).
Proof. exact zero_addon_project_cashflow. Qed.
Print Assumptions C11_zero_addon_project.

(* ... so the project's NPV (every discount rate) and its cumulative cash flow (every year) are unchanged as well *)
Theorem C11_zero_addon_npv : forall (a : addon_in) (r : Q),
  a_capex a == 0 -> a_opex a == 0 -> a_egain a == 0 -> a_hgain a == 0 -> a_profit a == 0 ->
  npv r (addon_project_cashflow a) == npv r (base_project_cashflow a).
Proof. exact zero_addon_npv. Qed.
Print Assumptions C11_zero_addon_npv.

Theorem C11_zero_addon_cumulative : forall a : addon_in,
  a_capex a == 0 -> a_opex a == 0 -> a_egain a == 0 -> a_hgain a == 0 -> a_profit a == 0 ->
  Forall2 Qeq (running (addon_project_cashflow a)) (running (base_project_cashflow a)).
Proof. exact zero_addon_cumulative. Qed.
Print Assumptions C11_zero_addon_cumulative.

(* ... and the same payback period (the code's payback loop, Python's cum[-1] wrap-around included) *)
Theorem C11_zero_addon_payback : forall a : addon_in,
  a_capex a == 0 -> a_opex a == 0 -> a_egain a == 0 -> a_hgain a == 0 -> a_profit a == 0 ->
  payback (running (addon_project_cashflow a)) == payback (running (base_project_cashflow a)).
Proof. exact zero_addon_payback. Qed.
Print Assumptions C11_zero_addon_payback.

(* ... and the same project VIR and MOIC (adjusted CAPEX = CCap + add-on CAPEX, adjusted OPEX = Coam + add-on OPEX) *)
Theorem C11_zero_addon_vir : forall (a : addon_in) (r : Q),
  a_capex a == 0 -> a_opex a == 0 -> a_egain a == 0 -> a_hgain a == 0 -> a_profit a == 0 ->
  vir (npv r (addon_project_cashflow a)) (a_ccap a + a_capex a) == vir (npv r (base_project_cashflow a)) (a_ccap a).
Proof. exact zero_addon_vir. Qed.
Print Assumptions C11_zero_addon_vir.

Theorem C11_zero_addon_moic : forall (a : addon_in) (life : nat),
  a_capex a == 0 -> a_opex a == 0 -> a_egain a == 0 -> a_hgain a == 0 -> a_profit a == 0 ->
  moic (running (addon_project_cashflow a)) (a_ccap a + a_capex a) (a_coam a + a_opex a) life
  == moic (running (base_project_cashflow a)) (a_ccap a) (a_coam a) life.
Proof. exact zero_addon_moic. Qed.
Print Assumptions C11_zero_addon_moic.

(* the neutral tax credit / fees / incentives / grant carried through to the results: the project cash flow (every year),
   its NPV (every discount rate) and the payback period computed from the adjusted capital cost equal those computed from
   the unadjusted one *)
Theorem C11_neutral_adjustments_results : forall (k : cost_in) (c : cf_in) (r : Q),
  k_ritc k == 0 -> k_flat k == 0 -> k_other k == 0 -> k_grant k == 0 ->
  Forall2 Qeq (total_cashflow (with_ccap c (ccap k))) (total_cashflow (with_ccap c (ccap_pre k))) /\
  npv r (total_cashflow (with_ccap c (ccap k))) == npv r (total_cashflow (with_ccap c (ccap_pre k))) /\
  payback (running (total_cashflow (with_ccap c (ccap k)))) == payback (running (total_cashflow (with_ccap c (ccap_pre k)))).
Proof. exact neutral_adjustments_cashflow. Qed.
Print Assumptions C11_neutral_adjustments_results.

(* multiplying every year's cash flow by k (all costs and all sale prices x k) multiplies NPV by k, at every discount rate *)
Theorem C11_npv_homogeneous : forall (r k : Q) (cf : list Q), npv r (map (Qmult k) cf) == k * npv r cf.
Proof. exact npv_scale. Qed.
Print Assumptions C11_npv_homogeneous.

(* ... and leaves the payback period unchanged (k > 0): the cumulative cash flow is multiplied by k in every year *)
Theorem C11_payback_scale_invariant : forall (k : Q) (cum : list Q), 0 < k -> payback (map (Qmult k) cum) == payback cum.
Proof. exact payback_scale. Qed.
Print Assumptions C11_payback_scale_invariant.

(* ---- non-vacuity ---- *)
Example ex_scale : let c := Verif.Props.C01.ex1 in
  let '(a, b, _) := lcoe_exec c in let '(a3, b3, _) := lcoe_exec (scale_costs 3 c) in a3 == 3 * a /\ b3 == 3 * b /\ 0 < a.
Proof. vm_compute. repeat split; discriminate. Qed.

(* a heat plant with carbon revenue meets the hypotheses of C11_npv_price_strict_heat, and NPV does rise *)
Example ex_heat_strict :
  let c := {| ci_kind := KHeat; ci_cy := 2; ci_ccap := 30; ci_coam := 1; ci_carbon := true; ci_gi := 1 # 2; ci_ni := 1 # 3;
              ci_eE := []; ci_eH := [1000000; 900000; 800000]; ci_eC := [];
              ci_pE := []; ci_pH := [2; 2; 2]; ci_pC := []; ci_pCarb := [1 # 100; 1 # 100; 1 # 100] |} in
  nonneg (ci_eH c) /\ (length (ci_eH c) <= length (ci_pCarb c))%nat /\
  npv (7 # 100) (total_cashflow (with_prices c (ci_pE c) [2; 2; 2] (ci_pC c)))
    < npv (7 # 100) (total_cashflow (with_prices c (ci_pE c) [2; 3; 2] (ci_pC c))).
Proof.
  cbv zeta. split; [|split].
  - unfold nonneg. cbn [ci_eH]. repeat (apply Forall_cons; [discriminate|]). apply Forall_nil.
  - cbn [ci_eH ci_pCarb length]. apply le_n.
  - vm_compute. reflexivity.
Qed.

(* a co-generation project with a zero add-on: the base cash flow is not trivial (length 5, non-zero years) *)
Example ex_zero_addon :
  let a := {| a_kind := KCogen; a_cy := 2; a_ccap := 40; a_coam := 3; a_capex := 0; a_opex := 0; a_egain := 0; a_hgain := 0;
              a_profit := 0; a_net := [5000000; 4000000; 3000000]; a_heat := [2000000; 2000000; 2000000];
              a_pE := [1; 1; 1]; a_pH := [1 # 2; 1 # 2; 1 # 2] |} in
  length (base_project_cashflow a) = 5%nat /\ nth 2 (base_project_cashflow a) 0 == 3 /\
  nth 2 (addon_project_cashflow a) 0 == 3 /\ nth 0 (addon_project_cashflow a) 0 == - (20).
Proof. cbv zeta. vm_compute. repeat split. Qed.

(* a cumulative cash flow with a crossing: payback 2 + 10/(5+10), the same after scaling by 7 *)
Example ex_payback_scale : payback [-(30); -(10); 5; 20] == 2 + (2 # 3) /\ payback (map (Qmult 7) [-(30); -(10); 5; 20]) == 2 + (2 # 3).
Proof. vm_compute. split; reflexivity. Qed.
