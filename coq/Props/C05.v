(* Props/C05.v - Resource temperature and thermal drawdown obey the model definition.
   Only statements; every proof is [exact <lemma>] from Proofs/.
   Models: Model/Gradient.v (read_parameters heuristics + Reservoir.Calculate walk), Model/Drawdown.v
   (reservoir models 1-4), Model/Redrill.v (WellBores.Calculate redrilling step). *)
From Coq Require Import QArith Qminmax List ZArith Bool Lia Lqa.
From Verif Require Import Base.Flat Model.Gradient Model.Redrill Model.Drawdown Model.ResCalc Proofs.ResCalcProofs
  Proofs.GradientProofs Proofs.RedrillProofs Proofs.DrawdownProofs Gen.C05Ranges Proofs.C05RangeProofs.
Import ListNotations.
Open Scope Q_scope.

(* ================================ bottom-hole temperature ================================ *)

(* for ANY number of layers: the walk is surface temperature + integral of the segment gradients down to d *)
Theorem C05_walk_eq_integral : forall Ts upper gb d,
  Forall (fun p => 0 <= snd p) upper -> 0 <= d ->
  Tprofile Ts upper gb d == Ts + grad_integral upper gb 0 d.
Proof. exact Tprofile_eq_integral. Qed.
Print Assumptions C05_walk_eq_integral.

(* bottom-hole temperature = min(T(depth), Tmax) *)
Theorem C05_cap : forall Ts Tmax upper gb depth, wf upper gb -> Ts <= Tmax ->
  trock Ts Tmax upper gb depth == Qmin (Tprofile Ts upper gb depth) Tmax.
Proof. exact trock_is_min. Qed.
Print Assumptions C05_cap.

Theorem C05_never_above_Tmax : forall Ts Tmax upper gb depth, wf upper gb -> Ts <= Tmax ->
  trock Ts Tmax upper gb depth <= Tmax.
Proof. exact trock_le_Tmax. Qed.
Print Assumptions C05_never_above_Tmax.

(* the depth is reduced exactly when the temperature at the requested depth would exceed Tmax, and then to
   the depth at which Tmax is reached *)
Theorem C05_depth_reduced_exactly_when_needed : forall Ts Tmax upper gb depth, wf upper gb -> Ts <= Tmax ->
  (Tprofile Ts upper gb depth <= Tmax ->
     Tprofile Ts upper gb (capped_depth Ts Tmax upper gb depth) == Tprofile Ts upper gb depth) /\
  (Tmax < Tprofile Ts upper gb depth ->
     capped_depth Ts Tmax upper gb depth < depth /\
     Tprofile Ts upper gb (capped_depth Ts Tmax upper gb depth) == Tmax).
Proof. exact cap_exact. Qed.
Print Assumptions C05_depth_reduced_exactly_when_needed.

(* the code-shaped computation of Reservoir.Calculate (interface list pre-filled with 1000, next(), cumsum,
   max()) is that function, for 1..4 segments and any list contents *)
Theorem C05_code_walk_refines : forall n Ts Tmax gs ths depth,
  (1 <= n <= 4)%nat -> (n <= length gs)%nat -> (n <= length ths)%nat ->
  Forall (fun g => 0 < g) gs -> Forall (fun t => 0 < t) ths ->
  Ts < Tmax -> Tmax < 1000 -> 0 < depth -> depth <= sumQ (firstn n ths) ->
  exists T d, bht_code n Ts Tmax gs ths depth = Good (T, d) /\
    d == capped_depth Ts Tmax (upper_of n gs ths) (bottom_of n gs) depth /\
    T == trock Ts Tmax (upper_of n gs ths) (bottom_of n gs) depth.
Proof. exact bht_code_refines. Qed.
Print Assumptions C05_code_walk_refines.

(* from the input file: for every accepted input (1..4 segments, ANY gradients, positive thicknesses, depth in
   (0,100] km or omitted (then 3 km), Tsurf < Tmax < 1000) the magnitude heuristics give well-formed layers, the run succeeds and
   bottom-hole temperature = min(T(depth walked), Tmax) <= Tmax *)
Theorem C05_bht_of_input : forall i, input_ok i ->
  let gs := gradients_of i in let ths := thicknesses_of i in
  let upper := upper_of (bi_n i) gs ths in let gb := bottom_of (bi_n i) gs in
  wf upper gb /\
  exists T d, bht_of_input i = Good (T, d) /\
    T == Qmin (Tprofile (bi_Ts i) upper gb (depth_metres (bi_depth_km i))) (bi_Tmax i) /\
    T <= bi_Tmax i /\
    d == capped_depth (bi_Ts i) (bi_Tmax i) upper gb (depth_metres (bi_depth_km i)).
Proof. exact bht_of_input_correct. Qed.
Print Assumptions C05_bht_of_input.

(* every input inside the ranges the CURRENT source accepts (Gen/C05Ranges.v, regenerated from Reservoir.py on every
   run) with Tsurf < Tmax satisfies those hypotheses; widening a range beyond them (e.g. Tmax up to the 1000 degC pre-fill
   of the interface list) breaks this proof *)
Theorem C05_accepted_inputs : forall i, in_ranges i -> bi_Ts i < bi_Tmax i -> input_ok i.
Proof. exact ranges_imply_input_ok. Qed.
Print Assumptions C05_accepted_inputs.

(* the property's first sentence, for every accepted input, with or without a Reservoir Depth line *)
Theorem C05_bht_meets_definition : forall i, input_ok i ->
  exists T d, bht_of_input i = Good (T, d) /\ T == bht_spec i.
Proof. exact bht_meets_spec. Qed.
Print Assumptions C05_bht_meets_definition.

(* the pinned tree (before fix a8610e4) failed it without that line: the 3 km default was walked as 3 m (15.15 degC
   instead of 165 degC); kept as a named alternative, the witness is corpus/C05/01_depth_omitted.json *)
Theorem C05_bht_default_depth_pinned_refuted :
  exists i, input_ok i /\ bi_depth_km i = None /\
            exists T d, bht_of_input_pinned i = Good (T, d) /\ ~ T == bht_spec i.
Proof. exact bht_default_depth_pinned_refuted. Qed.
Print Assumptions C05_bht_default_depth_pinned_refuted.

(* inside the usual ranges the heuristics read gradients as degC/km and thicknesses as km *)
Theorem C05_heuristics_keep_documented_units :
  (forall g, 1 < g -> g <= 500 -> norm_gradient g == g / 1000) /\
  (forall t, t < 100 -> norm_thickness t == t * 1000).
Proof. exact heuristics_keep_documented_units. Qed.
Print Assumptions C05_heuristics_keep_documented_units.

(* ================================ histories start at bottom-hole temperature ================================ *)

Theorem C05_head_tdp : forall Trock Tinj dd ts, ts <> [] -> hd 0 ts == 0 ->
  hd 0 (tdp_series Trock Tinj dd ts) == Trock.
Proof. exact tdp_head. Qed.
Print Assumptions C05_head_tdp.

Theorem C05_head_sf : forall erf sqrt Trock Tinj dd cpw K ts, ts <> [] ->
  hd 0 (sf_series erf sqrt Trock Tinj dd cpw K ts) = Trock.
Proof. exact sf_head. Qed.
Print Assumptions C05_head_sf.

Theorem C05_head_mpf : forall Trock Tinj tw, hd 0 (mpf_series Trock Tinj tw) = Trock.
Proof. exact mpf_head. Qed.
Print Assumptions C05_head_mpf.

Theorem C05_head_lhs : forall Trock Tinj tw, hd 0 (lhs_series Trock Tinj tw) = Trock.
Proof. exact lhs_head. Qed.
Print Assumptions C05_head_lhs.

(* the time vector of every lifetime and step count starts at 0 *)
Theorem C05_timevector_starts_at_zero : forall L n, (1 <= n)%nat -> hd 0 (timevector L n) == 0.
Proof. exact timevector_hd. Qed.
Print Assumptions C05_timevector_starts_at_zero.

(* redrilling keeps the first element of the reservoir history *)
Theorem C05_head_preserved : forall P T maxdd, (1 <= length P)%nat -> length T = length P ->
  hd 0 (rd_T (redrill P T maxdd)) = hd 0 T.
Proof. exact head_preserved. Qed.
Print Assumptions C05_head_preserved.

(* ================================ redrilling ================================ *)

(* for EVERY history with a non-negative initial production temperature and every limit in [0,1]:
   no production temperature of the result is below (1 - maxdrawdown) x the initial one *)
Theorem C05_redrill_floor : forall P T maxdd, 0 <= hd 0 P -> 0 <= maxdd <= 1 ->
  Forall (fun x => drawdown_limit maxdd P <= x) (rd_P (redrill P T maxdd)).
Proof. exact redrill_floor. Qed.
Print Assumptions C05_redrill_floor.

Theorem C05_redrill_floor_negative_refuted :
  exists P T maxdd, hd 0 P < 0 /\ 0 < maxdd <= 1 /\
    ~ Forall (fun x => drawdown_limit maxdd P <= x) (rd_P (redrill P T maxdd)).
Proof. exact redrill_floor_negative_refuted. Qed.
Print Assumptions C05_redrill_floor_negative_refuted.

Theorem C05_redrill_length : forall P T maxdd,
  length (rd_P (redrill P T maxdd)) = length P /\
  (length T = length P -> length (rd_T (redrill P T maxdd)) = length P).
Proof. exact redrill_length. Qed.
Print Assumptions C05_redrill_length.

(* wells are redrilled at the first step whose production temperature is below the limit ... *)
Theorem C05_redrill_index : forall P maxdd, index_of P maxdd <> 0%nat ->
  nth (index_of P maxdd) P 0 < drawdown_limit maxdd P /\
  Forall (fun x => drawdown_limit maxdd P <= x) (firstn (index_of P maxdd) P).
Proof. exact index_spec. Qed.
Print Assumptions C05_redrill_index.

(* ... never otherwise ... *)
Theorem C05_redrill_unchanged : forall P T maxdd, index_of P maxdd = 0%nat ->
  rd_P (redrill P T maxdd) = P /\ rd_T (redrill P T maxdd) = T /\ rd_count (redrill P T maxdd) = 0%nat.
Proof. exact redrill_unchanged_when_never_below. Qed.
Print Assumptions C05_redrill_unchanged.

(* ... and both series then repeat their first cycle: element j is element (j mod index) *)
Theorem C05_redrill_cycle : forall P T maxdd, index_of P maxdd <> 0%nat -> length T = length P ->
  forall j, (j < length P)%nat ->
    nth j (rd_P (redrill P T maxdd)) 0 = nth (j mod index_of P maxdd) P 0 /\
    nth j (rd_T (redrill P T maxdd)) 0 = nth (j mod index_of P maxdd) T 0.
Proof. exact redrill_cycle. Qed.
Print Assumptions C05_redrill_cycle.

(* the profile restarts from its beginning at every multiple of the index inside the series *)
Theorem C05_redrill_restarts : forall P T maxdd, index_of P maxdd <> 0%nat -> length T = length P ->
  forall k, (k * index_of P maxdd < length P)%nat ->
    nth (k * index_of P maxdd) (rd_P (redrill P T maxdd)) 0 = hd 0 P /\
    nth (k * index_of P maxdd) (rd_T (redrill P T maxdd)) 0 = hd 0 T.
Proof. exact redrill_restarts. Qed.
Print Assumptions C05_redrill_restarts.

(* the reported count is floor(length / index) >= 1; all reported redrillings but possibly the last fall inside
   the series; the last one does iff the index does not divide the length *)
Theorem C05_redrill_count_partial : forall P T maxdd, index_of P maxdd <> 0%nat ->
  let idx := index_of P maxdd in let r := rd_count (redrill P T maxdd) in
  r = (length P / idx)%nat /\ (1 <= r)%nat /\ ((r - 1) * idx < length P)%nat /\
  ((r * idx < length P)%nat <-> (length P mod idx <> 0)%nat) /\
  ((length P mod idx = 0)%nat -> (r * idx = length P)%nat).
Proof. exact redrill_count. Qed.
Print Assumptions C05_redrill_count_partial.

(* "restarting at each reported redrilling" fails when the index divides the length: 2 reported, 1 restart *)
Theorem C05_redrill_count_refuted :
  exists P T maxdd, 0 <= hd 0 P /\ 0 < maxdd <= 1 /\ length T = length P /\ index_of P maxdd <> 0%nat /\
    ~ (rd_count (redrill P T maxdd) * index_of P maxdd < length P)%nat.
Proof. exact redrill_count_refuted. Qed.
Print Assumptions C05_redrill_count_refuted.

(* WellBores.Calculate called again on the same object (district heating): whatever count the earlier call left, the
   result - series, index and count - is that of a fresh call (the code resets the count since fix 825a507) *)
Theorem C05_second_call : forall prev P T maxdd, redrill_call prev P T maxdd = redrill P T maxdd.
Proof. exact redrill_call_fresh. Qed.
Print Assumptions C05_second_call.

Theorem C05_second_call_series : forall prev P T maxdd,
  rd_P (redrill_call prev P T maxdd) = rd_P (redrill P T maxdd) /\
  rd_T (redrill_call prev P T maxdd) = rd_T (redrill P T maxdd) /\
  rd_index (redrill_call prev P T maxdd) = rd_index (redrill P T maxdd).
Proof. exact redrill_call_series. Qed.
Print Assumptions C05_second_call_series.

(* the count after any second call equals the count of a fresh call; it is 0 when the profile never falls below the limit *)
Theorem C05_second_call_count : forall prev P T maxdd,
  rd_count (redrill_call prev P T maxdd) = rd_count (redrill P T maxdd) /\
  (index_of P maxdd = 0%nat -> rd_count (redrill_call prev P T maxdd) = 0%nat).
Proof. exact redrill_call_count. Qed.
Print Assumptions C05_second_call_count.

(* the pinned tree (before the fix) kept the earlier count when the second call did not redrill: right only when the
   object was fresh or the second call redrills ... *)
Theorem C05_second_call_pinned_count_partial : forall prev P T maxdd, prev = 0%nat \/ index_of P maxdd <> 0%nat ->
  rd_count (redrill_call_pinned prev P T maxdd) = rd_count (redrill P T maxdd).
Proof. exact redrill_call_pinned_count_partial. Qed.
Print Assumptions C05_second_call_pinned_count_partial.

(* ... otherwise the first call's count was reported for a profile that never restarts
   (regression witness on the implementation: corpus/C05/06_district_heating_stale_redrill_count.json) *)
Theorem C05_second_call_pinned_stale_count_refuted :
  exists prev P T maxdd, 0 <= hd 0 P /\ 0 < maxdd <= 1 /\ index_of P maxdd = 0%nat /\
    rd_P (redrill_call_pinned prev P T maxdd) = P /\ rd_count (redrill_call_pinned prev P T maxdd) <> 0%nat /\
    rd_count (redrill_call prev P T maxdd) = 0%nat.
Proof. exact redrill_call_pinned_stale_count_refuted. Qed.
Print Assumptions C05_second_call_pinned_stale_count_refuted.

(* ================================ models 4 and 3: bounded by bottom-hole temperature, never rising inside a cycle ============ *)

(* every lifetime L, step count n, wellbore-drop series, drawdown rate and limit; hypothesis: injection temperature
   (after the wellbore gain) not above bottom-hole temperature *)
Theorem C05_tdp_monotone_bounded_partial : forall Trock Tinj dd maxdd L n drops,
  0 <= L -> (1 <= n)%nat -> 0 <= dd -> Tinj <= Trock -> length drops = n ->
  history_ok Trock n (finish (tdp_series Trock Tinj dd (timevector L n)) drops maxdd).
Proof. exact tdp_history. Qed.
Print Assumptions C05_tdp_monotone_bounded_partial.

Theorem C05_tdp_rises_refuted :
  exists Trock Tinj dd ts, Trock < Tinj /\ 0 < dd /\ nondec ts /\ Forall (fun t => 0 <= t) ts /\
    ~ noninc (tdp_series Trock Tinj dd ts) /\ ~ Forall (fun x => x <= Trock) (tdp_series Trock Tinj dd ts).
Proof. exact tdp_rises_refuted. Qed.
Print Assumptions C05_tdp_rises_refuted.

(* single fracture: erf and sqrt are library functions; what is used of them is stated *)
Theorem C05_sf_monotone_bounded_partial : forall (erf sqrt : Q -> Q) Trock Tinj dd cpw K maxdd L n drops,
  (forall x y, 0 <= x -> x <= y -> erf x <= erf y) -> (forall x, 0 <= x -> 0 <= erf x /\ erf x <= 1) ->
  (forall x y, 0 <= x -> x <= y -> sqrt x <= sqrt y) -> (forall x, 0 <= x -> 0 <= sqrt x) ->
  0 < L -> (1 <= n)%nat -> 0 < dd -> 0 < cpw -> 0 <= K -> Tinj <= Trock -> length drops = n ->
  history_ok Trock n (finish (sf_series erf sqrt Trock Tinj dd cpw K (timevector L n)) drops maxdd).
Proof. exact sf_history. Qed.
Print Assumptions C05_sf_monotone_bounded_partial.

(* model 2 replaces every value outside [Tinj, Trock] by Trock *)
Theorem C05_lhs_range : forall Trock Tinj tw,
  Forall (fun x => x = Trock \/ (Tinj <= x /\ x <= Trock)) (lhs_series Trock Tinj tw).
Proof. exact lhs_range. Qed.
Print Assumptions C05_lhs_range.

(* ================================ the checkers run on the real series are sound ================================ *)

Theorem C05_floor_checker_sound : forall maxdd P, floor_ok 0 maxdd P = true ->
  Forall (fun x => drawdown_limit maxdd P <= x) P.
Proof. exact floor_ok_sound. Qed.
Print Assumptions C05_floor_checker_sound.

Theorem C05_periodic_checker_sound : forall idx l, periodic idx l = true ->
  forall j, (j + idx < length l)%nat -> nth (j + idx) l 0 == nth j l 0.
Proof. exact periodic_sound. Qed.
Print Assumptions C05_periodic_checker_sound.

(* the monotone-within-cycles checker: an accepted series never rises inside a cycle (tol = 0: slack = 0) *)
Theorem C05_monotone_checker_sound : forall tol idx l, noninc_between tol idx l = true ->
  forall j, (S j < length l)%nat -> (S j mod cycle_of idx l <> 0)%nat ->
    nth (S j) l 0 <= nth j l 0 + slack tol (nth j l 0).
Proof. exact noninc_between_sound. Qed.
Print Assumptions C05_monotone_checker_sound.

Theorem C05_bound_checker_sound : forall hi l, all_le hi l = true -> Forall (fun x => x <= hi) l.
Proof. exact all_le_sound. Qed.
Print Assumptions C05_bound_checker_sound.

(* the model-2 range checker (run on every model-2 history) *)
Theorem C05_lhs_range_checker_sound : forall Trock Tinj l, lhs_range_ok 0 Trock Tinj l = true ->
  Forall (fun x => x == Trock \/ (Tinj <= x /\ x <= Trock)) l.
Proof. exact lhs_range_ok_sound. Qed.
Print Assumptions C05_lhs_range_checker_sound.

(* ================================ the rest of Reservoir.Calculate ================================ *)

(* average gradient x (capped) depth = bottom-hole temperature - surface temperature, for 1..4 segments *)
Theorem C05_average_gradient : forall n Ts Tmax gs ths depth,
  (1 <= n <= 4)%nat -> (n <= length gs)%nat -> (n <= length ths)%nat ->
  Forall (fun g => 0 < g) gs -> Forall (fun t => 0 < t) ths ->
  Ts < Tmax -> Tmax < 1000 -> 0 < depth -> depth <= sumQ (firstn n ths) ->
  exists T d, bht_code n Ts Tmax gs ths depth = Good (T, d) /\ 0 < d /\
              average_gradient n gs Ts T d * d == T - Ts.
Proof. exact average_gradient_spec. Qed.
Print Assumptions C05_average_gradient.

(* fracture geometry by shape option; sqrt enters as the premise r*r == 4/pi*area *)
Theorem C05_fracture_geometry : forall pi sq s,
  (let g := frac_geometry 1 pi sq s in
     fs_height g = sq /\ fs_width g = sq /\ fs_area g = fs_area s /\
     (~ pi == 0 -> sq * sq == 4 / pi * fs_area s -> pi / 4 * fs_height g * fs_width g == fs_area g)) /\
  (let g := frac_geometry 2 pi sq s in
     fs_height g = fs_height s /\ fs_width g = fs_height s /\ fs_area g = pi / 4 * fs_height s * fs_height s) /\
  (let g := frac_geometry 3 pi sq s in
     fs_height g = fs_height s /\ fs_width g = fs_height s /\ fs_area g = fs_height s * fs_height s) /\
  (let g := frac_geometry 4 pi sq s in
     fs_height g = fs_height s /\ fs_width g = fs_width s /\ fs_area g = fs_height s * fs_width s).
Proof. exact geometry_shapes. Qed.
Print Assumptions C05_fracture_geometry.

(* reservoir volume options 1-3: whichever quantity is derived, V = (N - 1) x A x separation afterwards *)
Theorem C05_volume_identity : forall r s, geometry_of r = Good s -> (1 <= ri_opt r <= 3)%Z ->
  fs_vol s == (fs_numb s - 1) * fs_area s * fs_sep s.
Proof. exact volume_identity. Qed.
Print Assumptions C05_volume_identity.

(* option 4: the supplied volume (and fracture number and separation) verbatim *)
Theorem C05_volume_option4_verbatim : forall r, ri_opt r = 4%Z ->
  exists s, geometry_of r = Good s /\ fs_vol s = ri_resvol r /\ fs_numb s = ri_numb r /\ fs_sep s = ri_sep r.
Proof. exact volume_option4_verbatim. Qed.
Print Assumptions C05_volume_option4_verbatim.

Theorem C05_heat_linear_in_volume : forall k vol rho cp T Tinj,
  heat_content (k * vol) rho cp T Tinj == k * heat_content vol rho cp T Tinj.
Proof. exact heat_linear_in_volume. Qed.
Print Assumptions C05_heat_linear_in_volume.

Theorem C05_heat_additive_in_volume : forall v1 v2 rho cp T Tinj,
  heat_content (v1 + v2) rho cp T Tinj == heat_content v1 rho cp T Tinj + heat_content v2 rho cp T Tinj.
Proof. exact heat_additive_in_volume. Qed.
Print Assumptions C05_heat_additive_in_volume.

Theorem C05_heat_nonneg : forall vol rho cp T Tinj, 0 <= vol -> 0 <= rho -> 0 <= cp -> Tinj <= T ->
  0 <= heat_content vol rho cp T Tinj.
Proof. exact heat_nonneg. Qed.
Print Assumptions C05_heat_nonneg.

(* ================================ reservoir classes that override the walk ================================ *)

Theorem C05_cylindrical_single_layer : forall Ts g0 din, cyl_trock Ts g0 din = Tprofile Ts [] g0 (din * 1000).
Proof. exact cyl_is_single_layer. Qed.
Print Assumptions C05_cylindrical_single_layer.

(* the cylindrical reservoir does not apply the Tmax cap (outside the property's quantifier: reservoir model 0) *)
Theorem C05_cylindrical_no_cap_refuted : exists Ts g0 din Tmax, Ts < Tmax /\ 0 < g0 /\ Tmax < cyl_trock Ts g0 din.
Proof. exact cyl_no_cap_refuted. Qed.
Print Assumptions C05_cylindrical_no_cap_refuted.

Theorem C05_sbt_single_segment : forall Ts g0 rest ep, sbt_trock 1 Ts (g0 :: rest) ep == Tprofile Ts [] g0 ep.
Proof. exact sbt_single_segment. Qed.
Print Assumptions C05_sbt_single_segment.

(* SBT averages the segment gradients without their thicknesses (outside the property's quantifier: reservoir model 8) *)
Theorem C05_sbt_unweighted_mean_refuted :
  exists Ts g1 th1 g2 ep, 0 < g1 /\ 0 < g2 /\ 0 < th1 /\ th1 < ep /\
    ~ sbt_trock 2 Ts [g1; g2] ep == Tprofile Ts [(g1, th1)] g2 ep.
Proof. exact sbt_unweighted_mean_refuted. Qed.
Print Assumptions C05_sbt_unweighted_mean_refuted.

(* ================================ non-vacuity ================================ *)

(* well-formed layers with Tsurf <= Tmax: 15 degC, 50 degC/km over 2 km, 30 degC/km over 1 km, 80 degC/km below; Tmax 400 *)
Example C05_ex_layers :
  wf [(5 # 100, 2000); (3 # 100, 1000)] (8 # 100) /\ 15 <= 400 /\
  trock 15 400 [(5 # 100, 2000); (3 # 100, 1000)] (8 # 100) 3500 == 185 /\
  trock 15 150 [(5 # 100, 2000); (3 # 100, 1000)] (8 # 100) 3500 == 150.
Proof. split. split. reflexivity. repeat constructor. split. discriminate. split; vm_compute; reflexivity. Qed.

(* an accepted 3-segment input with a depth line: hypotheses of C05_bht_of_input / C05_bht_meets_definition *)
Definition C05_ex_input : bht_input :=
  {| bi_n := 3; bi_Ts := 12; bi_Tmax := 181; bi_depth_km := Some (45 # 10);
     bi_grad := [Some (514 # 10); Some (799 # 10); Some (699 # 10)]; bi_thick := [Some (52 # 100); Some (43 # 100)] |}.
Example C05_ex_input_ok :
  input_ok C05_ex_input /\ bi_depth_km C05_ex_input = Some (45 # 10) /\
  exists T d, bht_of_input C05_ex_input = Good (T, d) /\ T == 181 /\ d < 4500.
Proof.
  split.
  - unfold input_ok, C05_ex_input, prefill, user_pos.
    cbn [bi_n bi_Ts bi_Tmax bi_depth_km bi_thick].
    split; [lia|]. split; [lra|]. split; [lra|]. split; [lra|].
    intros v [H|[H|[]]]; inversion H; subst; lra.
  - split. reflexivity. eexists. eexists. split. vm_compute. reflexivity. split; vm_compute; reflexivity.
Qed.

(* a history that needs two redrillings: hypotheses of the redrill theorems (P[0] >= 0, limit in [0,1], index <> 0) *)
Example C05_ex_redrill :
  let P := [100; 98; 95; 89; 85; 80; 70] in
  0 <= hd 0 P /\ index_of P (1 # 10) = 3%nat /\
  rd_P (redrill P P (1 # 10)) = [100; 98; 95; 100; 98; 95; 100] /\ rd_count (redrill P P (1 # 10)) = 2%nat.
Proof. cbv zeta. split. discriminate. split. reflexivity. split; vm_compute; reflexivity. Qed.

(* hypotheses of the TDP theorem: lifetime 10, 5 steps, Tinj 50 <= Trock 200 *)
Example C05_ex_tdp :
  0 <= 10 /\ (1 <= 5)%nat /\ 0 <= (1 # 100) /\ 50 <= 200 /\
  map Qred (rd_T (finish (tdp_series 200 50 (1 # 100) (timevector 10 5)) [5; 5; 5; 5; 5] (1 # 50)))
  = [200; 785 # 4; 200; 785 # 4; 200].
Proof. repeat split; try discriminate; try lia. Qed.

(* the example input lies inside the generated ranges: hypotheses of C05_accepted_inputs *)
Example C05_ex_in_ranges : in_ranges C05_ex_input /\ bi_Ts C05_ex_input < bi_Tmax C05_ex_input.
Proof.
  split; [|reflexivity]. unfold in_ranges, C05_ex_input. cbn [bi_n bi_Ts bi_Tmax bi_depth_km bi_thick].
  split. cbn. tauto. split. split; discriminate. split. split; discriminate. split.
  - intros km H. inversion H; subst. split; discriminate.
  - intros v [H|[H|[]]]; inversion H; subst; split; discriminate.
Qed.

(* no Reservoir Depth line: the repaired reader walks 3000 m (15 + 0.05 x 3000 = 165 degC); the pinned one gave 15.15 *)
Example C05_ex_default_depth :
  input_ok default_depth_witness /\
  (exists T d, bht_of_input default_depth_witness = Good (T, d) /\ T == 165 /\ d == 3000) /\
  (exists T d, bht_of_input_pinned default_depth_witness = Good (T, d) /\ T == 1515 # 100).
Proof.
  split.
  - unfold input_ok, default_depth_witness, prefill, user_pos. cbn. repeat split; try lia; try lra.
  - split; eexists; eexists; (split; [vm_compute; reflexivity|]); try split; vm_compute; reflexivity.
Qed.

(* the checkers accept a tiled history and reject one that rises inside a cycle *)
Example C05_ex_checkers :
  noninc_between 0 3 [100; 98; 95; 100; 98; 95; 100] = true /\ noninc_between 0 3 [100; 98; 99; 100] = false /\
  noninc_between 0 0 [100; 98; 95] = true /\ lhs_range_ok 0 100 40 [100; 70; 100; 40] = true /\
  lhs_range_ok 0 100 40 [100; 39] = false.
Proof. repeat split; vm_compute; reflexivity. Qed.

(* volume options on a concrete square-fracture reservoir: hypotheses of C05_volume_identity / option4 *)
Definition C05_ex_res (opt : Z) : res_inputs :=
  {| ri_shape := 3; ri_opt := opt; ri_area := 250000; ri_height := 600; ri_width := 500; ri_numb := 11; ri_sep := 50;
     ri_resvol := 125000000; ri_pi := 355 # 113; ri_sqrt := 564; ri_rho := 2700; ri_cp := 1000; ri_Tinj := 50; ri_gain := 2 |}.
Example C05_ex_volume :
  (exists s, geometry_of (C05_ex_res 1) = Good s /\ fs_vol s == 180000000 /\ fs_area s == 360000) /\
  (exists s, geometry_of (C05_ex_res 3) = Good s /\ fs_sep s == 3125 # 90) /\
  (exists s, geometry_of (C05_ex_res 4) = Good s /\ fs_vol s == 125000000) /\
  heat_content 125000000 2700 1000 200 52 == 4995 # 100.
Proof.
  split. eexists. split. vm_compute. reflexivity. split; vm_compute; reflexivity.
  split. eexists. split. vm_compute. reflexivity. vm_compute. reflexivity.
  split. eexists. split. vm_compute. reflexivity. vm_compute. reflexivity.
  vm_compute. reflexivity.
Qed.

(* a second call with an earlier count of 3 on a history that never falls below its limit: repaired 0, pinned 3 *)
Example C05_ex_second_call :
  index_of [100; 99; 98] (1 # 10) = 0%nat /\ rd_count (redrill_call 3 [100; 99; 98] [105; 104; 103] (1 # 10)) = 0%nat /\
  rd_count (redrill_call_pinned 3 [100; 99; 98] [105; 104; 103] (1 # 10)) = 3%nat.
Proof. repeat split. Qed.
