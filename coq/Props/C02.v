(* Props/C02.v - Energy flows balance at every time step and over every year.
   Only statements; every proof is [exact <lemma>] from Proofs/EnergyProofs.v.
   The model (Model/Energy.v) is tied to the current source by the correspondence of tools/props/C02.py. *)
From Coq Require Import QArith Qabs Qminmax List ZArith Bool.
From Verif Require Import Base.Flat Model.Energy Proofs.EnergyProofs Gen.EnergyEnums.
Import ListNotations.
Open Scope Q_scope.

(* heat extracted = wells x flow per well x heat capacity x (production - injection temperature), every step,
   for every series length *)
Theorem C02_extracted : forall n m cp tinj tprod,
  length (heat_extracted n m cp tinj tprod) = length tprod /\
  forall t, (t < length tprod)%nat ->
    nth t (heat_extracted n m cp tinj tprod) 0 == n * m * cp * (nth t tprod 0 - tinj) / 1000000.
Proof. exact heat_extracted_spec. Qed.
Print Assumptions C02_extracted.

(* electricity_heat_production, every end-use branch, every step of every series: the extracted heat is the
   definition above and it is fully accounted for: electricity-only sends all of it to the power plant; in the
   topping, bottoming and parallel cogeneration branches
   heat towards electricity + useful heat / end-use efficiency = heat extracted *)
Theorem C02_conservation : forall eu avail etau n m cp tprod tinj reinj tchp eff chpf o,
  ehp eu avail etau n m cp tprod tinj reinj tchp eff chpf = Ok o ->
  length (o_he o) = length tprod /\
  forall t, (t < length tprod)%nat ->
    nth t (o_he o) 0 == n * m * cp * (nth t tprod 0 - tinj) / 1000000 /\
    match eu with
    | EU_ELEC => arr_at (o_hete o) t == nth t (o_he o) 0
    | EU_HEAT => True
    | _ => ~ eff == 0 -> arr_at (o_hete o) t + nth t (o_hp o) 0 / eff == nth t (o_he o) 0
    end.
Proof. exact ehp_balance. Qed.
Print Assumptions C02_conservation.

(* what each branch delivers: topping uses the reinjection temperature as the split point, bottoming the
   bottoming-cycle entering temperature, parallel the flow fraction (which also scales the electricity) *)
Theorem C02_branches : forall eu avail etau n m cp tprod tinj reinj tchp eff chpf o,
  ehp eu avail etau n m cp tprod tinj reinj tchp eff chpf = Ok o ->
  forall t, (t < length tprod)%nat ->
  match eu with
  | EU_ELEC | EU_HEAT => o_hp o = []
  | EU_TOP => length reinj = length tprod /\
              nth t (o_hp o) 0 == eff * (n * m * cp * (nth t reinj 0 - tinj) / 1000000) /\
              arr_at (o_hete o) t == n * m * cp * (nth t tprod 0 - nth t reinj 0) / 1000000
  | EU_BOT => nth t (o_hp o) 0 == eff * (n * m * cp * (nth t tprod 0 - tchp) / 1000000) /\
              arr_at (o_hete o) t == n * m * cp * (tchp - tinj) / 1000000
  | EU_PAR => nth t (o_hp o) 0 == eff * chpf * nth t (o_he o) 0 /\
              arr_at (o_hete o) t == (1 - chpf) * nth t (o_he o) 0 /\
              ((t < length avail)%nat ->
               nth t (o_el o) 0 == nth t avail 0 * nth t etau 0 * n * m * (1 - chpf))
  end.
Proof. exact ehp_branches. Qed.
Print Assumptions C02_branches.

(* net electricity = gross electricity - pumping power, every step *)
Theorem C02_net : forall el pump net,
  net_series el pump = Some net ->
  length net = length el /\ length pump = length el /\
  forall t, (t < length el)%nat -> nth t net 0 == nth t el 0 - nth t pump 0.
Proof. exact net_series_spec. Qed.
Print Assumptions C02_net.

(* heat pump (COP <> 1): W = extracted / (COP - 1), delivered heat = (extracted + W) x efficiency = COP x W x efficiency *)
Theorem C02_cop_heatpump : forall cop eff he t, ~ cop == 1 -> (t < length he)%nat ->
  nth t (heatpump_elec cop he) 0 == nth t he 0 / (cop - 1) /\
  nth t (heatpump_heat cop eff he) 0 == (nth t he 0 + nth t (heatpump_elec cop he) 0) * eff /\
  nth t (heatpump_heat cop eff he) 0 == cop * nth t (heatpump_elec cop he) 0 * eff.
Proof. exact heatpump_spec. Qed.
Print Assumptions C02_cop_heatpump.

(* absorption chiller: cooling = heat x COP x efficiency *)
Theorem C02_cop_chiller : forall cop eff hp t, (t < length hp)%nat ->
  nth t (chiller_cooling cop eff hp) 0 == nth t hp 0 * cop * eff.
Proof. exact chiller_spec. Qed.
Print Assumptions C02_cop_chiller.

(* direct use / district heating: useful heat = extracted heat x end-use efficiency *)
Theorem C02_direct_use : forall eff he t, (t < length he)%nat ->
  nth t (industrial_heat eff he) 0 == nth t he 0 * eff.
Proof. exact scale_series_spec. Qed.
Print Assumptions C02_direct_use.

(* district heating, every day of every year of every lifetime, for every demand profile and well-output series:
   geothermal + peaking = demand/24, geothermal <= (interpolated) well output, peaking >= 0,
   geothermal = min(well output, demand/24) *)
Theorem C02_dh : forall life k fp demand o,
  dh_run life k fp demand = Ok o ->
  fp <> [] /\ (365 <= length demand)%nat /\
  length (d_geo o) = (life * 365)%nat /\ length (d_ng o) = (life * 365)%nat /\
  forall i j, (i < life)%nat -> (j < 365)%nat ->
    let h := interp k fp (dh_time i j) in
    let g := nth (i * 365 + j) (d_geo o) 0 in
    let p := nth (i * 365 + j) (d_ng o) 0 in
    g + p == nth j demand 0 / 24 /\ g <= h /\ 0 <= p /\ g == Qmin h (nth j demand 0 / 24).
Proof. exact dh_run_days. Qed.
Print Assumptions C02_dh.

(* the interpolated well output lies within any bounds of the heat series ... *)
Theorem C02_dh_interp_bounds : forall k fp t lo hi,
  fp <> [] -> (forall x, In x fp -> lo <= x <= hi) -> lo <= interp k fp t <= hi.
Proof. exact interp_bounds. Qed.
Print Assumptions C02_dh_interp_bounds.

(* ... so the geothermal supply never exceeds what the wells deliver *)
Theorem C02_dh_supply_bounded : forall life k fp demand o hi,
  dh_run life k fp demand = Ok o -> (forall x, In x fp -> x <= hi) ->
  forall i j, (i < life)%nat -> (j < 365)%nat -> nth (i * 365 + j) (d_geo o) 0 <= hi.
Proof. exact dh_geo_bounded. Qed.
Print Assumptions C02_dh_supply_bounded.

(* annual peaking-boiler demand = 24 h x sum over the days of that year *)
Theorem C02_dh_annual_peaking : forall life k fp demand o i,
  dh_run life k fp demand = Ok o -> (i < life)%nat ->
  nth i (d_annual_ng o) 0 == sumQ (map dh_ng (dh_year k fp demand i)) * 24.
Proof. exact dh_run_annual_ng. Qed.
Print Assumptions C02_dh_annual_peaking.

(* integrate_time_series_slice for every series, year index and k >= 1 time steps per year, in index form:
   no sample left -> 0; one sample a -> the trapezoid (a + extrapolated)/2 over a year, linearly extrapolated only when
   the year starts at index >= 2 (the code's "slice_start_index - 1 > 0"); m+1 >= 2 samples (m = min(k, samples
   left - 1)) -> the m trapezoids it has, rescaled to one year: sum x 8760/m; always x 1000 x utilization *)
Theorem C02_integral : forall s i k util, (1 <= k)%nat ->
  integrate_slice s i k util ==
  match (length s - i * k)%nat with
  | O => 0
  | 1%nat =>
      let a := nth (i * k) s 0 in
      let extr := if Nat.ltb 0 (i * k - 1) then a + (a - nth (i * k - 1) s 0) else a in
      (a + extr) / 2 * 8760 * 1000 * util
  | S (S r) => trap_from s (i * k) (Nat.min k (S r)) * (8760 / natQ (Nat.min k (S r))) * 1000 * util
  end.
Proof. exact integrate_slice_closed. Qed.
Print Assumptions C02_integral.

(* a year whose end-of-year sample exists: the composite trapezoid rule with step 8760/k hours *)
Theorem C02_integral_full_year : forall s i k util, (1 <= k)%nat -> ((i + 1) * k < length s)%nat ->
  integrate_slice s i k util == trap_from s (i * k) k * (8760 / natQ k) * 1000 * util.
Proof. exact integrate_full_year. Qed.
Print Assumptions C02_integral_full_year.

(* linearity in the series (all branches, including the extrapolating one) and in the utilization factor *)
Theorem C02_integral_linear : forall (s1 s2 s3 : list Q) (al be : Q) i k util, (1 <= k)%nat ->
  length s1 = length s3 -> length s2 = length s3 ->
  (forall t, nth t s3 0 == al * nth t s1 0 + be * nth t s2 0) ->
  integrate_slice s3 i k util == al * integrate_slice s1 i k util + be * integrate_slice s2 i k util.
Proof. exact integrate_slice_lin. Qed.
Print Assumptions C02_integral_linear.

Theorem C02_integral_utilization : forall s i k u, integrate_slice s i k u == integrate_slice s i k 1 * u.
Proof. exact integrate_util. Qed.
Print Assumptions C02_integral_utilization.

(* annual_electricity_pumping_power, every lifetime: each annual figure is the integral of its own power series *)
Theorem C02_annual_figures : forall eu life k util he pump el net hp,
  match annual_epp eu life k util he pump el net hp with
  | (hek, pk, tk, nk, hk) =>
      forall y, (y < life)%nat ->
        nth y hek 0 = integrate_slice he y k util /\
        nth y pk 0 = integrate_slice pump y k util /\
        (has_elec eu = true -> nth y tk 0 = integrate_slice el y k util /\ nth y nk 0 = integrate_slice net y k util) /\
        (has_heat eu = true -> nth y hk 0 = integrate_slice hp y k util)
  end.
Proof. exact annual_epp_spec. Qed.
Print Assumptions C02_annual_figures.

(* hence NetkWh = TotalkWh - PumpingkWh, year by year *)
Theorem C02_annual_net : forall eu life k util he pump el net hp,
  (1 <= k)%nat -> has_elec eu = true -> net_series el pump = Some net ->
  match annual_epp eu life k util he pump el net hp with
  | (_, pk, tk, nk, _) => forall y, (y < life)%nat -> nth y nk 0 == nth y tk 0 - nth y pk 0
  end.
Proof. exact annual_net_is_total_minus_pumping. Qed.
Print Assumptions C02_annual_net.

(* and a series that is c x another one has c x its annual energy (HeatkWhProduced = efficiency x HeatkWhExtracted for
   direct use, COP/(COP-1) x efficiency for the heat pump, COP x efficiency for the chiller's cooling) *)
Theorem C02_annual_scaled : forall c s life k util y, (1 <= k)%nat -> (y < life)%nat ->
  nth y (annual (scale_series c s) life k util) 0 == c * nth y (annual s life k util) 0.
Proof. exact annual_scaled. Qed.
Print Assumptions C02_annual_scaled.

(* the clause "annual figure = integral x utilization" for the figures as they stand after the economics ran:
   the add-on and S-DAC-GT economics add an offset to Total/Net/Heat kWh in place.  Refuted in general ... *)
Theorem C02_annual_is_integral_refuted :
  exists s life k util offs y, (1 <= k)%nat /\ (y < life)%nat /\ (y < length offs)%nat /\
    ~ nth y (adjust (annual s life k util) offs) 0 == integrate_slice s y k util.
Proof. exact annual_is_integral_refuted. Qed.
Print Assumptions C02_annual_is_integral_refuted.

(* ... and true exactly where the offset is zero (no add-on energy, no S-DAC-GT consumption) *)
Theorem C02_annual_is_integral_partial : forall s life k util offs y,
  (y < life)%nat -> (y < length offs)%nat -> nth y offs 0 == 0 ->
  nth y (adjust (annual s life k util) offs) 0 == integrate_slice s y k util.
Proof. exact annual_is_integral_partial. Qed.
Print Assumptions C02_annual_is_integral_partial.

(* remaining heat = initial - cumulative extracted heat (kWh x 3600 x 1e3 / 1e15), every year of every lifetime *)
Theorem C02_remaining : forall init kwh,
  length (remaining init kwh) = length kwh /\
  forall y, (y < length kwh)%nat ->
    nth y (remaining init kwh) 0 == init - sumQ (firstn (S y) kwh) * 3600 * 1000 / 1000000000000000.
Proof. exact remaining_spec. Qed.
Print Assumptions C02_remaining.

Theorem C02_remaining_step : forall init kwh y, (S y < length kwh)%nat ->
  nth (S y) (remaining init kwh) 0 == nth y (remaining init kwh) 0 - nth (S y) kwh 0 * (9 # 2500000000).
Proof. exact remaining_step. Qed.
Print Assumptions C02_remaining_step.

(* soundness of the reflective checkers that the check evaluates by vm_compute on implementation data:
   a [true] verdict means the balance holds on that data within the tolerance *)
Theorem C02_check_extracted_sound : forall tol n m cp tinj tprod he,
  check_extracted tol n m cp tinj tprod he = true ->
  length he = length tprod /\
  forall t, (t < length tprod)%nat -> approx tol (n * m * cp * (nth t tprod 0 - tinj) / 1000000) (nth t he 0).
Proof. exact check_extracted_sound. Qed.
Print Assumptions C02_check_extracted_sound.

Theorem C02_check_net_sound : forall tol el pump net,
  check_net tol el pump net = true ->
  length pump = length el /\ length net = length el /\
  forall t, (t < length el)%nat -> approx tol (nth t el 0 - nth t pump 0) (nth t net 0).
Proof. exact check_net_sound. Qed.
Print Assumptions C02_check_net_sound.

Theorem C02_check_conservation_sound : forall tol eff he hp net fle,
  check_conservation tol eff he hp net fle = true ->
  ~ eff == 0 /\
  forall t, (t < length he)%nat -> (t < length net)%nat -> ~ nth t fle 0 == 0 ->
    approx tol (nth t net 0 / nth t fle 0 + nth t hp 0 / eff) (nth t he 0).
Proof. exact check_conservation_sound. Qed.
Print Assumptions C02_check_conservation_sound.

Theorem C02_check_scaled_sound : forall tol c a b,
  check_scaled tol c a b = true ->
  length b = length a /\ forall t, (t < length a)%nat -> approx tol (nth t a 0 * c) (nth t b 0).
Proof. exact check_scaled_sound. Qed.
Print Assumptions C02_check_scaled_sound.

Theorem C02_check_annual_sound : forall tol s life k util offs reported,
  check_annual tol s life k util offs reported = true ->
  length reported = Nat.min life (length offs) /\
  forall y, (y < life)%nat -> (y < length offs)%nat ->
    approx tol (integrate_slice s y k util + nth y offs 0) (nth y reported 0).
Proof. exact check_annual_sound. Qed.
Print Assumptions C02_check_annual_sound.

Theorem C02_check_annual_u_sound : forall tol s k utils offs reported,
  check_annual_u tol s k utils offs reported = true ->
  forall y, (y < length utils)%nat -> (y < length offs)%nat ->
    approx tol (integrate_slice s y k (nth y utils 0) + nth y offs 0) (nth y reported 0).
Proof. exact check_annual_u_sound. Qed.
Print Assumptions C02_check_annual_u_sound.

Theorem C02_check_remaining_sound : forall tol init kwh rem,
  check_remaining tol init kwh rem = true ->
  length rem = length kwh /\
  forall y, (y < length kwh)%nat ->
    approx tol (init - sumQ (firstn (S y) kwh) * 3600 * 1000 / 1000000000000000) (nth y rem 0).
Proof. exact check_remaining_sound. Qed.
Print Assumptions C02_check_remaining_sound.

Theorem C02_check_dh_sound : forall tol life k fp demand geo ng utils util ann_ng maxpk,
  check_dh tol life k fp demand geo ng utils util ann_ng maxpk = true ->
  length geo = (life * 365)%nat /\ length ng = (life * 365)%nat /\
  forall pos, (pos < life * 365)%nat ->
    let i := (pos / 365)%nat in
    let j := (pos mod 365)%nat in
    let h := interp k fp (dh_time i j) in
    approx tol (nth pos geo 0 + nth pos ng 0) (nth j demand 0 / 24) /\
    nth pos geo 0 <= h + tol * Qmax 1 (Qabs h) /\ 0 <= nth pos ng 0.
Proof. exact check_dh_sound. Qed.
Print Assumptions C02_check_dh_sound.

(* ---- round 2: the conversion-efficiency / reinjection-temperature correlations inside the model ---- *)

(* the interpolation weights (1 - f) and f sum to 1; with f in [0,1] the blend lies between the two limits *)
Theorem C02_corr_weights : forall tf x y,
  blend tf x x == x /\ blend tf x y == x + tf * (y - x) /\
  (0 <= tf <= 1 -> Qmin x y <= blend tf x y <= Qmax x y).
Proof. exact blend_weights. Qed.
Print Assumptions C02_corr_weights.

Theorem C02_corr_fraction_range : forall amb, 5 <= amb -> amb < 25 -> 0 <= tfraction amb /\ tfraction amb < 1.
Proof. exact tfraction_range. Qed.
Print Assumptions C02_corr_fraction_range.

(* continuity at the bracket boundary: at 15 degC ambient the <15 bracket and the >=15 bracket of all four plant types
   give the same utilization efficiency and the same reinjection temperature, for every entering temperature *)
Theorem C02_corr_continuous : forall p T,
  etau_bracket p true 15 T == etau_bracket p false 15 T /\ reinj_bracket p true 15 T == reinj_bracket p false 15 T.
Proof. exact corr_continuous. Qed.
Print Assumptions C02_corr_continuous.

Theorem C02_corr_bracket : forall p amb T,
  etau_at p amb T = etau_bracket p (is_low amb) amb T /\ reinj_at p amb T = reinj_bracket p (is_low amb) amb T.
Proof. exact corr_at_bracket. Qed.
Print Assumptions C02_corr_bracket.

(* the injection-temperature update: never raised, never above any reinjection temperature *)
Theorem C02_tinj_update : forall tinj reinj t',
  tinj_update tinj reinj = Some t' ->
  t' <= tinj /\ (forall r, In r reinj -> t' <= r) /\ (t' == tinj \/ In t' reinj \/ exists r, In r reinj /\ t' == r).
Proof. exact tinj_update_spec. Qed.
Print Assumptions C02_tinj_update.

(* the power-plant part of Calculate for the four plant types x every end-use option, every step of every series:
   electricity = availability x etau x wells x flow (x (1 - chp_fraction) in the parallel cycle) with the MODELLED etau,
   extracted heat with the updated injection temperature, the balance, and for the topping cycle useful heat and heat
   towards electricity split at the MODELLED reinjection temperature (no recourse to Net / FirstLawEfficiency) *)
Theorem C02_power_plant : forall p eu amb avail n m cp tprod tinj tchp eff chpf tinj' etau reinj o,
  power_plant p eu amb avail n m cp tprod tinj tchp eff chpf = Ok (tinj', etau, reinj, o) ->
  tinj' <= tinj /\ length (o_he o) = length tprod /\
  forall t, (t < length tprod)%nat ->
    let T := match eu with EU_BOT => tchp | _ => nth t tprod 0 end in
    nth t etau 0 = etau_at p amb T /\ nth t reinj 0 = reinj_at p amb T /\ tinj' <= reinj_at p amb T /\
    nth t (o_he o) 0 == n * m * cp * (nth t tprod 0 - tinj') / 1000000 /\
    match eu with
    | EU_ELEC => arr_at (o_hete o) t == nth t (o_he o) 0
    | EU_HEAT => True
    | _ => ~ eff == 0 -> arr_at (o_hete o) t + nth t (o_hp o) 0 / eff == nth t (o_he o) 0
    end /\
    ((t < length avail)%nat ->
     nth t (o_el o) 0 == nth t avail 0 * etau_at p amb T * n * m * match eu with EU_PAR => 1 - chpf | _ => 1 end) /\
    (eu = EU_TOP ->
     nth t (o_hp o) 0 == eff * (n * m * cp * (reinj_at p amb (nth t tprod 0) - tinj') / 1000000) /\
     arr_at (o_hete o) t == n * m * cp * (nth t tprod 0 - reinj_at p amb (nth t tprod 0)) / 1000000).
Proof. exact power_plant_spec. Qed.
Print Assumptions C02_power_plant.

Theorem C02_topping_heat_nonneg : forall p amb avail n m cp tprod tinj tchp eff chpf tinj' etau reinj o t,
  power_plant p EU_TOP amb avail n m cp tprod tinj tchp eff chpf = Ok (tinj', etau, reinj, o) ->
  0 <= eff -> 0 <= n -> 0 <= m -> 0 <= cp -> (t < length tprod)%nat -> 0 <= nth t (o_hp o) 0.
Proof. exact topping_heat_nonneg. Qed.
Print Assumptions C02_topping_heat_nonneg.

Theorem C02_check_power_plant_sound : forall tol p eu amb avail n m cp tprod tinj tchp eff chpf tpp el he hp,
  check_power_plant tol p eu amb avail n m cp tprod tinj tchp eff chpf tpp el he hp = true ->
  exists tinj' etau reinj o,
    power_plant p eu amb avail n m cp tprod tinj tchp eff chpf = Ok (tinj', etau, reinj, o) /\
    approx tol tinj' tinj /\
    length el = length (o_el o) /\ length he = length (o_he o) /\ length hp = length (o_hp o) /\
    (forall t, (t < length (o_el o))%nat -> approx tol (nth t (o_el o) 0) (nth t el 0)) /\
    (forall t, (t < length (o_he o))%nat -> approx tol (nth t (o_he o) 0) (nth t he 0)) /\
    (forall t, (t < length (o_hp o))%nat -> approx tol (nth t (o_hp o) 0) (nth t hp 0)).
Proof. exact check_power_plant_sound. Qed.
Print Assumptions C02_check_power_plant_sound.

Theorem C02_check_fle_sound : forall tol p eu amb avail n m cp tprod tinj tchp eff chpf net fle,
  check_fle tol p eu amb avail n m cp tprod tinj tchp eff chpf net fle = true ->
  exists tinj' etau reinj o,
    power_plant p eu amb avail n m cp tprod tinj tchp eff chpf = Ok (tinj', etau, reinj, o) /\
    length fle = length net /\
    forall t, (t < length net)%nat -> ~ arr_at (o_hete o) t == 0 ->
      approx tol (nth t fle 0 * arr_at (o_hete o) t) (nth t net 0).
Proof. exact check_fle_sound. Qed.
Print Assumptions C02_check_fle_sound.

(* ---- round 2: SurfacePlantSUTRA (reservoir thermal energy storage) ---- *)

(* every step, for a positive time step: injected + produced = simulated heat (as power), total = produced + auxiliary,
   signs, the total supply meets the target, and equals max(simulated, target) when the store delivers *)
Theorem C02_sutra_step : forall dt target sim, 0 < dt ->
  sutra_injected dt sim + sutra_produced dt sim == sim / dt / 1000 /\
  sutra_total dt target sim == sutra_produced dt sim + sutra_aux dt target sim /\
  sutra_injected dt sim <= 0 /\ 0 <= sutra_produced dt sim /\ 0 <= sutra_aux dt target sim /\
  target / dt / 1000 <= sutra_total dt target sim /\
  (0 <= sim -> sutra_total dt target sim == Qmax sim target / dt / 1000).
Proof. exact sutra_step. Qed.
Print Assumptions C02_sutra_step.

(* the whole plant, for every profile length and number of years: the series are the per-step functions of every second
   profile entry (plus the last), annual total = annual produced + annual auxiliary, annual produced energy = the sum
   of max(simulated heat, 0) over the year's 730 steps / 1e6 (the time step cancels), pumping energy = sum x time step *)
Theorem C02_sutra_plant : forall time target sim pump o,
  sutra_plant time target sim pump = Ok o ->
  exists tv tg sm,
    subsample time = Some tv /\ subsample target = Some tg /\ subsample sim = Some sm /\ length tg = length sm /\
    s_dt o = sutra_dt tv /\ ~ s_dt o == 0 /\
    s_inj o = map (sutra_injected (s_dt o)) sm /\ s_prod o = map (sutra_produced (s_dt o)) sm /\
    s_aux o = map2 (sutra_aux (s_dt o)) tg sm /\ s_tot o = map2 (sutra_total (s_dt o)) tg sm /\
    length (s_ann_tot o) = Z.to_nat (py_round (last tv 0 / 8766)) /\
    forall i, (i < length (s_ann_tot o))%nat ->
      nth i (s_ann_tot o) 0 == nth i (s_ann_prod o) 0 + nth i (s_ann_aux o) 0 /\
      nth i (s_ann_prod o) 0 == sumQ (map (fun s => if Qltb s 0 then 0 else s) (sutra_block sm i)) / 1000000 /\
      nth i (s_pumpkwh o) 0 == sumQ (sutra_block pump i) * s_dt o.
Proof. exact sutra_plant_spec. Qed.
Print Assumptions C02_sutra_plant.

(* "every second entry": entry t of the sub-sampled profile is entry 2t of the profile *)
Theorem C02_sutra_stride : forall t l, nth t (every_other l) 0 = nth (2 * t) l 0.
Proof. exact every_other_nth. Qed.
Print Assumptions C02_sutra_stride.

Theorem C02_check_sutra_points_sound : forall tol dt raw_target raw_sim inj prod aux tot,
  check_sutra_points tol dt raw_target raw_sim inj prod aux tot = true ->
  length inj = length (every_other raw_sim) /\
  forall t, (t < length (every_other raw_sim))%nat ->
    let sim := nth (2 * t) raw_sim 0 in
    let target := nth (2 * t) raw_target 0 in
    approx tol (sutra_injected dt sim) (nth t inj 0) /\ approx tol (sutra_produced dt sim) (nth t prod 0) /\
    approx tol (sutra_aux dt target sim) (nth t aux 0) /\ approx tol (sutra_total dt target sim) (nth t tot 0).
Proof. exact check_sutra_points_sound. Qed.
Print Assumptions C02_check_sutra_points_sound.

Theorem C02_check_sutra_year_sound : forall tol dt inj prod aux tot pump annual,
  check_sutra_year tol dt inj prod aux tot pump annual = true ->
  length inj = 730%nat /\
  approx tol (sumQ (firstn 730 inj) * dt / 1000) (nth 0 annual 0) /\
  approx tol (sumQ (firstn 730 prod) * dt / 1000) (nth 1 annual 0) /\
  approx tol (sumQ (firstn 730 aux) * dt / 1000) (nth 2 annual 0) /\
  approx tol (sumQ (firstn 730 tot) * dt / 1000) (nth 3 annual 0) /\
  approx tol (sumQ (firstn 730 pump) * dt) (nth 4 annual 0).
Proof. exact check_sutra_year_sound. Qed.
Print Assumptions C02_check_sutra_year_sound.

(* every end-use option that exists in the current source (table regenerated on each run) has a branch in the model *)
Theorem C02_enduse_table_covered : forall c, In c enduse_codes -> exists eu, enduse_of_code c = Some eu.
Proof. exact (covers_enduse_sound enduse_codes eq_refl). Qed.
Print Assumptions C02_enduse_table_covered.

(* ---- non-vacuity: the hypotheses above are satisfiable, on concrete data ---- *)
Example C02_ex_conservation :
  exists o, ehp EU_TOP [1#10; 1#10] [1#5; 1#5] 2 50 4000 [200; 190] 60 [80; 75] 120 (9#10) (1#2) = Ok o /\
            arr_at (o_hete o) 1 + nth 1 (o_hp o) 0 / (9#10) == nth 1 (o_he o) 0 /\ nth 1 (o_he o) 0 == 52.
Proof. eexists. split. vm_compute. reflexivity. split; vm_compute; reflexivity. Qed.

Example C02_ex_error : ehp EU_ELEC [-1#10] [1#5] 2 50 4000 [200] 60 [] 120 (9#10) (1#2) = Fail E_RUNTIME.
Proof. vm_compute. reflexivity. Qed.

Example C02_ex_net : exists net, net_series [5; 6] [1; 2] = Some net /\ nth 1 net 0 == 4.
Proof. eexists. split. vm_compute. reflexivity. vm_compute. reflexivity. Qed.

Example C02_ex_integral :
  integrate_slice [5; 4; 3; 2] 0 2 (9#10) == 31536000 /\       (* full year: (4.5 + 3.5) x 4380 x 1000 x 0.9 *)
  integrate_slice [5; 4; 3; 2] 1 2 (9#10) == 19710000 /\       (* last year, one trapezoid rescaled *)
  integrate_slice [5; 4; 3] 2 1 1 == 21900000 /\               (* single sample, extrapolated 3 -> 2 *)
  integrate_slice [5; 4] 1 1 1 == 35040000.                    (* single sample at index 1: not extrapolated *)
Proof. repeat split; vm_compute; reflexivity. Qed.

Example C02_ex_annual_net :
  match annual_epp EU_PAR 2 2 (9#10) [50; 49; 48; 47] [1; 1; 2; 2] [5; 4; 3; 2] [4; 3; 1; 0] [9; 9; 8; 8] with
  | (_, pk, tk, nk, _) => nth 1 nk 0 == nth 1 tk 0 - nth 1 pk 0 /\ ~ nth 1 pk 0 == 0
  end.
Proof. vm_compute. split. reflexivity. discriminate. Qed.

Example C02_ex_remaining : nth 1 (remaining 300 [500000000; 400000000]) 0 == 300 - (324 # 100).
Proof. vm_compute. reflexivity. Qed.

Example C02_ex_dh :
  exists o, dh_run 1 2 [10; 8] (repeat 216 365) = Ok o /\
            nth 0 (d_geo o) 0 == 9 /\ nth 0 (d_ng o) 0 == 0 /\        (* demand 9 MW < 10 MW well output *)
            nth 364 (d_geo o) 0 == 8 /\ nth 364 (d_ng o) 0 == 1.       (* well output has dropped to 8 MW *)
Proof. eexists. split. vm_compute. reflexivity. repeat split; vm_compute; reflexivity. Qed.

Example C02_ex_checkers :
  check_extracted (1 # 1000000000) 2 50 4000 60 [200; 190] [56; 52] = true /\
  check_extracted (1 # 1000000000) 2 50 4000 60 [200; 190] [56; 53] = false /\
  check_net (1 # 1000000000) [5; 6] [1; 2] [4; 4] = true /\
  check_conservation (1 # 1000000000) (9#10) [56; 52] [9; 9] [4; 4] [4 # 46; 4 # 42] = true /\
  check_annual (1 # 1000000000) [5; 4; 3; 2] 2 2 (9#10) [0; 0] [31536000; 19710000] = true /\
  check_annual (1 # 1000000000) [5; 4; 3; 2] 2 2 (9#10) [0; 0] [31536000; 19710001] = false /\
  check_remaining (1 # 1000000000) 300 [500000000; 400000000] [2982 # 10; 29676 # 100] = true.
Proof. repeat split; vm_compute; reflexivity. Qed.

(* subcritical ORC at 15 degC ambient, 150 degC entering: etau = 2.713e-3 x 150 - 9.1841e-2, ReinjTemp = 0.0894 x 150 + 62.6;
   the user's 80 degC injection temperature is lowered to the reinjection temperature 76.01 *)
Example C02_ex_power_plant :
  exists tinj' etau reinj o,
    power_plant P_SUBORC EU_TOP 15 [1 # 10] 2 50 4000 [150] 80 120 (9 # 10) (1 # 2) = Ok (tinj', etau, reinj, o) /\
    nth 0 etau 0 == 315109 # 1000000 /\ nth 0 reinj 0 == 7601 # 100 /\ tinj' == 7601 # 100 /\
    nth 0 (o_el o) 0 == (1 # 10) * (315109 # 1000000) * 100 /\ nth 0 (o_hp o) 0 == 0.
Proof. do 4 eexists. split. vm_compute. reflexivity. repeat split; vm_compute; reflexivity. Qed.

Example C02_ex_corr_blend : etau_at P_SFLASH 10 200 == (etau_bracket P_SFLASH true 5 200 + etau_bracket P_SFLASH true 15 200) / 2.
Proof. vm_compute. reflexivity. Qed.

(* SUTRA: 5 profile entries (0, half a year twice, a year twice) -> 3 steps, 1 year; the store is charged (-50), then
   delivers 30 of a 40 target (10 auxiliary), then 45 of 40 *)
Example C02_ex_sutra :
  exists o, sutra_plant [0; 4383; 4383; 8766; 8766] [-50; -50; 40; 40; 40] [-50; -50; 30; 30; 45] [1; 1; 1] = Ok o /\
            s_dt o == 2922 /\ nth 0 (s_inj o) 0 == - 50 / 2922 / 1000 /\ nth 1 (s_prod o) 0 == 30 / 2922 / 1000 /\
            nth 1 (s_aux o) 0 == 10 / 2922 / 1000 /\ nth 2 (s_aux o) 0 == 0 /\ nth 2 (s_tot o) 0 == 45 / 2922 / 1000 /\
            nth 0 (s_ann_prod o) 0 == 75 / 1000000 /\ nth 0 (s_ann_tot o) 0 == 85 / 1000000.
Proof. eexists. split. vm_compute. reflexivity. repeat split; vm_compute; reflexivity. Qed.

Example C02_ex_round : py_round (5 # 2) = 2%Z /\ py_round (7 # 2) = 4%Z /\ py_round (262968 # 8766) = 30%Z.
Proof. repeat split; vm_compute; reflexivity. Qed.

Example C02_ex_fle :
  check_fle (1 # 1000000000) P_SUBORC EU_ELEC 15 [1 # 10] 2 50 4000 [150] 70 120 (9 # 10) (1 # 2) [3] [3 # 32] = true.
Proof. vm_compute. reflexivity. Qed.
