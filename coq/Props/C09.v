(* Props/C09.v - The case report states what was computed.
   Only statements; every proof is [exact <lemma>] from Proofs/. *)
From Coq Require Import String Ascii QArith Qabs ZArith List Bool.
From Verif Require Import Model.Fmt Model.Float Model.Report Gen.ReportLabels Proofs.FmtProofs Proofs.FmtSciProofs Proofs.FmtGenProofs Proofs.FloatProofs Proofs.ReportProofs Proofs.ReportGenProofs.
Import ListNotations.

(* ---- figures: rounded to the displayed precision --------------------------------------------------------- *)

(* For EVERY rational q (so every finite double) and precision p, the decimal a '.pf' field displays is within
   half a unit of the last displayed place of q (half-even on the exact value, which is what CPython prints). *)
Theorem C09_round_half_ulp :
  forall q p, (Qabs (shown q p - q) <= (1#2) / inject_Z (pow10 p))%Q.
Proof. exact shown_within_half_ulp. Qed.
Print Assumptions C09_round_half_ulp.

(* For every q, width w and precision p the TEXT of format(q, 'w.pf') (sign, padding, any number of integer digits,
   '-0.00' included) reads back as exactly that rounded decimal. *)
Theorem C09_fixed_text_is_rounded_value :
  forall q w p, parse_dec (fmt_f (Fin q) w p) = Some (shown q p).
Proof. exact fmt_f_parse_back. Qed.
Print Assumptions C09_fixed_text_is_rounded_value.

(* the same with thousands separators, format(q, 'w,.pf') (S-DAC-GT report): the reader skips the commas *)
Theorem C09_comma_text_is_rounded_value :
  forall q w p, parse_dec_comma (fmt_fc (Fin q) w p) = Some (shown q p).
Proof. exact fmt_fc_parse_back. Qed.
Print Assumptions C09_comma_text_is_rounded_value.

(* hence: what a reader sees in a fixed field is the quantity rounded to the displayed precision *)
Theorem C09_printed_figure_is_quantity_rounded :
  forall q w p, exists z, parse_dec (fmt_f (Fin q) w p) = Some z /\ (Qabs (z - q) <= (1#2) / inject_Z (pow10 p))%Q.
Proof. exact fmt_f_value_close. Qed.
Print Assumptions C09_printed_figure_is_quantity_rounded.

(* ---- scientific notation, format(q, 'w.pe') / 'w.pE' ------------------------------------------------------- *)
(* the decimal exponent the formatter computes from digit counts is floor(log10 |q|), for every q <> 0 *)
Theorem C09_decimal_exponent :
  forall q, ~ (q == 0)%Q -> (Qpow10 (ilog10 q) <= Qabs q /\ Qabs q < Qpow10 (ilog10 q + 1))%Q.
Proof. exact ilog10_spec. Qed.
Print Assumptions C09_decimal_exponent.

(* |q| rounded half-even to n significant digits is an n-digit integer m at exponent x (a carry to 10^n moves to the next
   exponent), within half a unit of its last digit *)
Theorem C09_significant_digits :
  forall q n, ~ (q == 0)%Q -> (1 <= n)%nat -> forall m x, sig_round q n = (m, x) ->
  (pow10 (n - 1) <= m < pow10 n)%Z /\
  (Qabs (inject_Z m * Qpow10 (x - Z.of_nat n + 1) - Qabs q) <= (1#2) * Qpow10 (x - Z.of_nat n + 1))%Q.
Proof. exact sig_round_spec. Qed.
Print Assumptions C09_significant_digits.

(* For every q <> 0, width and precision the TEXT of format(q, 'w.pe') (sign, d.ddd, 'e'/'E', exponent sign, at least two
   exponent digits) reads back as a decimal z with p+1 significant digits, 10^x <= |z| < 10^(x+1), within half a unit of
   its last digit of q. *)
Theorem C09_sci_text_is_rounded_value :
  forall upper q w p, ~ (q == 0)%Q ->
  exists z x, parse_sci (fmt_e upper (Fin q) w p) = Some z /\
    (Qabs (z - q) <= (1#2) * Qpow10 (x - Z.of_nat p))%Q /\ (Qpow10 x <= Qabs z /\ Qabs z < Qpow10 (x + 1))%Q.
Proof. exact fmt_e_value. Qed.
Print Assumptions C09_sci_text_is_rounded_value.

(* general format, format(q, 'w.pg') (the gradient lines): P = max p 1 significant digits, trailing zeros removed, positional
   for -4 <= x < P and exponent form otherwise.  For every q <> 0, width and precision the text reads back - as a plain
   decimal or as d.ddde+xx - as a decimal z with 10^x <= |z| < 10^(x+1) within half a unit of its P-th significant digit. *)
Theorem C09_general_text_is_rounded_value :
  forall q w p, ~ (q == 0)%Q ->
  let prec := match p with O => 1%nat | _ => p end in
  exists z x, (parse_dec (fmt_g (Fin q) w p) = Some z \/ parse_sci (fmt_g (Fin q) w p) = Some z) /\
    (Qabs (z - q) <= (1#2) * Qpow10 (x - Z.of_nat prec + 1))%Q /\ (Qpow10 x <= Qabs z /\ Qabs z < Qpow10 (x + 1))%Q.
Proof. exact fmt_g_value. Qed.
Print Assumptions C09_general_text_is_rounded_value.

(* ---- profile tables: one row per year, in order, reading the right index --------------------------------- *)

(* For EVERY number of years n, label offset, stride k (time steps per year), row template and series: if the table
   is written at all it has exactly n rows, and row i is the template filled with the year label i+off and, for every
   column j, the series entry at index i*k. *)
Theorem C09_rows :
  forall n off k segs cols rows, table n off k segs cols = Some rows ->
  length rows = n /\
  forall i, (i < n)%nat ->
    exists vs s, nth_error rows i = Some s /\ length vs = length cols /\
      (forall j c, nth_error cols j = Some c -> exists v, nth_error c (i * k) = Some v /\ nth_error vs j = Some v) /\
      render_line segs (year_cell (i + off) :: map Num vs) = Some s.
Proof. exact table_rows_spec. Qed.
Print Assumptions C09_rows.

(* The same for tables whose cells are EXPRESSIONS over the snapshot series (PT[i*k]/PT[0], X[i]/1E6, (H0-R[i])*100/H0 ...),
   which is how the correspondence runs them: exactly n rows in order; row i is the year label i+off and, in column j, the
   value the float model gives to the column's expression with every per-row series read at index i*k. *)
Theorem C09_rows_expr :
  forall n off k segs cols rows, etable n off k segs cols = Some rows ->
  length rows = n /\
  forall i, (i < n)%nat ->
    exists vs s, nth_error rows i = Some s /\ length vs = length cols /\
      (forall j e, nth_error cols j = Some e -> exists v, seval (Some (i * k)%nat) e = Some v /\ nth_error vs j = Some v) /\
      render_line segs (year_cell (i + off) :: map (fun x => Num (fl_fval x)) vs) = Some s.
Proof. exact etable_rows_spec. Qed.
Print Assumptions C09_rows_expr.

(* a column that is just a series reads it at the row's index and fails (IndexError) when the series is too short *)
Theorem C09_rows_expr_series :
  forall c idx, seval (Some idx) (plain_col c) = match nth_error c idx with Some x => not_bad x | None => None end.
Proof. exact plain_col_reads. Qed.
Print Assumptions C09_rows_expr_series.

(* the only ways a table is not written: a series shorter than some row's index (Python's IndexError), or a template
   whose fields do not match the cells *)
Theorem C09_rows_failure :
  forall n off k segs cols,
  table n off k segs cols = None <->
  exists i, (i < n)%nat /\ ((exists c, In c cols /\ (length c <= i * k)%nat) \/
                            (exists cs, row_cells off k cols i = Some cs /\ render_line segs cs = None)).
Proof. exact table_fails_iff. Qed.
Print Assumptions C09_rows_failure.

(* revenue & cash-flow profile, for EVERY lifetime n and number of construction years cy: cy+n rows labelled 0.. in
   order, every series read at the row index, OPEX 0.0 in construction years and the O&M cost afterwards *)
Theorem C09_cashflow_rows :
  forall n cy pos segs coam cols rows, cashflow_table n cy pos segs coam cols = Some rows ->
  length rows = (cy + n)%nat /\
  forall ii, (ii < cy + n)%nat ->
    exists vs s, nth_error rows ii = Some s /\
      mapM (fun c => nth_error c ii) (firstn pos cols ++ opex_col cy n coam :: skipn pos cols) = Some vs /\
      render_line segs (year_cell ii :: map Num vs) = Some s /\
      (pos <= length cols -> nth_error vs pos = Some (if (ii <? cy)%nat then Fin 0 else coam))%nat.
Proof. exact cashflow_rows. Qed.
Print Assumptions C09_cashflow_rows.

(* the year label of every row is printed exactly *)
Theorem C09_year_label_exact :
  forall n w, exists z, parse_dec (fmt_f (Fin (inject_Z (Z.of_nat n))) w 0) = Some z /\ (z == inject_Z (Z.of_nat n))%Q.
Proof. exact year_label_exact. Qed.
Print Assumptions C09_year_label_exact.

(* every template the CURRENT writer prints inside a per-year loop (table regenerated from Outputs.py on each run)
   is pure text or begins with its year label under '.0f', so the two theorems above apply to it *)
Theorem C09_writer_row_templates :
  forall t, In t report_templates -> row_template_ok t = true.
Proof. exact templates_ok. Qed.
Print Assumptions C09_writer_row_templates.

(* ---- derived figures: computed by the float model from the snapshot quantities ---------------------------- *)
(* A double is m * 2^e.  Rounding an exact integer (scaled by 2^e) to 53 bits moves it by at most half a unit of the last
   kept bit, ties included, for EVERY m and e; the result has at most 53 bits and is zero only for zero. *)
Theorem C09_float_round_half_ulp :
  forall m e m' e', round53 m e = (m', e') ->
  (e <= e' /\ 2 * Z.abs (m' * 2 ^ (e' - e) - m) <= 2 ^ (e' - e) /\ Z.abs m' <= 2 ^ 53 /\ (m = 0 <-> m' = 0))%Z.
Proof. exact round53_spec. Qed.
Print Assumptions C09_float_round_half_ulp.

(* x + y, x - y, x * y of the model: the EXACT result (s, in units of 2^e0) rounded once - the figure Coq prints for a sum,
   a difference, a product (x 100, x 24) of snapshot quantities is within half a unit of its last bit of the true one *)
Theorem C09_float_add :
  forall mx ex my ey m e, fadd (FD mx ex) (FD my ey) = Some (FD m e) ->
  let e0 := Z.min ex ey in let s := (mx * 2 ^ (ex - e0) + my * 2 ^ (ey - e0))%Z in
  ((s = 0 /\ m = 0) \/ (s <> 0 /\ e0 <= e /\ 2 * Z.abs (m * 2 ^ (e - e0) - s) <= 2 ^ (e - e0) /\ Z.abs m <= 2 ^ 53 /\ m <> 0))%Z.
Proof. exact fadd_half_ulp. Qed.
Print Assumptions C09_float_add.

Theorem C09_float_sub :
  forall mx ex my ey m e, fsub (FD mx ex) (FD my ey) = Some (FD m e) ->
  let e0 := Z.min ex ey in let s := (mx * 2 ^ (ex - e0) - my * 2 ^ (ey - e0))%Z in
  ((s = 0 /\ m = 0) \/ (s <> 0 /\ e0 <= e /\ 2 * Z.abs (m * 2 ^ (e - e0) - s) <= 2 ^ (e - e0) /\ Z.abs m <= 2 ^ 53 /\ m <> 0))%Z.
Proof. exact fsub_half_ulp. Qed.
Print Assumptions C09_float_sub.

Theorem C09_float_mul :
  forall mx ex my ey m e, fmul (FD mx ex) (FD my ey) = Some (FD m e) ->
  let s := (mx * my)%Z in let e0 := (ex + ey)%Z in
  ((s = 0 /\ m = 0) \/ (s <> 0 /\ e0 <= e /\ 2 * Z.abs (m * 2 ^ (e - e0) - s) <= 2 ^ (e - e0) /\ Z.abs m <= 2 ^ 53 /\ m <> 0))%Z.
Proof. exact fmul_half_ulp. Qed.
Print Assumptions C09_float_mul.

(* the printed maximum / minimum of a series is one of its elements *)
Theorem C09_extremes_are_elements :
  forall l x, (np_max l = Some x -> In x l) /\ (np_min l = Some x -> In x l).
Proof. intros l x. split; [apply np_max_in|apply np_min_in]. Qed.
Print Assumptions C09_extremes_are_elements.

(* ---- units: label == CurrentUnits at print time; value x 100 only as a percentage -------------------------- *)
(* A line that prints the value itself and takes its unit text from CurrentUnits states the quantity, for every
   parameter state and whatever the conversion pass did to it. *)
Theorem C09_units_current :
  forall p newu f,
  same_quantity (line_states 1%Q UCur (convert_output p newu f)) (q_val (convert_output p newu f), q_cur (convert_output p newu f)).
Proof. exact plain_current_ok. Qed.
Print Assumptions C09_units_current.

(* FULL CLAUSE "the printed unit is the quantity's CurrentUnits" is REFUTED for the lines of the pinned writer that take
   their unit text from PreferredUnits (46 lines, key unit:preferred-own:<label>): after an output-unit request the
   conversion pass changes value and CurrentUnits but the label stays. Witness = the replay of the known finding. *)
Theorem C09_units_preferred_refuted :
  exists p newu f, printed_unit UPref (convert_output p newu f) <> q_cur (convert_output p newu f).
Proof. exact unit_preferred_refuted. Qed.
Print Assumptions C09_units_preferred_refuted.

(* what remains true of those lines: without a unit request for that output (CurrentUnits = PreferredUnits) *)
Theorem C09_units_preferred_partial :
  forall p, q_cur p = q_pref p -> printed_unit UPref p = q_cur p.
Proof. exact unit_preferred_partial. Qed.
Print Assumptions C09_units_preferred_partial.

(* value x 100 followed by a literal '%' (Capacity factor, CHP cost allocation, ...) states the fraction itself *)
Theorem C09_percent_literal :
  forall p, q_cur p = ""%string -> same_quantity (understood (line_states 100%Q (ULit "%") p)) (q_val p, q_cur p).
Proof. exact percent_literal_ok. Qed.
Print Assumptions C09_percent_literal.

(* REFUTED for the five lines that print value x 100 next to CurrentUnits of the unscaled quantity (FCR, accrued
   financing, water loss, annual drawdown, porosity; key percent-unit:<label>): they state 100 times the quantity *)
Theorem C09_percent_current_refuted :
  exists p, q_cur p = ""%string /\ ~ same_quantity (understood (line_states 100%Q UCur p)) (q_val p, q_cur p).
Proof. exact percent_current_refuted. Qed.
Print Assumptions C09_percent_current_refuted.

Theorem C09_percent_current_partial :
  forall p, q_cur p = ""%string -> (q_val p == 0)%Q -> same_quantity (understood (line_states 100%Q UCur p)) (q_val p, q_cur p).
Proof. exact percent_current_partial. Qed.
Print Assumptions C09_percent_current_partial.

(* ---- units: a scalar line is  label, figure, one space, the unit string it was given ---------------------- *)
Theorem C09_scalar_line_layout :
  forall label k w p v u,
  render_line [Lit label; Fld k w p; Lit " "; Str] [Num v; Txt u]
  = Some (label ++ render_fld k w p v ++ " " ++ u)%string.
Proof. exact scalar_line. Qed.
Print Assumptions C09_scalar_line_layout.

(* ---- non-vacuity ------------------------------------------------------------------------------------------ *)
(* an exact decimal tie goes to the even digit; the double nearest 2.675 lies below the tie and prints 2.67 *)
Example C09_ex_tie : fmt_f (Fin (2675#1000)) 10 2 = "      2.68"%string
  /\ fmt_f (Fin (3011692045189939 # 1125899906842624)) 10 2 = "      2.67"%string
  /\ fmt_f (Fin (-(1#1000))) 6 2 = " -0.00"%string.
Proof. vm_compute. repeat split; reflexivity. Qed.

(* 0.00012345 to 3 significant digits; 99950 rounds up into the next decade (tie to even: 9.995e4 -> 1.00e+05) *)
Example C09_ex_sci : fmt_e true (Fin (12345#100000000)) 10 2 = "  1.23E-04"%string
  /\ fmt_e false (Fin (99950#1)) 0 2 = "1.00e+05"%string
  /\ sig_round (99950#1) 3 = (100%Z, 5%Z)
  /\ parse_sci "  1.23E-04" = Some ((1 * (inject_Z 123 / inject_Z (pow10 2)) * Qpow10 (-4))%Q).
Proof. vm_compute. repeat split; reflexivity. Qed.

Example C09_ex_general : fmt_g (Fin (74#1)) 10 4 = "        74"%string /\ fmt_g (Fin (12345#100000000)) 0 4 = "0.0001234"%string
  /\ fmt_g (Fin (123456#1)) 10 4 = " 1.235e+05"%string /\ fmt_g (Fin (-(5#2))) 0 1 = "-2"%string.
Proof. vm_compute. repeat split; reflexivity. Qed.

Example C09_ex_comma : fmt_fc (Fin (1234567891#1000)) 0 2 = "1,234,567.89"%string /\ fmt_fc (Fin (-(999995#1000))) 0 2 = "-1,000.00"%string
  /\ parse_dec_comma "1,234,567.89" = Some ((1 * (inject_Z 123456789 / inject_Z (pow10 2)))%Q).
Proof. vm_compute. repeat split; reflexivity. Qed.

(* a 3-year production profile with 2 time steps per year, labels 1..3: rows read indices 0, 2, 4 *)
Example C09_ex_table :
  table 3 1 2 [Lit "  "; Fld KF 2 0; Lit " "; Fld KF 8 2] [[Fin 10; Fin 11; Fin 12; Fin 13; Fin 14]]
  = Some ["   1    10.00"; "   2    12.00"; "   3    14.00"]%string.
Proof. vm_compute. reflexivity. Qed.

(* a series one entry too short: IndexError *)
Example C09_ex_index_error :
  table 3 1 2 [Fld KF 2 0; Lit " "; Fld KF 8 2] [[Fin 10; Fin 11; Fin 12; Fin 13]] = None.
Proof. vm_compute. reflexivity. Qed.

(* lifetime 2, one construction year: three rows, OPEX 0.00 then 1.50 *)
Example C09_ex_cashflow :
  cashflow_table 2 1 1 [Fld KF 3 0; Lit " "; Fld KF 5 2; Lit " "; Fld KF 5 2] (Fin (3#2)) [[Fin 0; Fin 7; Fin 8]]
  = Some ["  0  0.00  0.00"; "  1  7.00  1.50"; "  2  8.00  1.50"]%string.
Proof. vm_compute. reflexivity. Qed.

(* 0.1 + 0.2 = 0.30000000000000004 = 5404319552844596 * 2^-54 (not 0.3); double(2.675) * 100 rounds to 267.5; average 7/3; ratio 6/8 *)
Example C09_ex_float :
  fadd (FD 3602879701896397 (-55)) (FD 3602879701896397 (-54)) = Some (FD 5404319552844596 (-54))
  /\ fmul (FD 3011692045189939 (-50)) (FD 100 0) = Some (FD 4705768820609280 (-44))
  /\ np_average [FD 1 0; FD 2 0; FD 4 0] = Some (FD 5254199565265579 (-51))
  /\ seval (Some 2%nat) (SDiv (SRow (ALeaf [FD 8 0; FD 9 0; FD 6 0])) (SIdx (ALeaf [FD 8 0; FD 9 0; FD 6 0]) 0)) = Some (FD 6755399441055744 (-53))
  /\ etable 2 1 2 [Fld KF 2 0; Lit " "; Fld KF 6 3] [SDiv (SRow (ALeaf [FD 8 0; FD 9 0; FD 6 0])) (SIdx (ALeaf [FD 8 0; FD 9 0; FD 6 0]) 0)]
     = Some [" 1  1.000"; " 2  0.750"]%string.
Proof. vm_compute. repeat split; reflexivity. Qed.

Example C09_ex_units : printed_unit UPref (convert_output {| q_val := 5%Q; q_cur := "MW"; q_pref := "MW" |} "kW" 1000%Q) = "MW"%string
  /\ q_cur (convert_output {| q_val := 5%Q; q_cur := "MW"; q_pref := "MW" |} "kW" 1000%Q) = "kW"%string
  /\ line_states 100%Q UCur {| q_val := 5#100; q_cur := ""; q_pref := "" |} = (((5#100) * 100)%Q, ""%string).
Proof. repeat split; reflexivity. Qed.

Example C09_ex_templates : (0 < length report_templates)%nat.
Proof. vm_compute. apply Nat.leb_le. reflexivity. Qed.
