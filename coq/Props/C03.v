(* Props/C03.v - Capital and O&M totals are the sum of their parts.  Statements only. *)
From Coq Require Import QArith List ZArith Bool.
From Verif Require Import Base.Flat Model.Costs Proofs.CostsProofs.
Import ListNotations.
Open Scope Q_scope.

Theorem C03_ccap_sum : forall k : cost_in, k_total_valid k = false ->
  ccap k == cexpl k + cwell k + cstim k + cgath k + cplant k + cpiping k + k_dh k
            - ritc_value k + k_flat k - k_other k - k_grant k.
Proof. exact ccap_sum. Qed.
Print Assumptions C03_ccap_sum.

Theorem C03_total_override : forall k : cost_in, k_total_valid k = true ->
  ccap k == k_total_fixed k - ritc_value k + k_flat k - k_other k - k_grant k /\ ccap_pre k = k_total_fixed k.
Proof. exact ccap_total_override. Qed.
Print Assumptions C03_total_override.

Theorem C03_itc : forall k : cost_in,
  (k_ritc_provided k = true -> ritc_value k == k_ritc k * ccap_pre k /\
                               ccap k == (1 - k_ritc k) * ccap_pre k + k_flat k - k_other k - k_grant k) /\
  (k_ritc_provided k = false -> ritc_value k == 0 /\ ccap k == ccap_pre k + k_flat k - k_other k - k_grant k).
Proof. exact itc_exact. Qed.
Print Assumptions C03_itc.

Theorem C03_override_exact : forall k : cost_in,
  (k_stim_valid k = true -> cstim k = k_stim_fixed k) /\
  (k_gath_valid k = true -> cgath k = k_gath_fixed k) /\
  (k_plant_valid k = true -> cplant k = k_plant_fixed k) /\
  (k_expl_valid k = true -> cexpl k = k_expl_fixed k) /\
  (k_ppwc_valid k = true -> c1p k = k_ppwc k /\ c1i k = (if k_piwc_provided k then k_piwc k else k_ppwc k)) /\
  (k_oamplant_valid k = true -> coamplant k = k_oamplant_fixed k) /\
  (k_oamwell_valid k = true -> coamwell k = k_oamwell_fixed k) /\
  (k_oamwater_valid k = true -> coamwater k = k_oamwater_fixed k) /\
  (k_oam_total_valid k = true -> coam_pre k = k_oam_total k).
Proof. exact component_overrides. Qed.
Print Assumptions C03_override_exact.

Theorem C03_wellfield : forall k : cost_in,
  (k_ppwc_valid k = false -> k_sbt k = false ->
     cwell k == (105 # 100) * (k_c1p_corr k * k_nprod k + k_c1i_corr k * k_ninj k + k_lateral k)) /\
  (k_ppwc_valid k = false -> k_sbt k = true ->
     cwell k == k_c1p_corr k * k_nprod k + k_c1i_corr k * k_ninj k + k_lateral k + k_junction k) /\
  (k_ppwc_valid k = true ->
     cwell k == k_ppwc k * k_nprod k + (if k_piwc_provided k then k_piwc k else k_ppwc k) * k_ninj k).
Proof. exact wellfield. Qed.
Print Assumptions C03_wellfield.

Theorem C03_coam_sum : forall k : cost_in, k_oam_total_valid k = false ->
  coam k == coamwell k + coamplant k + coamwater k + chilleropex k + k_dh_oam k
            + redrill_amortised k + k_annual_fee k - k_taxrelief k.
Proof. exact coam_sum. Qed.
Print Assumptions C03_coam_sum.

Theorem C03_coam_total_override : forall k : cost_in, k_oam_total_valid k = true ->
  coam k == k_oam_total k + redrill_amortised k + k_annual_fee k - k_taxrelief k.
Proof. exact coam_total_override. Qed.
Print Assumptions C03_coam_total_override.

Theorem C03_redrill : forall k : cost_in,
  (0 < k_redrill k -> redrill_amortised k == (cwell k + cstim k) * k_redrill k / k_life k) /\
  (k_redrill k <= 0 -> redrill_amortised k == 0).
Proof. exact redrill_amortisation. Qed.
Print Assumptions C03_redrill.

Theorem C03_chiller_counted_once : forall k : cost_in, k_is_chiller k = true -> k_oamplant_valid k = false ->
  coamplant k == k_oamplant_adj k * ((15 # 1000) * (cplant k - k_chillercapex k) + (75 # 100) * k_labor k) /\
  chilleropex k = (if k_chilleropex_provided k then k_chilleropex_in k else k_chillercapex k * 2 / 100).
Proof. exact chiller_counted_once. Qed.
Print Assumptions C03_chiller_counted_once.

Theorem C03_drilled_length : forall cfg nsec nv ind outd np ni,
  match drilling_lengths cfg nsec nv ind outd np ni with
  | [tot; vert; lat; junction] => tot == vert + lat /\ junction == 0 /\
      (cfg <> CfgULoop -> vert == (np + ni) * ind * 1000) /\
      (cfg = CfgULoop -> vert == np * ind * 1000 + ni * outd * 1000) /\
      (cfg = CfgVertical -> lat == 0) /\ (cfg <> CfgVertical -> lat == nsec * nv * 1000)
  | _ => False
  end.
Proof. exact drilling_total. Qed.
Print Assumptions C03_drilled_length.

Theorem C03_per_well_cost : forall (simple : bool) (coef : Q * Q * Q) (d per_m adj : Q),
  (simple = false -> 500 <= d -> one_vertical_well simple coef d per_m adj == adj * quad_cost coef d) /\
  (simple = true \/ d < 500 -> one_vertical_well simple coef d per_m adj == adj * (per_m * d / 1000000)).
Proof. exact one_vertical_well_cases. Qed.
Print Assumptions C03_per_well_cost.

(* non-vertical sections: none for a vertical configuration; uncased sections cost exactly half of cased ones in every pricing
   branch; priced per metre (independent of the number of sections) when a per-metre figure is given, the SIMPLE correlation is
   chosen or a section is shorter than 500 m, and by the correlation per section otherwise *)
Theorem C03_lateral_cost : forall (pm simple cased : bool) (coef : Q * Q * Q) (nsec len per_m adj : Q),
  lateral_cost true pm simple cased coef nsec len per_m adj = 0 /\
  (forall v, lateral_cost v pm simple false coef nsec len per_m adj == (1 # 2) * lateral_cost v pm simple true coef nsec len per_m adj) /\
  (~ nsec == 0 -> pm = true \/ simple = true \/ len / nsec < 500 ->
     lateral_cost false pm simple cased coef nsec len per_m adj == adj * ((if cased then 1 else 1 # 2) * (per_m * len) / 1000000)) /\
  (500 <= len / nsec ->
     lateral_cost false false false cased coef nsec len per_m adj == adj * ((if cased then 1 else 1 # 2) * nsec * quad_cost coef (len / nsec))).
Proof.
  intros. split; [apply lateral_vertical_zero|]. split; [intros; apply lateral_uncased_half|].
  split; [apply lateral_per_metre | apply lateral_by_correlation].
Qed.
Print Assumptions C03_lateral_cost.

(* district-heating network: a supplied total is used verbatim, otherwise rate x length / 1000 with the documented
   precedence of piping length, 75 % of road length, population density *)
Theorem C03_district_network : forall d : dh_in,
  (d_total_provided d = true -> dh_network_cost d = d_total d) /\
  (d_total_provided d = false -> d_piping_provided d = true -> dh_network_cost d == d_rate d * d_piping_len d / 1000) /\
  (d_total_provided d = false -> d_piping_provided d = false -> d_road_provided d = true ->
     dh_network_cost d == d_rate d * ((75 # 100) * d_road_len d) / 1000) /\
  (d_total_provided d = false -> d_piping_provided d = false -> d_road_provided d = false ->
     dh_network_cost d == d_rate d * dh_length_from_density d / 1000).
Proof. exact dh_cost_cases. Qed.
Print Assumptions C03_district_network.

Theorem C03_district_length_bounds : forall d : dh_in, 0 <= d_area d -> 0 <= dh_density d ->
  d_area d <= dh_length_from_density d /\ dh_length_from_density d <= (75 # 10) * d_area d.
Proof. exact dh_length_bounds. Qed.
Print Assumptions C03_district_length_bounds.

(* surface plant including end-use equipment: a valid user figure is used verbatim; otherwise the $250/kWth direct-use cost
   (x adjustment factor x 1.12 x 1.15) plus the end-use equipment (chiller, heat pump, peaking boiler), or - with a power
   plant - the correlation x adjustment factor x 1.12 x 1.15 x 1.02 x 1.10 plus the direct-use part of a cogeneration plant *)
Theorem C03_plant_cost : forall p : plant_in,
  (p_fixed_valid p = true -> plant_cost p = p_fixed p) /\
  (p_fixed_valid p = false -> p_kind p <> PPower ->
     plant_cost p == q112 * q115 * p_adj p * (250 # 1000000) * p_max_he p * 1000 + equipment_cost p) /\
  (p_fixed_valid p = false -> p_kind p = PPower ->
     plant_cost p == q112 * q115 * p_adj p * p_corr p * (102 # 100) * (110 # 100)
                     + (if p_cogen p then q112 * q115 * p_adj p * (250 # 1000000) * p_max_hp_over_eff p * 1000 else 0)).
Proof. exact plant_cost_cases. Qed.
Print Assumptions C03_plant_cost.

Theorem C03_plant_split : forall p : plant_in, p_kind p = PPower ->
  capex_elec_plant p + capex_heat_plant p == plant_cost p /\
  (p_fixed_valid p = false -> p_ratio_provided p = false -> ~ plant_cost p == 0 ->
     plant_ratio p * plant_cost p == capex_elec_plant p).
Proof. exact plant_split. Qed.
Print Assumptions C03_plant_split.

Theorem C03_equipment_verbatim : forall p : plant_in,
  p_eq_provided p = true -> (p_kind p = PChiller \/ p_kind p = PHeatPump) -> equipment_cost p = p_eq_in p.
Proof. exact equipment_verbatim. Qed.
Print Assumptions C03_equipment_verbatim.

(* ---- non-vacuity: a run with ITC, grant and redrilling ---- *)
Definition exk : cost_in :=
  {| k_ppwc_valid := false; k_ppwc := 0; k_piwc_provided := false; k_piwc := 0; k_nprod := 2; k_ninj := 1;
     k_c1p_corr := 4; k_c1i_corr := 5; k_lateral := 0; k_sbt := false; k_junction := 0;
     k_stim_valid := true; k_stim_fixed := 3; k_stim_adj := 1; k_gath_valid := false; k_gath_fixed := 0; k_gath_adj := 1;
     k_cpumps := 100000; k_plant_valid := false; k_plant_fixed := 0; k_plant_corr := 40;
     k_expl_valid := false; k_expl_fixed := 0; k_expl_adj := 1; k_piping_len := 2; k_dh := 0;
     k_total_valid := false; k_total_fixed := 0; k_ritc_provided := true; k_ritc := 3#10; k_flat := 1; k_other := 0; k_grant := 2;
     k_oam_total_valid := false; k_oam_total := 0; k_oamplant_valid := false; k_oamplant_fixed := 0; k_oamplant_adj := 1;
     k_labor := 1; k_oamwell_valid := false; k_oamwell_fixed := 0; k_oamwell_adj := 1; k_oamwater_valid := true;
     k_oamwater_fixed := 1#10; k_oamwater_adj := 1; k_flow := 50; k_waterloss := 0; k_util := 9#10;
     k_is_chiller := false; k_chillercapex := 0; k_chilleropex_provided := false; k_chilleropex_in := 0; k_dh_oam := 0;
     k_redrill := 2; k_life := 30; k_annual_fee := 0; k_taxrelief := 1#10 |}.
Example exk_hyps : k_total_valid exk = false /\ k_ritc_provided exk = true /\ 0 < k_redrill exk /\ 0 < ccap exk /\ 0 < coam exk.
Proof. repeat split; vm_compute; reflexivity. Qed.
Definition exp : plant_in :=
  {| p_kind := PPower; p_cogen := true; p_fixed_valid := false; p_fixed := 0; p_adj := 3#2; p_max_he := 40;
     p_eq_provided := false; p_eq_in := 0; p_max_eq := 0; p_max_peaking := 0; p_corr := 20; p_max_hp_over_eff := 12;
     p_ratio_provided := false; p_ratio_in := 0 |}.
Example exp_hyps : p_kind exp = PPower /\ 0 < plant_cost exp /\ 0 < plant_ratio exp /\ plant_ratio exp < 1.
Proof. repeat split; vm_compute; reflexivity. Qed.
