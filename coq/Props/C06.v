(* Props/C06.v - Results do not depend on the units in which inputs are written.
   Only statements; every proof is [exact <lemma>] from Proofs/.
   Vocabulary (Model/UnitAlg.v, Model/UnitReader.v, Proofs/UnitReaderProofs.v):
     punit        what a unit text means in the program's registry: base = fac * x + off
     convert u v  Quantity(x, u).to(v).magnitude
     tables       pint's parser, LookupUnits and forex_python's code list (any tables: the theorems are generic;
                  gen_tables is the instance regenerated from the live source on every run)
     read_param   ReadParameter on "x" / "x u";  echo_state: Outputs._convert_units for one input parameter
     denotes T cur v q   the pair (v, CurrentUnits = cur) denotes the quantity q (base units)
     restores T c o      LookupUnits recognises the long name pint reports for unit o and returns the text c *)
From Coq Require Import QArith List ZArith Bool String Ascii.
From Verif Require Import Base.Flat Model.UnitAlg Proofs.UnitAlgProofs Model.UnitReader Proofs.UnitReaderProofs
     Gen.UnitCatalogue Gen.UnitReference Proofs.UnitCatalogueProofs.
Import ListNotations.
Open Scope string_scope.
Open Scope Q_scope.

(* ---- the algebra of conversions: all units, all values ---- *)

Theorem C06_affine_roundtrip : forall u v x,
  ~ pu_fac u == 0 -> ~ pu_fac v == 0 -> convert v u (convert u v x) == x.
Proof. exact convert_roundtrip. Qed.
Print Assumptions C06_affine_roundtrip.

Theorem C06_compose : forall u v w x,
  ~ pu_fac v == 0 -> ~ pu_fac w == 0 -> convert v w (convert u v x) == convert u w x.
Proof. exact convert_compose. Qed.
Print Assumptions C06_compose.

(* a converted value denotes the same physical quantity (offsets included: degF, degC, K) *)
Theorem C06_conversion_denotes : forall u v x, ~ pu_fac v == 0 -> to_base v (convert u v x) == to_base u x.
Proof. exact convert_denote. Qed.
Print Assumptions C06_conversion_denotes.

(* ---- the reader ---- *)

(* LookupUnits only ever answers with a member of the catalogue, for every symbol table and recursion depth *)
Theorem C06_lookup_returns_catalogue_member : forall scan sym fuel s t c,
  lookup_units scan sym fuel s = LItem t c -> scan_find t scan = Some c.
Proof. exact lookup_units_item. Qed.
Print Assumptions C06_lookup_returns_catalogue_member.

(* ConvertUnits (pint branch), for EVERY registry table, unit text and value: if LookupUnits recognises the unit pint
   reports after the conversion (the "restore"), the value is the user's value converted, the remembered unit is the
   unit the value is held in, and the pair (value, CurrentUnits) denotes the quantity the user wrote. *)
Theorem C06_denotation_invariant : forall T c u x o n v cur',
  table_wf T ->
  t_parse T c = Some o -> t_parse T u = Some n -> ~ pu_fac o == 0 ->
  (pu_canon o = pu_canon n \/ restores T c o) ->
  convert_units_pint T (UEnum c) x u = ROk (v, cur') ->
  v == convert n o x /\ cur' = UEnum c /\ denotes T cur' v (to_base n x).
Proof. exact convert_units_pint_sound. Qed.
Print Assumptions C06_denotation_invariant.

(* FULL CLAUSE (refuted by the pinned reader, see C06_denotation_refuted / C06_total_refuted):
     forall T sp st x u, in_domain T (s_pref sp) u = true ->
       rres_equiv (read_param T sp st x (Some u)) (read_param T sp st (convert n o x) None).
   PROVED PART: the same under the restore hypothesis - writing "x u" has exactly the effect of writing the equivalent
   value in the unit the parameter is held in: same value, same remembered unit, same Provided flag, same error. *)
Theorem C06_any_unit_as_default_unit_partial : forall T sp st c u x y o n,
  table_wf T -> s_currency sp = false -> p_cur st = UEnum c ->
  t_parse T c = Some o -> t_parse T u = Some n -> ~ pu_fac o == 0 -> same_dim o n = true ->
  (pu_canon o = pu_canon n \/ (restores T c o /\ t_lookup T u <> LRaise)) ->
  y == convert n o x ->
  rres_equiv (read_param T sp st x (Some u)) (read_param T sp st y None).
Proof. exact read_any_unit_as_default. Qed.
Print Assumptions C06_any_unit_as_default_unit_partial.

Theorem C06_read_denotes_partial : forall T sp st c u x o n st',
  table_wf T -> s_currency sp = false -> s_kind sp = KFloat -> p_cur st = UEnum c ->
  t_parse T c = Some o -> t_parse T u = Some n -> ~ pu_fac o == 0 ->
  (pu_canon o = pu_canon n \/ restores T c o) ->
  read_param T sp st x (Some u) = ROk st' ->
  ~ convert n o x == p_value st ->
  p_value st' == convert n o x /\ p_cur st' = UEnum c /\ denotes T (p_cur st') (p_value st') (to_base n x).
Proof. exact read_denotes. Qed.
Print Assumptions C06_read_denotes_partial.

(* the reader does not raise when neither lookup raises *)
Theorem C06_read_total_partial : forall T c u x o n,
  t_parse T c = Some o -> t_parse T u = Some n -> same_dim o n = true ->
  (pu_canon o = pu_canon n \/ (t_lookup T u <> LRaise /\ t_lookup T (pu_canon o) <> LRaise)) ->
  exists r, convert_units_pint T (UEnum c) x u = ROk r.
Proof. exact convert_units_pint_total. Qed.
Print Assumptions C06_read_total_partial.

(* on the REGENERATED catalogue: every parameter x every unit of its catalogue for which pair_good computes to true,
   every value (the finite part is decided by computation, the value quantifier by the generic lemma) *)
Theorem C06_catalogue : forall name isint enum pref units u sp st x y,
  In (name, isint, false, enum, pref, UEnum pref) gen_params ->
  assoc_str enum gen_enums = Some units -> In u units ->
  pair_good gen_tables pref u = true ->
  s_currency sp = false -> p_cur st = UEnum pref ->
  exists o n, t_parse gen_tables pref = Some o /\ t_parse gen_tables u = Some n /\
    (y == convert n o x -> rres_equiv (read_param gen_tables sp st x (Some u)) (read_param gen_tables sp st y None)).
Proof. exact gen_catalogue_reads. Qed.
Print Assumptions C06_catalogue.

Theorem C06_registry_table_wellformed : table_wf gen_tables.
Proof. exact gen_tables_wf. Qed.
Print Assumptions C06_registry_table_wellformed.

(* the regenerated registry table agrees (to 1e-9) with the FROZEN independent reference of what the catalogue units
   mean (spec/c06_unit_reference.json: international foot/inch/pound, Btu, and the units GEOPHIRES3_newunits.txt defines) *)
Theorem C06_reference_units_agree : forall e, In e ref_units -> ref_entry_ok (1 # 1000000000) gen_tables e = true.
Proof. exact gen_reference_agrees. Qed.
Print Assumptions C06_reference_units_agree.

(* ---- the echo ---- *)

(* whatever quantity the state denotes, the pair printed after Outputs._convert_units denotes it too *)
Theorem C06_echo : forall T sp st q p,
  denotes T (p_cur st) (p_value st) q ->
  t_parse T (s_pref sp) = Some p -> ~ pu_fac p == 0 ->
  (forall c, parse_uref T (p_cur st) = Some c -> same_dim c p = true) ->
  exists st', echo_state T sp st = ROk st' /\ denotes T (p_cur st') (p_value st') q.
Proof. exact echo_denotes. Qed.
Print Assumptions C06_echo.

(* 'Reservoir Depth' x1000 with CurrentUnits = METERS keeps the denotation (km -> m) *)
Theorem C06_depth_heuristic : forall T st km m q,
  t_parse T "kilometer" = Some km -> t_parse T "meter" = Some m ->
  pu_fac km == 1000 * pu_fac m -> pu_off km == pu_off m ->
  to_base km (p_value st) == q ->
  denotes T (p_cur (post_depth st)) (p_value (post_depth st)) q.
Proof. exact post_depth_denotes. Qed.
Print Assumptions C06_depth_heuristic.

(* ConvertUnitsBack and ConvertUnits are one affine map: ConvertUnitsBack applied to the user's own pair (x, u) gives the
   value ConvertUnits stores for the text "x u" (every table, unit, value) *)
Theorem C06_back_agrees_with_convert : forall T sp pref u x o n v c' b,
  table_wf T -> s_pref sp = pref ->
  t_parse T pref = Some o -> t_parse T u = Some n -> same_dim o n = true -> ~ pu_fac o == 0 ->
  convert_units_pint T (UEnum pref) x u = ROk (v, c') ->
  exists st', convert_units_back T sp (mkP x (UEnum u) b) = ROk st' /\ p_value st' == v /\ p_cur st' = UEnum pref.
Proof. exact back_agrees_with_convert. Qed.
Print Assumptions C06_back_agrees_with_convert.

(* round trip: a value re-expressed in any unit and put through ConvertUnitsBack is the value again *)
Theorem C06_back_roundtrip : forall T sp c v a p b,
  t_parse T (s_pref sp) = Some p -> t_parse T c = Some a -> same_dim a p = true ->
  ~ pu_fac a == 0 -> ~ pu_fac p == 0 ->
  exists st', convert_units_back T sp (mkP (convert p a v) (UEnum c) b) = ROk st' /\
              p_value st' == v /\ p_cur st' = UEnum (s_pref sp).
Proof. exact back_reexpress_roundtrip. Qed.
Print Assumptions C06_back_roundtrip.

(* well diameters ("> 2 must be inches"): the pair still denotes the diameter read, and the echo returns the inches read *)
Theorem C06_diameter_heuristic : forall T st i m,
  t_parse T "in" = Some i -> t_parse T "meter" = Some m ->
  pu_fac i == (254 # 10000) * pu_fac m -> pu_off i == 0 -> pu_off m == 0 ->
  p_cur st = UEnum "in" ->
  denotes T (p_cur (post_diameter st)) (p_value (post_diameter st)) (to_base i (p_value st)).
Proof. exact post_diameter_denotes. Qed.
Print Assumptions C06_diameter_heuristic.

Theorem C06_diameter_echo_roundtrip : forall T sp st i m,
  s_pref sp = "in" -> t_parse T "in" = Some i -> t_parse T "meter" = Some m -> same_dim m i = true ->
  pu_fac i == (254 # 10000) * pu_fac m -> pu_off i == 0 -> pu_off m == 0 -> ~ pu_fac m == 0 ->
  p_cur st = UEnum "in" ->
  exists st', echo_state T sp (post_diameter st) = ROk st' /\ p_value st' == p_value st /\ units_match "in" (p_cur st') = true.
Proof. exact post_diameter_echo_roundtrip. Qed.
Print Assumptions C06_diameter_echo_roundtrip.

Theorem C06_depth_echo_roundtrip : forall T sp st km m,
  s_pref sp = "kilometer" -> t_parse T "kilometer" = Some km -> t_parse T "meter" = Some m -> same_dim m km = true ->
  pu_fac km == 1000 * pu_fac m -> pu_off km == 0 -> pu_off m == 0 -> ~ pu_fac m == 0 ->
  exists st', echo_state T sp (post_depth st) = ROk st' /\ p_value st' == p_value st /\ p_cur st' = UEnum "kilometer".
Proof. exact post_depth_echo_roundtrip. Qed.
Print Assumptions C06_depth_echo_roundtrip.

(* Economics.Calculate's "depth > 500 -> / 1000, KILOMETERS": the pair keeps denoting the depth; read + x1000 + back is the
   number of kilometres that was read (for depths over 500 m) *)
Theorem C06_depth_back_heuristic : forall T st km m q,
  t_parse T "kilometer" = Some km -> t_parse T "meter" = Some m ->
  pu_fac km == 1000 * pu_fac m -> pu_off km == 0 -> pu_off m == 0 ->
  p_cur st = UEnum "meter" -> to_base m (p_value st) == q ->
  denotes T (p_cur (post_depth_back st)) (p_value (post_depth_back st)) q.
Proof. exact post_depth_back_denotes. Qed.
Print Assumptions C06_depth_back_heuristic.

Theorem C06_depth_there_and_back : forall st,
  Qltb 500 (p_value st * 1000) = true ->
  p_value (post_depth_back (post_depth st)) == p_value st /\ p_cur (post_depth_back (post_depth st)) = UEnum "kilometer".
Proof. exact post_depth_there_and_back. Qed.
Print Assumptions C06_depth_there_and_back.

(* 'Reservoir Impedance' x 1000 keeps the unit: the stored pair is 1000 x the quantity read (NOT the quantity), and the
   report's "value / 1000" is exactly what undoes it *)
Theorem C06_impedance_heuristic : forall st,
  p_value (post_impedance st) / 1000 == p_value st /\ p_cur (post_impedance st) = p_cur st.
Proof. exact post_impedance_echo. Qed.
Print Assumptions C06_impedance_heuristic.

Theorem C06_impedance_denotation_scaled : forall T st c,
  parse_uref T (p_cur st) = Some c -> pu_off c == 0 ->
  to_base c (p_value (post_impedance st)) == 1000 * to_base c (p_value st).
Proof. exact post_impedance_denotation. Qed.
Print Assumptions C06_impedance_denotation_scaled.

(* one-line list parameters ("Gradients, 0.05 degC/m, ..."): a unit suffix on any element is never read - the call raises
   or the line is ignored; without suffixes the list is the numbers of the line *)
Theorem C06_list_line_units_never_read : forall T sp o x u raw r,
  existsb snd raw = true -> read_list_line T sp o x u raw = ROk r -> o_vals r = o_vals o.
Proof. exact read_list_line_units_never_read. Qed.
Print Assumptions C06_list_line_units_never_read.

Theorem C06_list_line_plain : forall T sp o x raw,
  existsb snd raw = false -> Qltb x (s_min sp) || Qltb (s_max sp) x = false ->
  read_list_line T sp o x None raw = ROk (mkO (map fst raw) (o_cur o) (o_pref o)).
Proof. exact read_list_line_plain. Qed.
Print Assumptions C06_list_line_plain.

(* ---- output units ---- *)

(* a requested output unit: every element of the series (any length) is converted, the label is the requested unit *)
Theorem C06_output_requested : forall T o c nu ncur a b,
  o_cur o = UEnum c -> String.eqb nu c = false ->
  t_parse T c = Some a -> t_parse T nu = Some b -> same_dim a b = true ->
  output_step T (Some (LItem nu ncur)) o = ROk (mkO (map (convert a b) (o_vals o)) (UEnum nu) (o_pref o)).
Proof. exact output_step_requested. Qed.
Print Assumptions C06_output_requested.

(* ... each element denotes the same quantity and, for offset-free units, is the old value times the exact factor *)
Theorem C06_output_factor : forall a b l i,
  (i < List.length l)%nat -> ~ pu_fac b == 0 ->
  to_base b (nth i (map (convert a b) l) 0) == to_base a (nth i l 0) /\
  (linear a = true -> linear b = true -> nth i (map (convert a b) l) 0 == nth i l 0 * conv_factor a b).
Proof. exact output_factor. Qed.
Print Assumptions C06_output_factor.

(* ... and nothing else changes: outputs that were not requested (and are in their preferred unit) are untouched,
   keys and order of the dictionary are preserved - for every dictionary *)
Theorem C06_output_others_untouched : forall T reqs outs r k o,
  convert_outputs T reqs outs = ROk r -> In (k, o) outs ->
  assoc_str k reqs = None -> units_match (o_pref o) (o_cur o) = true -> In (k, o) r.
Proof. exact convert_outputs_frame. Qed.
Print Assumptions C06_output_others_untouched.

Theorem C06_output_keys : forall T reqs outs r,
  convert_outputs T reqs outs = ROk r -> map fst r = map fst outs.
Proof. exact convert_outputs_keys. Qed.
Print Assumptions C06_output_keys.

(* ---- what the faithful model of the PINNED reader refutes (witnesses on the pinned registry fragment pin_tables) ---- *)

(* FULL CLAUSE: forall x u st', in_domain -> read "x u" = ROk st' -> denotes (p_cur st') (p_value st') (to_base n x).
   REFUTED: "Injection Temperature, 122 degF" is held as 50 but remembered as degF. *)
Theorem C06_denotation_refuted :
  exists x u n st' c',
    in_domain pin_tables (s_pref spec_temperature) u = true /\ t_parse pin_tables u = Some n /\
    read_param pin_tables spec_temperature st_temperature x (Some u) = ROk st' /\
    parse_uref pin_tables (p_cur st') = Some c' /\
    p_value st' == convert n pin_degC x /\
    ~ to_base c' (p_value st') == to_base n x.
Proof. exact stale_denotation_witness. Qed.
Print Assumptions C06_denotation_refuted.

(* ... and the report echoes 10 degC for it *)
Theorem C06_echo_refuted :
  exists st st',
    read_param pin_tables spec_temperature st_temperature 122 (Some "degF") = ROk st /\
    echo_state pin_tables spec_temperature st = ROk st' /\
    p_cur st' = UEnum "degC" /\ p_value st' == 10 /\ convert pin_degF pin_degC 122 == 50.
Proof. exact stale_echo_witness. Qed.
Print Assumptions C06_echo_refuted.

(* FULL CLAUSE: in_domain -> the reader does not raise.  REFUTED: "Fracture Area, 5000 cm**2" *)
Theorem C06_total_refuted :
  exists x u, in_domain pin_tables (s_pref spec_area) u = true /\
    read_param pin_tables spec_area (mkP 250000 (UEnum "m**2") false) x (Some u) = RErr E_UNDEF.
Proof. exact lookup_raises_witness. Qed.
Print Assumptions C06_total_refuted.

(* FULL CLAUSE: the value read is convert u pref x.  REFUTED for the currency-prefix branch: "0.005 KUSD" -> 5 MUSD *)
Theorem C06_currency_prefix_refuted :
  exists x st' k m,
    t_parse pin_tables "KUSD" = Some k /\ t_parse pin_tables "MUSD" = Some m /\
    read_param pin_tables spec_cost (mkP (-1) (UEnum "MUSD") false) x (Some "KUSD") = ROk st' /\
    p_value st' == x * 1000 /\ convert k m x == x / 1000 /\ ~ p_value st' == convert k m x.
Proof. exact currency_factor_witness. Qed.
Print Assumptions C06_currency_prefix_refuted.

(* PROVED PART of the currency branch: the preferred unit written explicitly leaves the value alone *)
Theorem C06_currency_same_unit_partial : forall T pref x, convert_units_currency T pref x pref = ROk (x, UStr pref).
Proof. exact currency_same_unit. Qed.
Print Assumptions C06_currency_same_unit_partial.

(* ---- non-vacuity: the hypotheses are met on the regenerated tables ---- *)

Example C06_restore_happens_for_lengths_and_pressures :
  pair_good gen_tables "meter" "ft" = true /\ pair_good gen_tables "kilometer" "mile" = true /\
  pair_good gen_tables "in" "meter" = true /\ pair_good gen_tables "kPa" "psi" = true /\ pair_good gen_tables "kPa" "bar" = true.
Proof. repeat split; vm_compute; reflexivity. Qed.

Example C06_denotation_invariant_nonvacuous :
  exists o n v, t_parse gen_tables "meter" = Some o /\ t_parse gen_tables "ft" = Some n /\ restores gen_tables "meter" o /\
    convert_units_pint gen_tables (UEnum "meter") 100 "ft" = ROk (v, UEnum "meter") /\ v == 3048 # 100.
Proof.
  eexists. eexists. eexists. split; [vm_compute; reflexivity|]. split; [vm_compute; reflexivity|].
  split; [eexists; vm_compute; reflexivity|]. split; vm_compute; reflexivity.
Qed.

Example C06_catalogue_nonvacuous :
  nth_error gen_params (param_index "Reservoir Depth" gen_params)
    = Some ("Reservoir Depth", false, false, "LengthUnit", "kilometer", UEnum "kilometer") /\
  (exists units, assoc_str "LengthUnit" gen_enums = Some units /\ existsb (String.eqb "ft") units = true) /\
  pair_good gen_tables "kilometer" "ft" = true.
Proof.
  split; [vm_compute; reflexivity|]. split; [eexists; split; vm_compute; reflexivity|vm_compute; reflexivity].
Qed.

Example C06_echo_nonvacuous :
  exists st', echo_state gen_tables (mkS KFloat false "in" 1 30 8 []) (mkP (2 # 10) (UEnum "meter") true) = ROk st' /\
              p_cur st' = UEnum "in" /\ p_value st' == 2000 # 254.
Proof. eexists. split; [vm_compute; reflexivity|]. split; vm_compute; reflexivity. Qed.

Example C06_output_nonvacuous :
  exists r, output_step gen_tables (Some (t_lookup gen_tables "degF")) (mkO [170; 100] (UEnum "degC") "degC") = ROk r /\
            o_cur r = UEnum "degF" /\ nth 0 (o_vals r) 0 == 338 /\ nth 1 (o_vals r) 0 == 212.
Proof. eexists. split; [vm_compute; reflexivity|]. repeat split; vm_compute; reflexivity. Qed.

Example C06_depth_heuristic_nonvacuous :
  exists km m, t_parse gen_tables "kilometer" = Some km /\ t_parse gen_tables "meter" = Some m /\
               pu_fac km == 1000 * pu_fac m /\ pu_off km == pu_off m.
Proof. eexists. eexists. split; [vm_compute; reflexivity|]. split; [vm_compute; reflexivity|]. split; vm_compute; reflexivity. Qed.

Example C06_reference_nonvacuous :
  existsb (fun e => String.eqb (fst (fst (fst e))) "USD/MMBTU") ref_units = true /\
  existsb (fun e => String.eqb (fst (fst (fst e))) "cents/kWh") ref_units = true /\ Nat.leb 80 (List.length ref_units) = true.
Proof. repeat split; vm_compute; reflexivity. Qed.

Example C06_heuristics_nonvacuous :
  exists i m km, t_parse gen_tables "in" = Some i /\ t_parse gen_tables "meter" = Some m /\ t_parse gen_tables "kilometer" = Some km /\
    pu_fac i == (254 # 10000) * pu_fac m /\ pu_off i == 0 /\ pu_off m == 0 /\ same_dim m i = true /\ same_dim m km = true /\
    p_value (post_diameter (mkP (85 # 10) (UEnum "in") true)) == 2159 # 10000 /\
    p_value (post_diameter (mkP (15 # 10) (UEnum "in") true)) == 15 # 10 /\
    Qltb 500 (p_value (mkP 3 (UEnum "kilometer") true) * 1000) = true.
Proof. eexists. eexists. eexists. repeat split; vm_compute; reflexivity. Qed.

Example C06_back_roundtrip_nonvacuous :
  exists st', convert_units_back gen_tables (mkS KFloat false "degC" 0 200 70 []) (mkP 122 (UEnum "degF") true) = ROk st' /\
              p_value st' == 50 /\ p_cur st' = UEnum "degC".
Proof. eexists. split; [vm_compute; reflexivity|]. split; vm_compute; reflexivity. Qed.

Example C06_list_line_nonvacuous :
  read_list_line gen_tables (mkS KFloat false "degC/km" 0 500 0 []) (mkO [5 # 100; 0] (UEnum "degC/m") "degC/km") (5 # 100)
                 (Some "degC/m") [(5 # 100, true); (4 # 100, true)] = RErr E_FLOAT /\
  read_list_line gen_tables (mkS KFloat false "degC/km" 0 500 0 []) (mkO [5 # 100; 0] (UEnum "degC/m") "degC/km") 50
                 None [(50, false); (40, false)] = ROk (mkO [50; 40] (UEnum "degC/m") "degC/km").
Proof. split; vm_compute; reflexivity. Qed.
