(* Props/C17.v - Heat-in-place assessment (HIP-RA-X) adds up and scales with reservoir size.
   Only statements; every proof is [exact <lemma>] from Proofs/HipRaProofs.v.
   [W : water] are the four CoolProp-backed water-property functions of (T degC, P MPa): every theorem holds for ALL of
   them; [i : hin] are the parameter values Calculate starts from; [hip_err W i = None] means the run raises nothing. *)
From Coq Require Import QArith Qabs Qminmax List ZArith Bool String.
From Verif Require Import Base.Flat Gen.HipTables Model.Fmt Model.HipRa Model.HipReport Spec.HipRaSpec
     Proofs.HipRaProofs Proofs.HipReportProofs Proofs.HipPartialProofs.
Import ListNotations.
Open Scope Q_scope.

(* rock and recoverable-fluid volumes are the stated porosity fractions of the reservoir volume *)
Theorem C17_volumes : forall W i,
  let o := hip_out W i in
  o_volume o == i_area i * i_thick i /\
  o_vol_rock o == (1 - i_por i / 100) * o_volume o /\
  o_vol_fluid o == (i_por i / 100) * i_rff i * o_volume o /\
  (0 <= i_por i <= 100 -> 0 <= i_rff i <= 1 -> 0 <= o_volume o ->
   0 <= o_vol_rock o /\ 0 <= o_vol_fluid o /\ o_vol_rock o + o_vol_fluid o <= o_volume o).
Proof. exact volumes. Qed.
Print Assumptions C17_volumes.

(* stored heat is the sum of its rock and fluid parts (so is the specific enthalpy); closed form of both parts.
   Note the mass triple: total = rock + fluid volume x density, while the published fluid mass is overwritten
   with the produced mass stored/h_net (kept as the code does it). *)
Theorem C17_stored_sum : forall W i,
  let o := hip_out W i in
  o_stored o == o_stored_rock o + o_stored_fluid o /\
  o_enth_res o == o_enth_rock o + o_enth_fluid o /\
  o_mass_total o == o_mass_rock o + o_vol_fluid o * o_fdens o /\
  (hip_err W i = None ->
   o_stored_rock o == i_rrh i * (i_rhc i * (i_Tres i - i_Trej i) * o_vol_rock o) /\
   o_stored_fluid o == (w_h W (i_Tres i) (o_pres o) - w_h W (i_Trej i) (o_pres o)) * (o_vol_fluid o * o_fdens o)).
Proof. exact stored_sum. Qed.
Print Assumptions C17_stored_sum.

(* the heat cascade, for every in-range input whose reservoir is hotter than the rejection temperature and water
   properties with the thermodynamic signs (h and s increase with T at one pressure, exergy >= 0, density >= 0) *)
Theorem C17_cascade_partial : forall W i,
  in_range i -> i_Trej i < i_Tres i -> water_signs W i -> hip_err W i = None ->
  let o := hip_out W i in
  o_avail o <= o_stored o /\ o_prod o <= o_avail o /\ 0 <= o_prod o /\ 0 <= o_stored o.
Proof. exact cascade. Qed.
Print Assumptions C17_cascade_partial.

(* ... and the clause as stated in the property ("for all in-range temperature ... inputs") is FALSE of the faithful
   model: an in-range input with reservoir temperature below rejection temperature, water properties decreasing
   accordingly (CoolProp's values), a run without error, negative stored heat and positive available heat. *)
Theorem C17_cascade_refuted :
  exists W i, in_range i /\ hip_err W i = None /\ i_Tres i < i_Trej i /\
              w_h W (i_Tres i) (c_pres i) < w_h W (i_Trej i) (c_pres i) /\
              w_s W (i_Tres i) (c_pres i) < w_s W (i_Trej i) (c_pres i) /\
              0 <= c_exergy W i /\
              o_stored (hip_out W i) < 0 /\ 0 < o_avail (hip_out W i).
Proof. exact cascade_refuted. Qed.
Print Assumptions C17_cascade_refuted.

(* producible = available x RecoverableHeat(T), a fraction for every temperature *)
Theorem C17_recoverable_range : forall T, (427#1000) <= recoverable_heat T <= (66#100).
Proof. exact recoverable_range. Qed.
Print Assumptions C17_recoverable_range.

(* UtilEff_func over the table regenerated from the source: a fraction wherever it is defined; and for ANY table
   with increasing knots the linear interpolation stays within the range of the tabulated values *)
Theorem C17_util_eff_range : forall t u, util_eff t = Some u -> 0 <= u <= 1.
Proof. exact util_eff_range. Qed.
Print Assumptions C17_util_eff_range.

Theorem C17_interpolation_within : forall lo hi tbl t u,
  table_ok lo hi tbl = true -> util_eff_on tbl t = Some u -> lo <= u <= hi.
Proof. exact util_eff_on_within. Qed.
Print Assumptions C17_interpolation_within.

(* electric energy over the life cycle (MW x 1000 kW/MW x seconds) never exceeds the available heat (kJ) *)
Theorem C17_electricity_bounded : forall W i,
  hip_err W i = None -> 0 <= o_avail (hip_out W i) -> 0 < i_life i ->
  0 <= o_elec (hip_out W i) /\ o_elec (hip_out W i) * 1000 * c_life_s i <= o_avail (hip_out W i).
Proof. exact electricity_bounded. Qed.
Print Assumptions C17_electricity_bounded.

(* area: for EVERY input, water-property functions and factor k <> 0 the error status is unchanged and every
   extensive result is multiplied by k, per-area / per-volume / percentage / specific results unchanged *)
Theorem C17_area_homogeneous : forall W i k, ~ k == 0 ->
  let i' := with_area (k * i_area i) i in
  hip_err W i' = hip_err W i /\
  (hip_err W i = None -> scaled k false (hip_out W i) (hip_out W i')).
Proof. exact area_homogeneous. Qed.
Print Assumptions C17_area_homogeneous.

(* thickness: extensive and per-area results x k, per-volume / percentage / specific results unchanged *)
Theorem C17_thickness_homogeneous : forall W i k, ~ k == 0 ->
  let i' := with_thick (k * i_thick i) i in
  hip_err W i' = hip_err W i /\
  (hip_err W i = None -> scaled k true (hip_out W i) (hip_out W i')).
Proof. exact thickness_homogeneous. Qed.
Print Assumptions C17_thickness_homogeneous.

(* units: for every row (parameter, unit, factor, offset) of the table regenerated from Units.py and the live pint
   registry, the quantity x written in that unit gives IDENTICAL results to x written in the preferred unit *)
Theorem C17_units_same_results : forall name unit f o,
  In (name, unit, f, o) hip_unit_table ->
  forall W i x,
    hip_calc_reading W name f o (write_value f o x) i = hip_calc_reading W name 1 0 x i /\
    exists r, hip_calc_reading W name 1 0 x i = Some r.
Proof. exact units_same_results. Qed.
Print Assumptions C17_units_same_results.

(* the verdicts on implementation outputs are computed by these checkers; a passed check means the clause holds
   within the comparison tolerance (tol = 0: exactly) *)
Theorem C17_checkers_sound : forall tol por area thick rff o,
  (chk_volume tol area thick o = true -> within tol (nth 0 o 0) (area * thick)) /\
  (chk_vol_rock tol por o = true -> within tol (nth 1 o 0) (nth 0 o 0 * (1 - por / 100))) /\
  (chk_vol_fluid tol por rff o = true -> within tol (nth 2 o 0) (nth 0 o 0 * (por / 100) * rff)) /\
  (chk_stored_sum tol o = true -> within tol (nth 15 o 0) (nth 13 o 0 + nth 14 o 0)) /\
  (chk_avail_le_stored tol o = true ->
     nth 16 o 0 <= nth 15 o 0 + tol * Qmax3 1 (Qabs (nth 16 o 0)) (Qabs (nth 15 o 0))) /\
  (chk_prod_le_avail tol o = true ->
     nth 17 o 0 <= nth 16 o 0 + tol * Qmax3 1 (Qabs (nth 17 o 0)) (Qabs (nth 16 o 0))).
Proof. exact chk_clauses_sound. Qed.
Print Assumptions C17_checkers_sound.

Theorem C17_scaling_checker_sound : forall tol k mask base scaled',
  chk_scaled tol k mask base scaled' = true ->
  List.length base = List.length mask /\ List.length scaled' = List.length mask /\
  forall j, (j < List.length mask)%nat ->
    within tol (nth j scaled' 0) (if nth j mask false then k * nth j base 0 else nth j base 0).
Proof. exact chk_scaled_sound. Qed.
Print Assumptions C17_scaling_checker_sound.

(* ---- the mass triple is NOT additive as published (excluded from the property), and what does hold ---- *)
(* "Mass of Reservoir (fluid)" is overwritten with the produced mass stored/h_net, so rock + fluid exceeds the total
   that was computed before the overwrite: refuted on the shipped example (in range, Tres > Trej, no error) *)
Theorem C17_mass_additivity_refuted :
  exists W i, in_range i /\ hip_err W i = None /\ i_Trej i < i_Tres i /\
              let o := hip_out W i in
              o_mass_rock o + o_mass_fluid o > o_mass_total o /\
              ~ o_mass_total o == o_mass_rock o + o_mass_fluid o.
Proof. exact mass_additivity_refuted. Qed.
Print Assumptions C17_mass_additivity_refuted.

(* the published triple adds up exactly when the rock part of the stored heat is zero *)
Theorem C17_mass_additivity_partial : forall W i, hip_err W i = None ->
  let o := hip_out W i in
  (o_mass_total o == o_mass_rock o + o_mass_fluid o <-> o_stored_rock o == 0).
Proof. exact mass_additivity_partial. Qed.
Print Assumptions C17_mass_additivity_partial.

(* what the published fluid mass is (the total obeys total = rock + fluid volume x density: C17_stored_sum) *)
Theorem C17_mass_fluid_published : forall W i, hip_err W i = None ->
  let o := hip_out W i in
  o_mass_fluid o == o_vol_fluid o * o_fdens o + o_stored_rock o / c_hnet W i.
Proof. exact mass_fluid_published. Qed.
Print Assumptions C17_mass_fluid_published.

(* ---- hip_ra_x.main() when Calculate raises: it logs, then prints the outputs as they stand ---- *)
(* [published W i]: the 25 figures main() goes on to print (assigned-so-far values, 0 for the rest); equal to the
   results when nothing is raised *)
Theorem C17_published_when_ok : forall W i, hip_err W i = None -> published W i = hout_list (hip_out W i).
Proof. exact published_ok. Qed.
Print Assumptions C17_published_when_ok.

(* the in-range inputs porosity 100, area 0 and temperature above 600 C do raise *)
Theorem C17_porosity_100_raises : forall W i,
  i_por i == 100 -> c_fhc_derived i = false \/ (0 <= i_Tres i <= 600) -> err_site_of W i = Some SiteMassRock.
Proof. exact raises_porosity_100. Qed.
Print Assumptions C17_porosity_100_raises.

Theorem C17_area_0_raises : forall W i,
  i_area i == 0 -> c_fhc_derived i = false \/ (0 <= i_Tres i <= 600) -> err_site_of W i = Some SiteMassRock.
Proof. exact raises_area_0. Qed.
Print Assumptions C17_area_0_raises.

Theorem C17_above_600_raises : forall W i, 600 < i_Tres i -> exists s, err_site_of W i = Some s.
Proof. exact raises_above_600. Qed.
Print Assumptions C17_above_600_raises.

(* ... and whatever is then printed still satisfies the volume and additivity clauses (for EVERY input and error site) *)
Theorem C17_partial_report_additive : forall W i,
  let p := published W i in
  nth 0 p 0 == i_area i * i_thick i /\
  nth 1 p 0 == (1 - i_por i / 100) * nth 0 p 0 /\
  nth 2 p 0 == (i_por i / 100) * i_rff i * nth 0 p 0 /\
  nth 15 p 0 == nth 13 p 0 + nth 14 p 0.
Proof. exact published_additive. Qed.
Print Assumptions C17_partial_report_additive.

(* ... and the cascade under the hypotheses of C17_cascade_partial: a partial report never shows producible >
   available > stored; it shows zeros without an error status, which no clause of C17 forbids *)
Theorem C17_partial_report_cascade : forall W i,
  in_range i -> i_Trej i < i_Tres i -> water_signs W i ->
  let p := published W i in
  (hip_err W i = None \/ ~ c_mass_rock i == 0 \/ nth 15 p 0 == 0) /\
  nth 16 p 0 <= nth 15 p 0 /\ nth 17 p 0 <= nth 16 p 0 /\ 0 <= nth 17 p 0.
Proof. exact published_cascade. Qed.
Print Assumptions C17_partial_report_cascade.

(* ---- the report and the client ---- *)
(* every line the report writer produces for a value q, in either format, with any label without ':' / outer blanks
   and any unit without blanks, is parsed by the client (HipRaResult) as exactly that label, the printed value and
   that unit (None for an empty unit) *)
Theorem C17_report_line_parses : forall label unit k q,
  label_ok_b label = true -> no_space unit = true ->
  parse_line (hip_line label (render k (Fin q) unit)) = Some (label, printed k q, unit_opt unit).
Proof. exact hip_line_parses. Qed.
Print Assumptions C17_report_line_parses.

(* line k of SUMMARY OF RESULTS, with the labels and units regenerated from the current source: label, value of the
   result it is about in the stated format, unit - and the client returns exactly those.  [published] covers the
   normal report and the partial one. *)
Theorem C17_report_states_results : forall W i k idx kind,
  nth_error (result_rows (i_depth_given i) (i_pres_given i)) k = Some (idx, kind) ->
  exists line,
    nth_error (section_lines (result_rows (i_depth_given i) (i_pres_given i)) hip_out_names (map Fin (published W i))) k = Some line /\
    parse_line line = Some (fst (name_at hip_out_names idx), printed kind (nth idx (published W i) 0),
                            unit_opt (snd (name_at hip_out_names idx))).
Proof. exact report_states_published. Qed.
Print Assumptions C17_report_states_results.

Theorem C17_report_states_inputs : forall dg pg vals k idx kind q,
  nth_error (input_rows dg pg) k = Some (idx, kind) -> nth idx vals (Fin 0) = Fin q ->
  exists line, nth_error (section_lines (input_rows dg pg) hip_in_names vals) k = Some line /\
               parse_line line = Some (fst (name_at hip_in_names idx), printed kind q, unit_opt (snd (name_at hip_in_names idx))).
Proof. exact inputs_section_states_values. Qed.
Print Assumptions C17_report_states_inputs.

(* the printed value of a '10.2f' line is the quantity (x100 for the recovery factor) rounded to two decimals *)
Theorem C17_printed_fixed_is_rounded : forall q,
  Qabs (printed KFix q - q) <= (1#2) / inject_Z (pow10 2) /\
  Qabs (printed KPct q - 100 * q) <= (1#2) / inject_Z (pow10 2).
Proof. exact printed_fixed_close. Qed.
Print Assumptions C17_printed_fixed_is_rounded.

(* ... and the printed value of a '10.2e' line is the quantity rounded to three significant digits (half a unit of
   the third digit), whenever Fmt.ilog10 returns the decimal exponent of q ([sig_ok q], evaluated on every printed
   value of every run) *)
Theorem C17_printed_sci_is_rounded : forall q, ~ q == 0 -> sig_ok q = true ->
  Qabs (printed KSci q - q) <= (1#2) * Qpow10 (ilog10 q - 2).
Proof. exact sci_shown_close. Qed.
Print Assumptions C17_printed_sci_is_rounded.

(* ---- legacy src/hip_ra/HIP_RA.py: the part of its method that is the same volumetric computation ---- *)
Theorem C17_legacy_common_part : forall W i,
  let l := legacy_common W i in let o := hip_out W i in
  nth 0 l 0 = o_volume o /\ nth 3 l 0 = o_enth_fluid o /\
  (i_rff i == 1 -> nth 1 l 0 == o_vol_fluid o * i_fdens i) /\
  (hip_err W i = None -> i_por i == 0 -> i_rrh i == 1 -> nth 2 l 0 == o_stored_rock o).
Proof. exact legacy_common_part. Qed.
Print Assumptions C17_legacy_common_part.

(* ---- non-vacuity: the hypotheses above are satisfiable, on the shipped example (250 C / 60 C) ---- *)
Definition example_input : hin :=
  {| i_Tres := 250; i_Trej := 60; i_por := 10; i_area := 55; i_thick := 1#4; i_life := 25;
     i_rhc := 2840000000000#1; i_fhc := -1#1; i_fdens := -1#1; i_rdens := 2550000000000#1; i_rff := 1#2; i_rrh := 3#4;
     i_depth_given := false; i_depth := -1#1; i_pres_given := false; i_pres := -1#1;
     i_fdens_min := 100000000000#1; i_fhc_min := 3 |}.
Definition example_water : water :=
  water_of_data 250 (861884#1000) (433556#100) (1103134#1000) (315026#1000) (2659538#1000000) (792175#1000000).

Example C17_example_run_ok : hip_err example_water example_input = None /\ in_range example_input.
Proof. split; vm_compute; reflexivity. Qed.
Example C17_example_signs : water_signs example_water example_input /\ i_Trej example_input < i_Tres example_input.
Proof. unfold water_signs. repeat split; vm_compute; (reflexivity || discriminate). Qed.
Example C17_example_cascade :
  let o := hip_out example_water example_input in o_prod o < o_avail o /\ o_avail o < o_stored o /\ 0 < o_prod o.
Proof. repeat split; vm_compute; reflexivity. Qed.
Example C17_example_scaling : ~ 2 == 0 /\ hip_err example_water (with_area (2 * 55) example_input) = None.
Proof. split; [discriminate | vm_compute; reflexivity]. Qed.
Example C17_example_unit_row : exists e, hd_error hip_unit_table = Some e /\ In e hip_unit_table.
Proof. eexists. split; [reflexivity | left; reflexivity]. Qed.
Example C17_example_util : exists u, util_eff 250 = Some u /\ u == 2#5.
Proof. eexists. split; [vm_compute; reflexivity | reflexivity]. Qed.
Example C17_example_checker :
  chk_scaled 0 2 [true; false] [3; 5] [6; 5] = true /\ chk_scaled 0 2 [true; false] [3; 5] [6; 10] = false.
Proof. split; vm_compute; reflexivity. Qed.
Example C17_example_line :
  string_of_list_ascii (hip_line (chars "Stored Heat (rock)") (render KSci (Fin (3880000000000000#1)) (chars "kJ")))
    = "      Stored Heat (rock):        3.88e+15 kJ"%string /\
  exists v, parse_line (chars "      Stored Heat (rock):        3.88e+15 kJ") = Some (chars "Stored Heat (rock)", v, Some (chars "kJ")) /\
            v == 3880000000000000#1.
Proof. split; [vm_compute; reflexivity|]. eexists. split; vm_compute; reflexivity. Qed.
Example C17_example_row : nth_error (result_rows false false) 13 = Some (18%nat, KPct) /\ label_ok_b (chars "Recovery Factor (reservoir)") = true.
Proof. split; reflexivity. Qed.
Example C17_example_partial :
  err_site_of example_water (set_field 2 100 example_input) = Some SiteMassRock /\
  nth 0 (published example_water (set_field 2 100 example_input)) 0 == 55 # 4 /\
  nth 15 (published example_water (set_field 2 100 example_input)) 0 == 0.
Proof. repeat split; vm_compute; reflexivity. Qed.
Example C17_example_mass : hip_err mass_witness_water mass_witness_input = None /\ ~ o_stored_rock (hip_out mass_witness_water mass_witness_input) == 0.
Proof. split; [vm_compute; reflexivity | vm_compute; discriminate]. Qed.
Example C17_example_legacy :
  match run_legacy_common [250; 60; 10; 55; 1#4; 2840000000000#1; 861884000000#1; 1103; 315; 266#100; 79#100] with
  | Vals (v :: m :: _) => v == 55#4 /\ 0 < m
  | _ => False
  end.
Proof. vm_compute. split; reflexivity. Qed.
Example C17_example_sci : sig_ok (3880000000000000#1) = true /\ printed KSci (3884000000000000#1) == 3880000000000000#1.
Proof. split; vm_compute; reflexivity. Qed.
