(* Props/C07.v - Out-of-range and invalid inputs are rejected, never silently altered.
   Only statements; every proof is [exact <lemma>] from Proofs/RangeReaderProofs.v.
   [param] is one row of Gen/ParamTable (regenerated from the live module classes on every run); the theorems
   quantify over EVERY row (any declaration) and EVERY finite value, so they hold of whatever table the current
   source produces; the finite side conditions ([row_ok]) are evaluated on the regenerated table by the check. *)
From Coq Require Import QArith ZArith List String Bool.
From Verif Require Import Base.Flat Base.ParamRec Model.RangeReader Proofs.RangeReaderProofs Model.TokenReader Proofs.TokenReaderProofs.
Import ListNotations.
Open Scope Q_scope.

(* The property as a predicate on (parameter, value, outcome) - [spec_ok]: inside the documented domain the value
   in use afterwards is the supplied one; outside it the call raises naming the parameter, or (sentinel only)
   leaves everything untouched.  The reader model satisfies it for every float parameter and every value, and for
   every int parameter and every INTEGRAL value whose declared default is not shadowed by a different start value. *)
Theorem C07_model_meets_spec :
  forall p v, is_numeric p = true -> (p_kind p = KInt -> integral v = true) -> no_shadow p v = true ->
  spec_ok p v (read_param p v) = true.
Proof. exact model_meets_spec. Qed.
Print Assumptions C07_model_meets_spec.

(* rejection, floats: every value below Min or above Max that is not the 'not provided' value *)
Theorem C07_reject_float :
  forall p v, p_kind p = KFloat -> (v < p_min p \/ p_max p < v) -> is_sentinel p v = false ->
  read_param p v = Reject (p_name p).
Proof. exact reject_float. Qed.
Print Assumptions C07_reject_float.

(* rejection, ints and options: every integer that is not a member of the AllowableRange *)
Theorem C07_reject_int :
  forall p n, p_kind p = KInt -> in_runs n (p_range p) = false -> is_sentinel p (inject_Z n) = false ->
  read_param p (inject_Z n) = Reject (p_name p).
Proof. exact reject_int. Qed.
Print Assumptions C07_reject_int.

(* the only out-of-domain values that are not rejected are the declared default / the start value *)
Theorem C07_sentinel :
  forall p v, is_numeric p = true -> (p_kind p = KInt -> integral v = true) -> in_domain p v = false ->
  read_param p v <> Reject (p_name p) -> is_sentinel p v = true.
Proof. exact sentinel_only. Qed.
Print Assumptions C07_sentinel.

(* never clamped, never replaced by a default: whatever is accepted is the supplied value and lies in the domain *)
Theorem C07_never_altered :
  forall p v w, is_numeric p = true -> (p_kind p = KInt -> integral v = true) ->
  read_param p v = Accept w -> w == v /\ in_domain p v = true.
Proof. exact accept_is_input. Qed.
Print Assumptions C07_never_altered.

(* values in [Min, Max], in particular exactly Min and Max, are accepted and are the value in use *)
Theorem C07_accept_float :
  forall p v, p_kind p = KFloat -> p_min p <= v -> v <= p_max p -> final_is p (read_param p v) v.
Proof. exact accept_float. Qed.
Print Assumptions C07_accept_float.

Theorem C07_accept_bounds_float :
  forall p, p_kind p = KFloat -> p_min p <= p_max p ->
  final_is p (read_param p (p_min p)) (p_min p) /\ final_is p (read_param p (p_max p)) (p_max p).
Proof. exact accept_bounds_float. Qed.
Print Assumptions C07_accept_bounds_float.

(* members of the AllowableRange are accepted and used - PARTIAL: under [no_shadow] *)
Theorem C07_accept_int_partial :
  forall p n, p_kind p = KInt -> in_runs n (p_range p) = true -> no_shadow p (inject_Z n) = true ->
  final_is p (read_param p (inject_Z n)) (inject_Z n).
Proof. exact accept_int. Qed.
Print Assumptions C07_accept_int_partial.

(* ... and without it the clause is refuted by the pinned declarations (AGS/SBT 'Number of Multilateral
   Sections': minimum 0 = DefaultValue, start value 1; '0' is ignored and 1 is used) *)
Theorem C07_accept_bound_refuted :
  exists p n, p_kind p = KInt /\ runs_min (p_range p) = Some n /\ in_domain p (inject_Z n) = true /\
              ~ final_is p (read_param p (inject_Z n)) (inject_Z n).
Proof. exact int_bound_shadow_refuted. Qed.
Print Assumptions C07_accept_bound_refuted.

(* int parameters are read through int(float(s)): for a non-integral number the truncation is what is tested
   and stored, so the rejection clause is refuted for non-integral values ('3.7' wells -> 3) *)
Theorem C07_int_fraction_refuted :
  exists p v w, p_kind p = KInt /\ integral v = false /\ in_domain p v = false /\
                read_param p v = Accept w /\ ~ w == v.
Proof. exact int_fraction_refuted. Qed.
Print Assumptions C07_int_fraction_refuted.

Theorem C07_int_accepts_truncation :
  forall p v w, p_kind p = KInt -> read_param p v = Accept w ->
  w = inject_Z (trunc v) /\ in_runs (trunc v) (p_range p) = true.
Proof. exact accept_int_is_trunc. Qed.
Print Assumptions C07_int_accepts_truncation.

(* lifting to all parameters of all modules: for ANY table whose rows pass the finite check [row_ok]
   (evaluated by the check on the regenerated Gen/ParamTable), every float/int parameter has documented bounds
   lo <= hi that are accepted and used, and everything outside [lo, hi] except the sentinel is rejected by name *)
Theorem C07_table :
  forall tbl, forallb row_ok tbl = true ->
  forall p, In p tbl -> is_numeric p = true ->
  exists lo hi, lo_bound p = Some lo /\ hi_bound p = Some hi /\
    final_is p (read_param p lo) lo /\ final_is p (read_param p hi) hi /\
    forall v, (p_kind p = KInt -> integral v = true) -> (v < lo \/ hi < v) -> is_sentinel p v = false ->
              read_param p v = Reject (p_name p).
Proof. exact table_property. Qed.
Print Assumptions C07_table.

(* a value written in ANY unit: whatever the conversion into the parameter's CurrentUnits is (conv: pint, as data),
   the reader's verdict on "v unit" is the verdict of the range model on the converted value - out of [Min, Max]
   after conversion: rejected by name; inside: the converted value is the value in use *)
Theorem C07_unit_qualified :
  forall p conv v, p_kind p = KFloat ->
  ((conv v < p_min p \/ p_max p < conv v) -> is_sentinel p (conv v) = false -> read_qualified p conv v = Reject (p_name p)) /\
  (p_min p <= conv v -> conv v <= p_max p -> final_is p (read_qualified p conv v) (conv v)).
Proof. exact qualified_verdict. Qed.
Print Assumptions C07_unit_qualified.

(* ================= round 2: the TEXT of a value (Model/TokenReader.v) ================= *)

(* a number, however it is written ("31", "4.0", "1e0"): everything above carries over *)
Theorem C07_text_number :
  forall p t v, tok_num t = Some v -> is_numeric p = true -> (p_kind p = KInt -> integral v = true) -> no_shadow p v = true ->
  tspec_ok p t (read_tok p t) = true.
Proof. exact tok_meets_spec. Qed.
Print Assumptions C07_text_number.

(* +inf / -inf for a float parameter and any value containing a blank (unit-less parameters): rejected by name *)
Theorem C07_inf_and_blank_rejected :
  forall p t, (t = TBlank \/ (p_kind p = KFloat /\ (t = TPInf \/ t = TNInf))) ->
  read_tok p t = TRejectNamed (p_name p) /\ tspec_ok p t (read_tok p t) = true.
Proof. exact nonnumber_rejected. Qed.
Print Assumptions C07_inf_and_blank_rejected.

(* REFUTED: nan is outside every range, yet EVERY float parameter stores it (all comparisons with nan are False) *)
Theorem C07_nan_refuted :
  forall p, p_kind p = KFloat -> read_tok p TNaN = TAcceptNaN /\ tspec_ok p TNaN (read_tok p TNaN) = false.
Proof. exact nan_accepted. Qed.
Print Assumptions C07_nan_refuted.

(* REFUTED ("names the parameter"): non-numeric text for any parameter, nan / inf for int parameters: rejected, but by
   float() / int() errors that do not mention the parameter *)
Theorem C07_anonymous_error_refuted :
  forall p t, (t = TText \/ (p_kind p = KInt /\ (t = TNaN \/ t = TPInf \/ t = TNInf))) ->
  read_tok p t = TErrAnon /\ tspec_ok p t (read_tok p t) = false.
Proof. exact anonymous_errors. Qed.
Print Assumptions C07_anonymous_error_refuted.

(* options: the integer text is what every module's conversion understands ... *)
Theorem C07_option_canonical :
  forall strict named else_to p n, read_option strict named else_to p (TCanon n) = read_tok p (TCanon n).
Proof. exact option_canon. Qed.
Print Assumptions C07_option_canonical.

(* ... every integer of the AllowableRange is a member of the enum (for any table row passing option_ok, which the
   check evaluates on the regenerated tables): the conversion to the enum never fails on an accepted value *)
Theorem C07_option_members :
  forall t i strict named else_to ms, option_ok t (i, strict, named, else_to, ms) = true ->
  let p := nth i t dummy_param in forall n, in_runs n (p_range p) = true -> memZb n ms = true.
Proof. exact option_conversion_total. Qed.
Print Assumptions C07_option_members.

(* REFUTED: a member written as "5.0" passes ReadParameter and then dies in <Enum>.from_input_string, whose message
   ("Unknown Configuration input value") does not name 'Well Geometry Configuration' *)
Theorem C07_option_float_form_refuted :
  exists p v, in_domain p v = true /\ read_tok p (TNum v) = TAccept v /\ read_option true false None p (TNum v) = TErrAnon /\
              tspec_option_ok p (TNum v) (read_option true false None p (TNum v)) = false.
Proof. exact option_float_form_refuted. Qed.
Print Assumptions C07_option_float_form_refuted.

(* REFUTED ("never replaced"): Fracture Shape - every text other than exactly '1', '2', '3' ends as member 4, so "2.0"
   (member 2, accepted by ReadParameter) is silently replaced by 4 *)
Theorem C07_option_else_refuted :
  exists p v m, in_domain p v = true /\ read_option false false (Some m) p (TNum v) = TAccept (inject_Z m) /\ ~ inject_Z m == v /\
                tspec_ok p (TNum v) (read_option false false (Some m) p (TNum v)) = false.
Proof. exact option_else_refuted. Qed.
Print Assumptions C07_option_else_refuted.

(* booleans: the documented words mean what they say ... *)
Theorem C07_bool_words :
  forall s, (in_words s false_words = true -> read_bool s = false) /\
            (in_words s true_words = true -> in_words s false_words = false -> read_bool s = true).
Proof. exact bool_words. Qed.
Print Assumptions C07_bool_words.

(* ... REFUTED: every other non-empty text is silently True ("maybe", and "FALSE") *)
Theorem C07_bool_junk_refuted :
  (forall s, bool_documented s = false -> s <> ""%string -> read_bool s = true) /\
  bool_documented "maybe" = false /\ read_bool "maybe" = true /\ bool_documented "FALSE" = false /\ read_bool "FALSE" = true.
Proof. exact bool_junk_refuted. Qed.
Print Assumptions C07_bool_junk_refuted.

(* ---- non-vacuity: the hypotheses are satisfiable on realistic rows ---- *)
Definition ex_float : param :=
  mkParam "Reservoir" "Reservoir Depth" KFloat (Some (3#1)) (Some (3#1)) (1#10) (15#1) [] "kilometer" "kilometer"
          "LENGTH" true "number" "3/1".
Definition ex_cost : param :=   (* a -1 'not provided' sentinel outside [0, 1000] *)
  mkParam "Economics" "Total Capital Cost" KFloat (Some (-1#1)) (Some (-1#1)) 0 (1000#1) [] "MUSD" "MUSD"
          "CURRENCY" false "number" "-1/1".

Example C07_example_bounds :
  read_param ex_float (1#10) = Accept (1#10) /\ read_param ex_float (15#1) = Accept (15#1) /\
  read_param ex_float (1501#100) = Reject "Reservoir Depth" /\ read_param ex_float (9#100) = Reject "Reservoir Depth" /\
  read_param ex_cost (-1#1) = Unchanged /\ read_param ex_cost (-2#1) = Reject "Total Capital Cost" /\
  read_param ex_cost 0 = Accept 0.
Proof. repeat split; vm_compute; reflexivity. Qed.

Example C07_example_int :
  read_param w_production_wells (200#1) = Accept (200#1) /\ read_param w_production_wells (201#1) = Reject "Number of Production Wells" /\
  read_param w_production_wells (0#1) = Reject "Number of Production Wells" /\
  no_shadow w_production_wells (1#1) = true /\ row_ok w_production_wells = true /\ row_ok ex_float = true /\
  row_ok w_ags_laterals = false /\
  spec_ok w_production_wells (37#10) (read_param w_production_wells (37#10)) = false.
Proof. repeat split; vm_compute; reflexivity. Qed.

Example C07_example_table : forallb row_ok [ex_float; ex_cost; w_production_wells] = true.
Proof. vm_compute. reflexivity. Qed.

Example C07_example_text :
  read_qualified ex_float (fun m => m / (1000#1)) (20000#1) = Reject "Reservoir Depth" /\
  read_qualified ex_float (fun m => m / (1000#1)) (15000#1) = Accept ((15000#1) / (1000#1)) /\
  read_tok ex_float (TNum (15#1)) = TAccept (15#1) /\ read_tok ex_float TPInf = TRejectNamed "Reservoir Depth" /\
  read_tok ex_float TNaN = TAcceptNaN /\ read_tok w_production_wells TText = TErrAnon /\
  read_option true true None w_econ_model (TCanon 4) = TAccept (4#1) /\ read_option true true None w_econ_model (TCanon 5) = TRejectNamed "Economic Model" /\
  read_option true true None w_econ_model (TNum (4#1)) = TRejectNamed "Economic Model" /\
  option_ok [w_econ_model] (0%nat, true, true, None, [1; 2; 3; 4]%Z) = true /\ option_ok [w_econ_model] (0%nat, true, true, None, [1; 2; 3]%Z) = false /\
  read_bool "0" = false /\ read_bool "Yes" = true /\ bool_words_disjoint = bool_words_disjoint.
Proof. repeat split; vm_compute; reflexivity. Qed.
