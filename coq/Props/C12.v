(* Props/C12.v - Input-file layout is irrelevant.
   Only statements; every proof is [exact <lemma>] from Proofs/.  The model (Model/UTokenizer.v) is
   GeoPHIRESUtils.read_input_file over texts of Unicode code points ([string] = list N, [String] = cons, $"abc" = the text
   of an ASCII literal): text-mode newline decoding, readlines, strip with the full str.isspace() table, comment
   prefixes, split(','), ParameterEntry, and Python's insertion-ordered dict; Model/Utf8.v is the UTF-8 decoding of the
   file's bytes (errors included). *)
From Coq Require Import String NArith List Bool Permutation.
From Verif Require Import Base.UStr Model.UTokenizer Model.Utf8 Proofs.UTokenizerProofs Proofs.Utf8Proofs Gen.InputParamUses Proofs.TokenizerUses.
Import ListNotations.
Close Scope string_scope.   (* opened by the generated table *)
Open Scope list_scope.
Open Scope N_scope.

Notation string := ustring (only parsing).
Notation String := cons (only parsing).
Notation "$ s" := (us s%string) (at level 0, s at level 0, only parsing).

(* what a lookup returns, for EVERY list of lines: the last line carrying that name *)
Theorem C12_lookup_is_last_occurrence : forall (ls : list string) (k : string),
  dict_get k (read_lines ls) = find_last k (parse_lines ls).
Proof. exact lookup_is_last. Qed.
Print Assumptions C12_lookup_is_last_occurrence.

(* order of parameter lines: every permutation of a file with distinct names gives the same lookups *)
Theorem C12_permutation : forall ls ls' : list string,
  Permutation ls ls' -> NoDup (map e_name (parse_lines ls)) ->
  forall k, dict_get k (read_lines ls) = dict_get k (read_lines ls').
Proof. exact permutation_invariance. Qed.
Print Assumptions C12_permutation.

(* with duplicates: any rearrangement (insertion, deletion, reordering of other lines) that leaves the
   occurrences of name k in their own relative order leaves the lookup of k unchanged *)
Theorem C12_reorder_with_duplicates : forall (ls ls' : list string) (k : string),
  filter (fun e => US.eqb k (e_name e)) (parse_lines ls) = filter (fun e => US.eqb k (e_name e)) (parse_lines ls') ->
  dict_get k (read_lines ls) = dict_get k (read_lines ls').
Proof. exact reorder_with_duplicates. Qed.
Print Assumptions C12_reorder_with_duplicates.

(* when a parameter appears more than once the last occurrence governs *)
Theorem C12_last_wins : forall (ls1 ls2 : list string) (k : string),
  dict_get k (read_lines (ls1 ++ ls2)%list) =
  match dict_get k (read_lines ls2) with Some e => Some e | None => dict_get k (read_lines ls1) end.
Proof. exact last_wins. Qed.
Print Assumptions C12_last_wins.

(* iteration order of the dictionary (what the add-on block sees): for any class p of names, if the lines of
   class p keep their relative order then the keys of class p are iterated in the same order *)
Theorem C12_block_order : forall (p : string -> bool) (ls ls' : list string),
  filter p (map e_name (parse_lines ls)) = filter p (map e_name (parse_lines ls')) ->
  filter p (keys (read_lines ls)) = filter p (keys (read_lines ls')).
Proof. exact block_order. Qed.
Print Assumptions C12_block_order.

(* blank lines, lines without a comma and comment lines (#, --, * after optional indentation) are ignored *)
Theorem C12_comment_blank : forall (l1 l2 : list string) (c : string),
  (allws c = true \/ nocomma c = true \/
   exists p m x, allws p = true /\ (m = [HASH] \/ m = [DASH; DASH] \/ m = [STAR]) /\ c = (p ++ m ++ x)%list) ->
  read_lines (l1 ++ c :: l2)%list = read_lines (l1 ++ l2)%list.
Proof. exact ignored_kinds. Qed.
Print Assumptions C12_comment_blank.

(* whitespace around name and value: any amount of any of the 29 code points str.strip() removes (U+00A0, U+2003, U+3000 ...) *)
Theorem C12_whitespace : forall p1 p2 p3 p4 d v : string,
  allws p1 = true -> allws p2 = true -> allws p3 = true -> allws p4 = true ->
  nocomma d = true -> nocomma v = true ->
  core (parse_line (p1 ++ d ++ p2 ++ String COMMA (p3 ++ v ++ p4))) = core (parse_line (d ++ String COMMA v)).
Proof. exact whitespace_irrelevant. Qed.
Print Assumptions C12_whitespace.

(* a trailing comment after the value (any text, commas included) changes neither name nor value *)
Theorem C12_trailing_comment : forall d v c : string, nocomma d = true -> nocomma v = true ->
  name_val (parse_line (d ++ String COMMA (v ++ String COMMA c))) = name_val (parse_line (d ++ String COMMA v)).
Proof. exact trailing_comment_irrelevant. Qed.
Print Assumptions C12_trailing_comment.

(* both decorations at once *)
Theorem C12_decorated_line : forall p1 p2 p3 p4 d v c : string,
  allws p1 = true -> allws p2 = true -> allws p3 = true -> allws p4 = true ->
  nocomma d = true -> nocomma v = true ->
  name_val (parse_line (p1 ++ d ++ p2 ++ String COMMA (p3 ++ v ++ p4 ++ String COMMA c)))
  = name_val (parse_line (d ++ String COMMA v)).
Proof. exact decorated_line. Qed.
Print Assumptions C12_decorated_line.

(* and the undecorated line reads as written (so the statements above are not about None = None) *)
Theorem C12_clean_line : forall d v : string,
  nocomma d = true -> nocomma v = true -> is_comment (lstrip d) = false -> lstrip d <> [] ->
  name_val (parse_line (d ++ String COMMA v)) = Some (strip d, strip v).
Proof. exact clean_line. Qed.
Print Assumptions C12_clean_line.

(* line-ending style: LF, CRLF or CR files, last line terminated or not, read as the same list of lines *)
Theorem C12_crlf : forall (e : eol) (ls : list string) (last : string),
  Forall (fun l => noeol l = true) ls -> noeol last = true ->
  read_text (join_lines e ls ++ last) = read_lines (ls ++ [last])%list.
Proof. exact line_endings_irrelevant. Qed.
Print Assumptions C12_crlf.

(* the client's override parameters are appended after the base file and govern, for EVERY base text (terminated
   or not, any line-ending style) and every list of overrides (code after fix e85b257) ... *)
Theorem C12_client_override : forall (base : string) (params : list (string * string)) (k : string),
  dict_get k (read_text (client_text base params)) =
  match dict_get k (read_text (cat (map param_line params))) with
  | Some e => Some e
  | None => dict_get k (read_text base)
  end.
Proof. exact client_override. Qed.
Print Assumptions C12_client_override.

(* ... and each override reads as written *)
Theorem C12_client_override_value : forall (params : list (string * string)) (k v : string),
  Forall (fun p => clean_param p = true) params -> NoDup (map fst params) -> In (k, v) params ->
  option_map e_sval (dict_get k (read_text (cat (map param_line params)))) = Some (strip v).
Proof. exact client_param_value. Qed.
Print Assumptions C12_client_override_value.

(* the code before the fix (client_text_pinned: overrides written directly after base_file.readlines()) does not:
   with a base file whose last line is not terminated the first override is glued to that line.  Witness in
   corpus/C12/client_no_final_newline.json: a regression of the fix is reported with this replay. *)
Theorem C12_client_override_pinned_refuted : exists (base : string) (params : list (string * string)) (k v : string),
  In (k, v) params /\ clean_param (k, v) = true /\ dict_get k (read_text (client_text_pinned base params)) = None
  /\ option_map e_sval (dict_get $"A" (read_text (client_text_pinned base params))) = Some $"1B".
Proof. exact client_override_counterexample. Qed.
Print Assumptions C12_client_override_pinned_refuted.

(* every syntactic use of Model.InputParameters in the current source (table regenerated on each run) is blind to
   the order of the keys, except the add-on block and the renaming of one deprecated key *)
Theorem C12_lookup_only : forall u, In u InputParamUses.uses -> use_ok u = true.
Proof. exact uses_ok. Qed.
Print Assumptions C12_lookup_only.

(* the table is not empty for the wrong reason: it contains the population by read_input_file in Model.__init__,
   the per-module lookups and the add-on block *)
Theorem C12_uses_cover :
  existsb is_population InputParamUses.uses = true /\ existsb is_module_lookup InputParamUses.uses = true
  /\ existsb addon_block InputParamUses.uses = true.
Proof. exact uses_cover. Qed.
Print Assumptions C12_uses_cover.

(* list-valued lines ("Gradients, 50, 40, 30", "Thicknesses, 1, 1": ReadParameter re-reads them from the raw line): a
   trailing "-- comment" - ANY text, commas and digits included - after a comma and optional whitespace changes none of
   the fields handed to float(), provided the line has no "--" before it *)
Theorem C12_list_trailing_comment : forall a p c : string,
  before_dd (a ++ COMMA :: p) = a ++ COMMA :: p -> allws p = true ->
  list_fields (a ++ COMMA :: p ++ DASH :: DASH :: c) = list_fields a.
Proof. exact list_trailing_comment. Qed.
Print Assumptions C12_list_trailing_comment.

Example C12_example_list :
  list_fields $"Thicknesses, 1, 1, -- equal, 0.5 km each, really" = [$"1"; $"1"]
  /\ list_fields $"Gradients, 50, 40 ,30,--x" = [$"50"; $"40"; $"30"]
  /\ before_dd $"Thicknesses, 1, 1, " = $"Thicknesses, 1, 1, ".
Proof. vm_compute. repeat split; reflexivity. Qed.

(* a caching client in front of the reader: with the real cache key (the file PATH) every history of requests over any
   set of files gets, request by request, what a fresh run of that request's file gives - whatever is observed of the
   dictionary ([view]).  Files are not edited during the history ([fs] is a function: edits are property C08). *)
Theorem C12_cache_key_separates : forall (Res : Type) (fs : string -> string) (view : dict -> Res) (history : list string),
  serve string string Res key_path US.eqb (fun p => view (read_text (fs p))) [] history
  = map (fun p => view (read_text (fs p))) history.
Proof. exact cache_key_separates. Qed.
Print Assumptions C12_cache_key_separates.

(* an order-insensitive key (the set of stripped non-blank lines) does NOT separate files that read differently: the
   40-then-60 and 60-then-40 files share it and the second request is answered with the first one's result *)
Theorem C12_cache_key_lineset_refuted :
  exists t1 t2 : string,
    lineset_eqb (key_lineset t1) (key_lineset t2) = true
    /\ option_map e_sval (dict_get $"Gradient 1" (read_text t1)) = Some $"60"
    /\ option_map e_sval (dict_get $"Gradient 1" (read_text t2)) = Some $"40"
    /\ serve string (list string) (option string) key_lineset lineset_eqb
         (fun t => option_map e_sval (dict_get $"Gradient 1" (read_text t))) [] [t1; t2]
       = [Some $"60"; Some $"60"].
Proof. exact lineset_key_counterexample. Qed.
Print Assumptions C12_cache_key_lineset_refuted.

Example C12_example_cache :
  cache_check [$"/t/a.txt"; $"/t/b.txt"; $"/t/a.txt"; $"/t/c.txt"] [0; 1; 0; 3] = true.
Proof. vm_compute. reflexivity. Qed.

(* the whitespace of the model is EXACTLY the 29 code points str.isspace() accepts (the list is compared with the
   running interpreter's table on every check) *)
Theorem C12_whitespace_table : forall c : N, is_ws c = true <-> In c ws_points.
Proof. exact is_ws_table. Qed.
Print Assumptions C12_whitespace_table.

(* the file is BYTES: every text a Python str can hold (any Unicode scalar values), UTF-8 encoded, is read exactly as
   the tokenizer reads that text - so all statements above about read_text / read_lines are statements about files *)
Theorem C12_utf8_file : forall t : string,
  forallb scalar t = true -> read_file (utf8_encode t) = ReadOk (read_text t).
Proof. exact read_file_encoded. Qed.
Print Assumptions C12_utf8_file.

(* decoding is strict and total failure: a byte that cannot start a character (a stray continuation byte 0x80-0xBF,
   0xC0, 0xC1, 0xF5-0xFF) ANYWHERE after a well-formed prefix makes the whole file unreadable (UnicodeDecodeError) -
   it is never skipped, replaced or read as latin-1 *)
Theorem C12_decode_error : forall (t : string) (b : N) (rest : list N),
  forallb scalar t = true -> (128 <=? b) && (b <=? 193) || (245 <=? b) = true ->
  read_file (utf8_encode t ++ b :: rest) = DecodeError.
Proof. exact decode_error_anywhere. Qed.
Print Assumptions C12_decode_error.

(* non-vacuity *)
Example C12_example_utf8 :
  utf8_encode [65; 160; 8195; 12288; 128512] = [65; 194; 160; 226; 128; 131; 227; 128; 128; 240; 159; 152; 128]
  /\ forallb scalar [65; 160; 8195; 12288; 128512] = true
  /\ map is_ws [160; 8195; 12288; 5760; 8239; 65279; 8203] = [true; true; true; true; true; false; false]
  /\ read_file ($"A, 1" ++ [160; 10]) = DecodeError            (* a latin-1 NBSP byte is not UTF-8 *)
  /\ read_file [237; 160; 128] = DecodeError /\ read_file [192; 128] = DecodeError /\ read_file [226; 128] = DecodeError.
Proof. vm_compute. repeat split; reflexivity. Qed.

Example C12_example_file :
  map (fun p => (fst p, e_sval (snd p)))
      (read_text ($"Reservoir Depth, 3, -- km" ++ [CR; LF] ++ $"# c" ++ [LF] ++ [LF] ++ [8195] ++ $" Gradient 1" ++ [160] ++ $",  50 " ++ [12288]
                  ++ [CR] ++ $"* x,1" ++ [LF] ++ $"Reservoir Depth,4"))
  = [($"Reservoir Depth", $"4"); ($"Gradient 1", $"50")].
Proof. vm_compute. reflexivity. Qed.

Example C12_example_permutation :
  let ls := [$"A, 1"; $"B, 2"; $"C, 3"] in
  Permutation ls [$"C, 3"; $"A, 1"; $"B, 2"] /\ NoDup (map e_name (parse_lines ls)).
Proof.
  split.
  - apply Permutation_sym. change [$"C, 3"; $"A, 1"; $"B, 2"] with ([$"C, 3"] ++ [$"A, 1"; $"B, 2"]).
    change [$"A, 1"; $"B, 2"; $"C, 3"] with ([$"A, 1"; $"B, 2"] ++ [$"C, 3"]). apply Permutation_app_comm.
  - vm_compute. repeat constructor; cbn; intuition discriminate.
Qed.

Example C12_example_decorated :
  name_val (parse_line ([8195; 160] ++ $"Gradient 1" ++ [12288] ++ String COMMA ($" " ++ $"50" ++ [8201; 32] ++ String COMMA $" -- degC/km, really")))
  = Some ($"Gradient 1", $"50")
  /\ allws [8195; 160] = true /\ allws [8201; 32] = true /\ nocomma $"Gradient 1" = true /\ is_comment (lstrip $"Gradient 1") = false.
Proof. vm_compute. repeat split. Qed.

Example C12_example_duplicates :
  let ls := [$"A, 1"; $"B, 2"; $"A, 3"] in let ls' := [$"B, 2"; $"A, 1"; $"# x"; $"A, 3"] in
  filter (fun e => US.eqb $"A" (e_name e)) (parse_lines ls) = filter (fun e => US.eqb $"A" (e_name e)) (parse_lines ls')
  /\ option_map e_sval (dict_get $"A" (read_lines ls)) = Some $"3".
Proof. vm_compute. split; reflexivity. Qed.

Example C12_example_block :
  let p := fun k : string => US.eqb (firstn 5 k) $"AddOn" in
  let ls := [$"AddOn CAPEX 1, 5"; $"X, 1"; $"AddOn CAPEX 2, 7"] in let ls' := [$"AddOn CAPEX 1, 5"; $"AddOn CAPEX 2, 7"; $"X, 1"] in
  filter p (map e_name (parse_lines ls)) = filter p (map e_name (parse_lines ls'))
  /\ filter p (keys (read_lines ls')) = [$"AddOn CAPEX 1"; $"AddOn CAPEX 2"].
Proof. vm_compute. split; reflexivity. Qed.

Example C12_example_crlf :
  Forall (fun l => noeol l = true) [$"A, 1"; $"B, 2"] /\ noeol $"C, 3" = true
  /\ dump (read_text (join_lines EolCR [$"A, 1"; $"B, 2"] ++ $"C, 3")) = dump (read_text (join_lines EolCRLF [$"A, 1"; $"B, 2"; $"C, 3"])).
Proof. split; [repeat constructor|]. split; vm_compute; reflexivity. Qed.

Example C12_example_client_params :
  let ps := [($"Gradient 1", $"60"); ($"End-Use Option", $"2")] in
  Forall (fun p => clean_param p = true) ps /\ NoDup (map fst ps).
Proof. split; [repeat constructor | repeat constructor; cbn; intuition discriminate]. Qed.

Example C12_example_client :
  option_map e_sval (dict_get $"Gradient 1" (read_text (client_text ($"Gradient 1, 50" ++ [CR]) [($"Gradient 1", $"60")]))) = Some $"60"
  /\ option_map e_sval (dict_get $"Gradient 1" (read_text (client_text $"Gradient 1, 50" [($"Gradient 1", $"60")]))) = Some $"60"
  /\ option_map e_sval (dict_get $"Gradient 1" (read_text (client_text_pinned $"Gradient 1, 50" [($"Gradient 1", $"60")]))) = Some $"50Gradient 1".
Proof. vm_compute. repeat split; reflexivity. Qed.
