(* Props/C04.v - Cash flow, NPV, IRR, VIR, MOIC and payback are mutually consistent.
   Statements only; every proof is `exact <lemma of Proofs/CashFlowProofs.v>`. *)
From Coq Require Import QArith Qabs List ZArith Bool Lia.
From Verif Require Import Base.Flat Model.CashFlow Proofs.CashFlowProofs Proofs.ScalingProofs Proofs.IrrProofs.
Import ListNotations.
Open Scope Q_scope.

(* every construction year carries minus an equal share of total capital cost *)
Theorem C04_cashflow_construction : forall (c : cf_in) (t : nat), (t < ci_cy c)%nat ->
  nth t (total_cashflow c) 0 = - (1) * (ci_ccap c / natQ (ci_cy c)).
Proof. exact cashflow_construction_year. Qed.
Print Assumptions C04_cashflow_construction.

(* every operating year: sum over the products sold of energy*price/1e6, plus carbon revenue when enabled, minus O&M;
   for every lifetime, every number of construction years, every product mix *)
Theorem C04_cashflow_operating : forall (c : cf_in) (life j : nat), wf c life -> (j < life)%nat ->
  nth (ci_cy c + j) (total_cashflow c) 0 ==
    product_revenue_spec c j + carbon_revenue_spec c j - ci_coam c.
Proof. exact cashflow_operating_spec. Qed.
Print Assumptions C04_cashflow_operating.

Theorem C04_cashflow_length : forall (c : cf_in) (life : nat), wf c life ->
  length (total_cashflow c) = (ci_cy c + life)%nat.
Proof. exact cashflow_length. Qed.
Print Assumptions C04_cashflow_length.

(* the cumulative series is the running sum of the yearly series *)
Theorem C04_cumulative : forall (cf : list Q) (i : nat), (i < length cf)%nat ->
  nth i (running cf) 0 == sumQ (firstn (S i) cf).
Proof. exact running_nth. Qed.
Print Assumptions C04_cumulative.

Theorem C04_cumulative_step : forall (cf : list Q) (i : nat), (S i < length cf)%nat ->
  nth (S i) (running cf) 0 == nth i (running cf) 0 + nth (S i) cf 0.
Proof. exact running_step. Qed.
Print Assumptions C04_cumulative_step.

(* a positive payback period lies within a year in which cumulative cash flow turns from non-positive to positive
   (first cumulative entry non-positive, i.e. CCap >= 0; without that premise Python's cum[-1] wrap-around at
   i = 0 is the only other possibility, see payback_bracket) *)
Theorem C04_payback_bracket : forall cum : list Q, nth 0 cum 0 <= 0 -> 0 < payback cum ->
  exists i, (S i < length cum)%nat /\ nth i cum 0 <= 0 /\ 0 < nth (S i) cum 0 /\
            natQ (S i) <= payback cum /\ payback cum <= natQ (S i) + 1.
Proof. exact payback_bracket_consecutive. Qed.
Print Assumptions C04_payback_bracket.

(* ... and it is 0 (printed as N/A) exactly when cumulative cash flow never turns positive *)
Theorem C04_payback_na : forall cum : list Q, nth 0 cum 0 <= 0 ->
  (payback cum == 0 <-> forall i, ~ crossing cum i).
Proof. exact payback_zero_iff. Qed.
Print Assumptions C04_payback_na.

(* NPV as computed (Horner) is the documented discounted sum *)
Theorem C04_npv_discounted_sum : forall (r : Q) (cf : list Q), ~ 1 + r == 0 ->
  npv r cf == npv_sigma_from r 0 cf.
Proof. exact npv_is_discounted_sum. Qed.
Print Assumptions C04_npv_discounted_sum.

(* both NPV discounting conventions have the same roots: an IRR zeroes one iff it zeroes the other *)
Theorem C04_npv_conventions_same_roots : forall (r : Q) (cf : list Q), ~ 1 + r == 0 ->
  (calculate_npv r cf true == 0 <-> calculate_npv r cf false == 0).
Proof. exact npv_same_roots. Qed.
Print Assumptions C04_npv_conventions_same_roots.

Theorem C04_vir : forall n capex : Q, ~ capex == 0 -> (vir n capex - 1) * capex == n.
Proof. exact vir_def. Qed.
Print Assumptions C04_vir.

Theorem C04_moic : forall (cum : list Q) (capex opex : Q) (life : nat), ~ capex + opex * natQ life == 0 ->
  moic cum capex opex life * (capex + opex * natQ life) == last cum 0.
Proof. exact moic_def. Qed.
Print Assumptions C04_moic.

(* the reduced-fraction evaluators used by the correspondence compute the same values *)
Theorem C04_executable_forms : forall (r : Q) (cf : list Q) (d : bool) (l : list Q),
  calculate_npv_red r cf d == calculate_npv r cf d /\ Forall2 Qeq (running_red_from 0 l) (running l).
Proof. intros r cf d l. split; [apply calculate_npv_red_eq | apply running_red_from_eq; reflexivity]. Qed.
Print Assumptions C04_executable_forms.

(* a conventional cash flow (non-positive years, at least one strictly negative, followed by non-negative years) has at
   most one internal rate of return above -100 %: NPV(r)(1+r)^k is strictly decreasing.  So for such a series the reported
   IRR - checked on every run to zero the modelled NPV - is THE rate implied by the series. *)
Theorem C04_irr_unique : forall (r1 r2 : Q) (neg pos : list Q), 0 < 1 + r1 -> 0 < 1 + r2 ->
  nonpos neg -> Exists (fun c => c < 0) neg -> nonneg pos ->
  npv r1 (neg ++ pos) == 0 -> npv r2 (neg ++ pos) == 0 -> r1 == r2.
Proof. exact irr_unique. Qed.
Print Assumptions C04_irr_unique.

(* in particular for the modelled project cash flow with positive capital cost and non-negative operating years *)
Theorem C04_project_irr_unique : forall (c : cf_in) (r1 r2 : Q),
  0 < ci_ccap c -> (1 <= ci_cy c)%nat -> nonneg (total_ops c) ->
  0 < 1 + r1 -> 0 < 1 + r2 -> npv r1 (total_cashflow c) == 0 -> npv r2 (total_cashflow c) == 0 -> r1 == r2.
Proof. exact project_irr_unique. Qed.
Print Assumptions C04_project_irr_unique.

(* ---- non-vacuity: a concrete cogeneration run with carbon revenue, 2 construction + 3 operating years ---- *)
Definition ex_c : cf_in :=
  {| ci_kind := KCogen; ci_cy := 2; ci_ccap := 30; ci_coam := 2; ci_carbon := true; ci_gi := 1#2; ci_ni := 1#4;
     ci_eE := [100000000; 90000000; 80000000]; ci_eH := [40000000; 40000000; 30000000]; ci_eC := [];
     ci_pE := [7#100; 7#100; 8#100]; ci_pH := [2#100; 2#100; 2#100]; ci_pC := [0; 0; 0];
     ci_pCarb := [1#100; 1#100; 1#100] |}.
Example ex_wf : wf ex_c 3.
Proof. unfold wf, ex_c; simpl. repeat split; reflexivity. Qed.
Example ex_cashflow : map Qred (total_cashflow ex_c) = [-15; -15; 32#5; 113#20; 219#40].
Proof. vm_compute. reflexivity. Qed.
Example ex_payback_hyp : nth 0 (cumulative ex_c) 0 <= 0 /\ payback (cumulative ex_c) == 0.
Proof. split; vm_compute; [discriminate | reflexivity]. Qed.
Example ex_payback_positive :
  let cum := running [-10; 4; 4; 4; 4] in nth 0 cum 0 <= 0 /\ 0 < payback cum /\ Qred (payback cum) = 7#2.
Proof. cbv zeta. repeat split; vm_compute; try reflexivity; discriminate. Qed.
Example ex_irr : let cf := [-100; 60; 60] in npv (1 # 5) cf < 0 /\ 0 < npv (1 # 10) cf /\ nonpos [-100] /\ nonneg [60; 60].
Proof. cbv zeta. repeat split; try (vm_compute; reflexivity); repeat constructor; unfold Qle; simpl; lia. Qed.
