#!/bin/bash
# MANIFEST.setup_cmd: build the whole Coq development from files on disk (offline).
set -e
HERE="$(cd "$(dirname "${BASH_SOURCE[0]}")" && pwd)"
REPO="${VERIF_REPO:-/repo}"
export PYTHONPATH="$REPO/src:$HERE/tools"
export PYTHONHASHSEED=0 PYTHONDONTWRITEBYTECODE=1 GEOPHIRES_X_VERIF=1 PIP_NO_INDEX=1
cd "$HERE"
/venv/bin/python -B tools/setup.py
